"""pyvc.harness -- proof units, parallel discharge with hard kills, verdicts, evidence, known findings, replay."""
import hashlib
import json
import multiprocessing as mp
import os
import sys
import time
import traceback

VERIF = os.path.dirname(os.path.dirname(os.path.abspath(__file__)))
REPO = os.environ.get("PYVC_REPO", "/repo")

GLOBAL_ASSUMPTIONS = [
    "A1 floats are mathematical reals (rounding, overflow, FP traps invisible)",
    "A2 ints are mathematical (int64 overflow ignored)",
    "A3 exp(i*theta)/cos/sin/arctan2/elliptic integrals are uninterpreted with the algebraic laws of pyvc.sym.cis",
    "A4 numpy/scipy.sparse/h5py/pint/shapely/pickle behave as their models in /verif/pyvc/models say",
    "A6 numba compiles kernels with the semantics of their Python source",
    "A8 CPython executes the instrumented source faithfully; instrumentation T1-T6 is the only difference",
    "A9 partial correctness: termination not proved",
    "A10 the engine (pyvc) and z3/cvc5 are trusted; defended by must-fail canaries, mutation canaries, replay",
]


def bounded_unit(name, func, pid, search, describe, props=None, timeout=900):
    """a BOUNDED native stand-in executed as a unit (also in the quick tier): search() -> (failing inputs, evaluations).  Its single
    obligation is reported separately in the evidence and never counted as discharged by proof."""
    def run(mutate=None):
        import z3
        from . import sym

        def body():
            import contextlib
            import io
            with contextlib.redirect_stderr(io.StringIO()):      # progress bars of real solver runs
                bad, n = search()
            sym.check(f"{pid}.bounded.{describe}", z3.BoolVal(not bad), note=f"{n} evaluations; " + (str(bad[:2]) if bad else "no failing input"))
        obls, n_ = sym.explore(body)
        return dict(obls=obls, paths=n_, sources=[], consistent=True)
    return Unit(name, func, run, props=props or [pid], timeout=timeout, kind="bounded")


class Unit:
    """one function under contract in one scenario.  run() performs the symbolic execution and calls
    sym.check(); replay(obl) -> dict(confirmed=bool, ...) replays a counter-model on the real code natively."""

    def __init__(self, name, func, run, replay=None, props=(), timeout=300, kind="proof", expect_paths=None,
                 assumptions=(), trusted=(), mutate=None):
        self.name, self.func, self.run, self.replay = name, func, run, replay
        self.props, self.timeout, self.kind = tuple(props), timeout, kind
        self.assumptions, self.trusted = list(assumptions), list(trusted)
        self.mutate = mutate


def _worker(modname, unit_name, mutate, q):
    try:
        sys.setrecursionlimit(10000)
        import importlib
        from . import sym
        mod = importlib.import_module(modname)
        units = {u.name: u for u in mod.units()}
        u = units[unit_name]
        t0 = time.time()
        res = u.run(mutate) if mutate is not None else u.run(None)
        # res: dict(obls=[Obl], paths=int, sources=[info], consistent=bool|None)
        out = dict(unit=unit_name, func=u.func, kind=getattr(u, "kind", "proof"), status="ok", paths=res.get("paths", 0),
                   obls=[o.as_dict() for o in res["obls"]], sources=res.get("sources", []),
                   consistent=res.get("consistent"), secs=time.time() - t0,
                   stats=dict(sym.STATS), extra=res.get("extra", {}))
        q.put(out)
    except BaseException as e:  # noqa
        from .sym import Undecided
        st = "undecided" if isinstance(e, Undecided) else "crash"
        q.put(dict(unit=unit_name, status=st, error=f"{type(e).__name__}: {e}", tb=traceback.format_exc()[-3000:],
                   obls=[], paths=0, sources=[], secs=0.0, stats={}, extra={}))


def run_units(modname, units, mutate=None, jobs=None, only=None):
    """run every unit in its own process (hard wall-clock kill).  -> list of result dicts"""
    jobs = jobs or min(16, os.cpu_count() or 4)
    ctxm = mp.get_context("fork")
    pending = [u for u in units if only is None or u.name in only]
    running = []
    results = []
    while pending or running:
        while pending and len(running) < jobs:
            u = pending.pop(0)
            q = ctxm.Queue()
            p = ctxm.Process(target=_worker, args=(modname, u.name, mutate, q))
            p.start()
            running.append((u, p, q, time.time()))
        time.sleep(0.02)
        still = []
        for (u, p, q, t0) in running:
            got = None
            try:
                got = q.get_nowait()
            except Exception:
                pass
            if got is not None:
                p.join(5)
                if p.is_alive():
                    p.kill()
                got["func"] = u.func
                results.append(got)
            elif not p.is_alive():
                try:
                    got = q.get(timeout=1)
                    got["func"] = u.func
                    results.append(got)
                except Exception:
                    results.append(dict(unit=u.name, func=u.func, status="crash", error=f"worker died rc={p.exitcode}",
                                        obls=[], paths=0, sources=[], secs=time.time() - t0, stats={}, extra={}))
            elif time.time() - t0 > u.timeout:
                p.kill()
                results.append(dict(unit=u.name, func=u.func, status="undecided", error=f"hard timeout {u.timeout}s",
                                    obls=[], paths=0, sources=[], secs=time.time() - t0, stats={}, extra={}))
            else:
                still.append((u, p, q, t0))
        running = still
    order = {u.name: i for i, u in enumerate(units)}
    results.sort(key=lambda r: order.get(r["unit"], 0))
    return results


# ----------------------------------------------------------------------------- known findings / lock


def load_known():
    p = os.path.join(VERIF, "known_findings.json")
    if not os.path.exists(p):
        return []
    return json.load(open(p))["findings"]


def load_lock(pid):
    p = os.path.join(VERIF, "obligations", f"{pid}.lock.json")
    if not os.path.exists(p):
        return None
    return json.load(open(p))


def write_lock(pid, results):
    lock = {}
    for r in results:
        # contract-level names only: implicit safety.* / spec.* obligations depend on incidental code shape
        names = sorted({o["name"] for o in r["obls"] if o["status"] == "proved" and o["name"][:1] == "C"})
        lock[r["unit"]] = names
    os.makedirs(os.path.join(VERIF, "obligations"), exist_ok=True)
    json.dump(lock, open(os.path.join(VERIF, "obligations", f"{pid}.lock.json"), "w"), indent=1, sort_keys=True)


def match_known(known, pid, unit, oname):
    for k in known:
        if k.get("status") != "known":
            continue
        if k["property"] == pid and k.get("unit", unit) == unit and (k.get("obligation") == oname or
                                                                    (k.get("obligation_prefix") and oname.startswith(k["obligation_prefix"]))):
            return k
    return None


def run_mutants(modname, units, mutants, jobs=None):
    """mutation canaries: in-memory edits of the real source (never written to /repo).
    mutants: list of dict(name, edits=[(module, old, new)], expect='killed'|'pass', units=[...]|None)
    -> (summary list, broken list).  All (mutant, unit) pairs share one process pool."""
    import copy
    pairs = []
    for mi, m in enumerate(mutants):
        for u in units:
            if getattr(u, "kind", "proof") == "bounded" and not (m.get("units") and u.name in m["units"]):
                continue        # bounded native stand-ins read the real tree: in-memory mutants do not reach them
            if m.get("units") is None or u.name in m["units"]:
                u2 = copy.copy(u)
                u2.name = f"{mi}::{u.name}"
                u2._orig = u.name
                u2._mut = m["edits"]
                pairs.append(u2)
    res_all = _run_pairs(modname, pairs, jobs)
    summary, broken = [], []
    pid = modname.rsplit(".", 1)[-1].upper()
    try:
        known = load_known()
    except Exception:
        known = []
    for mi, m in enumerate(mutants):
        res = [r for r in res_all if r["unit"].startswith(f"{mi}::")]
        # obligations that already fail on the unchanged tree as listed known findings do not count as a kill
        failed = sorted({o["name"] for r in res for o in r["obls"] if o["status"] in ("failed", "failed-weak")
                         and match_known(known, pid, r["unit"].split("::", 1)[1], o["name"]) is None})
        unknown = sorted({o["name"] for r in res for o in r["obls"] if o["status"] == "unknown"})
        errs = [f"{r['unit']}: {r.get('error')}" for r in res if r["status"] != "ok"]
        anchor_missing = any("mutation anchor not found" in (e or "") for e in errs)
        if anchor_missing:
            verdict = "anchor-missing"       # the source changed; the canary no longer applies (not an alarm)
        elif failed:
            verdict = "killed"
        elif unknown or errs:
            verdict = "not-proved"
        else:
            verdict = "survived"
        exp = m.get("expect", "killed")
        ok = anchor_missing or (verdict in ("killed", "not-proved") if exp == "killed" else verdict == "survived")
        summary.append(dict(name=m["name"], expect=exp, verdict=verdict, failed=failed[:6], unknown=unknown[:6], errors=errs[:3]))
        if not ok:
            broken.append(f"mutant {m['name']!r}: expected {exp}, got {verdict} {errs[:1]} {unknown[:2]}")
    return summary, broken


def _run_pairs(modname, pairs, jobs=None):
    jobs = jobs or min(16, os.cpu_count() or 4)
    ctxm = mp.get_context("fork")
    pending = list(pairs)
    running, results = [], []
    while pending or running:
        while pending and len(running) < jobs:
            u = pending.pop(0)
            q = ctxm.Queue()
            p = ctxm.Process(target=_worker, args=(modname, u._orig, u._mut, q))
            p.start()
            running.append((u, p, q, time.time()))
        time.sleep(0.05)
        still = []
        for (u, p, q, t0) in running:
            got = None
            try:
                got = q.get_nowait()
            except Exception:
                pass
            if got is not None:
                p.join(5)
                if p.is_alive():
                    p.kill()
                got["unit"] = u.name
                results.append(got)
            elif not p.is_alive():
                results.append(dict(unit=u.name, status="crash", error=f"worker died rc={p.exitcode}", obls=[]))
            elif time.time() - t0 > u.timeout:
                p.kill()
                results.append(dict(unit=u.name, status="undecided", error=f"hard timeout {u.timeout}s", obls=[]))
            else:
                still.append((u, p, q, t0))
        running = still
    return results
