"""driver:  python -m pyvc.main <ID> [--tier quick|thorough] [--replay FILE] [--write-lock] [--only unit,...]

exit 0 held / 1 violation (VIOLATION line) / 2 undecided / 3 checker crash."""
import argparse
import importlib
import json
import os
import sys
import time

VERIF = os.path.dirname(os.path.dirname(os.path.abspath(__file__)))
sys.path.insert(0, VERIF)
REPO = os.environ.get("PYVC_REPO", "/repo")
sys.path.insert(0, REPO)

from pyvc import harness  # noqa: E402
from pyvc.instrument import INSTRUMENTATION  # noqa: E402


def _git_head(path):
    try:
        import subprocess
        return subprocess.run(["git", "-C", path, "rev-parse", "HEAD"], capture_output=True, text=True, timeout=10).stdout.strip()
    except Exception:
        return "?"


def main(argv=None):
    ap = argparse.ArgumentParser()
    ap.add_argument("pid")
    ap.add_argument("--tier", default=os.environ.get("VERIF_TIER", "quick"))
    ap.add_argument("--replay")
    ap.add_argument("--write-lock", action="store_true")
    ap.add_argument("--only")
    ap.add_argument("--no-evidence", action="store_true")
    ap.add_argument("--verbose", "-v", action="store_true")
    a = ap.parse_args(argv)
    pid = a.pid.upper()
    tier = a.tier if a.tier in ("quick", "thorough") else "quick"
    seed = int(os.environ.get("VERIF_SEED", "0") or 0)
    modname = f"checks.{pid.lower()}"
    t0 = time.time()
    try:
        mod = importlib.import_module(modname)
    except Exception as e:
        print(f"CHECKER-ERROR cannot import {modname}: {e!r}")
        import traceback
        traceback.print_exc()
        return 3
    if a.replay:
        rep = json.load(open(a.replay))
        out = mod.replay(rep["unit"], rep["obligation"])
        print(json.dumps(out, indent=1, default=str))
        return 1 if out.get("confirmed") else 0

    units = mod.units()
    only = set(a.only.split(",")) if a.only else None
    results = harness.run_units(modname, units, only=only)
    known = harness.load_known()
    lock = harness.load_lock(pid)

    n_obl = n_dis = 0
    n_bnd = n_bnd_ok = 0
    bounded_units = []
    violations, undecided, crashes, known_hits, unknowns = [], [], [], [], []
    backends = {}
    solver_secs = 0.0
    samples = []
    per_unit = []
    src_infos = {}
    for r in results:
        if r["status"] == "crash":
            crashes.append((r["unit"], r.get("error"), r.get("tb", "")))
        elif r["status"] == "undecided":
            undecided.append((r["unit"], r.get("error")))
        for s in r.get("sources", []):
            src_infos[s["module"]] = s
        if r["status"] == "ok" and r.get("consistent") is False:
            crashes.append((r["unit"], "must-fail canary verified: path conditions contradictory (vacuous)", ""))
        names = {}
        is_bounded = r.get("kind") == "bounded"
        if is_bounded:
            bounded_units.append(dict(unit=r["unit"], function=r.get("func"), secs=round(r.get("secs", 0), 2),
                                      results=[dict(check=o["name"], held=o["status"] == "proved", note=(o.get("note") or "")[:300]) for o in r["obls"]]))
        for o in r["obls"]:
            if is_bounded:
                # bounded native stand-ins: reported on their own, never counted as obligations discharged by proof
                n_bnd += 1
                n_bnd_ok += o["status"] == "proved"
            else:
                n_obl += 1
                backends[o["backend"]] = backends.get(o["backend"], 0) + 1
                solver_secs += o["secs"]
            e = names.setdefault(o["name"], dict(paths=0, proved=0, failed=0, unknown=0))
            e["paths"] += 1
            e["failed" if o["status"] == "failed-weak" else o["status"]] += 1
            if o["status"] == "proved":
                n_dis += 0 if is_bounded else 1
            elif o["status"] == "unknown":
                k = harness.match_known(known, pid, r["unit"], o["name"])
                if k is not None:
                    known_hits.append((k, r["unit"], o))
                else:
                    unknowns.append((r["unit"], o))
            else:
                k = harness.match_known(known, pid, r["unit"], o["name"])
                if k is not None:
                    known_hits.append((k, r["unit"], o))
                else:
                    violations.append((r["unit"], o))
        if r["status"] == "ok" and lock is not None and only is None:
            want = set(lock.get(r["unit"], []))
            have = {n for n, e in names.items() if e["proved"] == e["paths"]}
            havek = {n for n, e in names.items()}
            for missing in sorted(want - havek):
                undecided.append((r["unit"], f"obligation {missing} recorded in the lock file was not generated (vanished function/loop/hint)"))
        if r["status"] == "ok" and not r["obls"]:
            undecided.append((r["unit"], "zero obligations generated"))
        per_unit.append(dict(unit=r["unit"], function=r.get("func"), status=r["status"], paths=r.get("paths"),
                             secs=round(r.get("secs", 0), 2), obligations=names, error=r.get("error")))
        for n, e in list(names.items())[:2]:
            if len(samples) < 12:
                samples.append(dict(unit=r["unit"], obligation=n, function=r.get("func"), **e))
    if lock is not None and only is None:
        for uname in lock:
            if uname not in {r["unit"] for r in results}:
                undecided.append((uname, "unit recorded in the lock file was not run"))

    # ---- replays for violations
    vio_lines = []
    os.makedirs(os.path.join(VERIF, "replays", pid), exist_ok=True)
    seen = set()
    replay_cache = {}
    n_known_lines = set()
    for (k, uname, o) in known_hits:
        oname_k = k.get("obligation") or (k.get("obligation_prefix", "") + "*")
        key = (k["property"], oname_k, k.get("unit"))
        if key not in n_known_lines:
            n_known_lines.add(key)
            print(f"KNOWN-FINDING: property={pid} {oname_k} ({uname}): {k['what']}")
    for (uname, o) in violations + unknowns:
        key = (uname, o["name"])
        if key in seen:
            continue
        seen.add(key)
        rp = os.path.join(VERIF, "replays", pid, f"{uname}--{o['name']}.json".replace("/", "_").replace(" ", "_"))
        rep = dict(property=pid, unit=uname, obligation=o, tier=tier, repo_head=_git_head(REPO))
        confirmed = None
        kind_of = {r["unit"]: r.get("kind") for r in results}
        try:
            if kind_of.get(uname) == "bounded" and o["status"] in ("failed", "failed-weak"):
                # a bounded native stand-in IS a run of the real code: its failing inputs are the replay
                rep["replay"] = dict(confirmed=True, failing_input=o.get("note"), note="failing inputs reported by the bounded native run itself")
                confirmed = True
            elif hasattr(mod, "replay"):
                import contextlib, io
                # native searches that do not depend on the individual obligation are run once per scope (default: per obligation)
                scope = (uname, mod.replay_scope(uname, o)) if hasattr(mod, "replay_scope") else (uname, o["name"])
                if scope in replay_cache:
                    rr = dict(replay_cache[scope][1], shared_with=replay_cache[scope][0])
                else:
                    with contextlib.redirect_stderr(io.StringIO()):      # progress bars of real solver runs
                        rr = mod.replay(uname, o)
                    replay_cache[scope] = (o["name"], rr)
                rep["replay"] = rr
                confirmed = bool(rr and rr.get("confirmed"))
        except Exception as e:  # replay harness failure is not a verdict
            import traceback
            rep["replay_error"] = traceback.format_exc()[-2000:]
        in_lock = lock is not None and o["name"] in set(lock.get(uname, []))
        rep["in_lock"] = in_lock
        json.dump(rep, open(rp, "w"), indent=1, default=str)
        if confirmed:
            vio_lines.append(f"VIOLATION property={pid} replay={rp}")
        elif o["status"] in ("unknown", "failed-weak"):
            # no verdict from the solver on the full VC and no native failing input: undecided, never a violation
            undecided.append((uname, f"obligation {o['name']} [path {o['path']}]: solver {o['status']}, replay found no failing input"))
        elif in_lock and o.get("kind") == "invariant":
            # a loop invariant / loop side condition is a proof artefact, not a statement of the property: when it stops holding and no failing input
            # exists natively, the contract may simply not follow a restructured loop -> undecided, not a violation
            undecided.append((uname, f"loop invariant {o['name']} no longer holds and the native replay found no failing input (contract cannot follow the loop as written?)"))
        elif in_lock:
            vio_lines.append(f"VIOLATION property={pid} replay={rp} no-failing-input-found")
        else:
            # never discharged on the pinned tree and no replayed witness: the contract, not the code, is suspect
            undecided.append((uname, f"obligation {o['name']} fails (sat) but is not in the lock and no replay confirms it"))

    # ---- thorough extras
    extra = {}
    if tier == "thorough" and not crashes and hasattr(mod, "thorough"):
        try:
            import contextlib, io
            with contextlib.redirect_stderr(io.StringIO()):
                extra = mod.thorough(seed=seed) or {}
        except Exception as e:
            import traceback
            crashes.append(("thorough", repr(e), traceback.format_exc()[-2000:]))
        for (oname, what) in extra.get("known", []):
            k = harness.match_known(known, pid, "bounded", oname)
            if k is not None:
                print(f"KNOWN-FINDING: property={pid} {oname} (bounded): {k['what']} -- this run: {what}")
            else:
                crashes.append(("thorough", f"bounded stand-in reports an unlisted finding {oname}: {what}", ""))
        for v in extra.get("violations", []):
            vio_lines.append(f"VIOLATION property={pid} replay={v}")
        for u in extra.get("broken", []):
            crashes.append(("thorough", u, ""))

    wall = time.time() - t0
    rc = 0
    if crashes:
        rc = 3
    elif vio_lines:
        rc = 1
    elif undecided:
        rc = 2

    if a.write_lock and rc in (0, 1, 2) and only is None:
        harness.write_lock(pid, results)
        print("lock written")

    level = getattr(mod, "LEVEL", "proof")
    trusted = list(getattr(mod, "TRUSTED", []))
    assumptions = harness.GLOBAL_ASSUMPTIONS + list(getattr(mod, "ASSUMPTIONS", []))
    cov = dict(
        obligations=n_obl - len(known_hits), discharged=n_dis, obligations_failing_as_known_findings=len(known_hits),
        checker_cmd=f"cd /verif && ./check {pid} --tier {tier}",
        trusted_base=trusted + ["pyvc engine", "z3 5.1", "cvc5 1.4 (second opinion)", "CPython 3.12"],
        functions_under_contract=sorted({r.get("func") for r in results if r.get("func")}),
        units=per_unit, backends=backends, solver_secs=round(solver_secs, 2),
        paths_explored=sum(r.get("paths", 0) or 0 for r in results),
        instrumentation=INSTRUMENTATION, sources=list(src_infos.values()),
        samples=samples or [dict(note="no obligations")],
        known_findings_hit=[dict(obligation=o["name"], unit=u, what=k["what"]) for (k, u, o) in known_hits],
        undecided=[f"{u}: {m}" for (u, m) in undecided], crashes=[f"{u}: {m}" for (u, m, _) in crashes],
        explanation=getattr(mod, "EXPLANATION", ""),
        exhaustive=False,
        repo_head=_git_head(REPO),
        bounded_stand_ins=dict(note="bounded native runs of the real code (labelled bounded, never counted as proved); they also serve as replay oracles",
                               checks=n_bnd, held=n_bnd_ok, units=bounded_units),
    )
    cov.update(extra.get("coverage", {}))
    if level != "proof" or n_obl == 0:
        # generic keys for non-proof levels
        cov.setdefault("evaluations", max(1, n_obl))
        cov.setdefault("distinct_nontrivial", max(2, len({(u["unit"], n) for u in per_unit for n in u["obligations"]})))
        cov.setdefault("rule", "one evaluation = one (obligation, path) query sent to the solver; distinct = distinct (unit, obligation name)")
    ev = dict(property_id=pid, tier=tier, seed=seed, level=level, coverage=cov, assumptions=assumptions,
              wall_s=round(wall, 2), violations=len(vio_lines))
    if not a.no_evidence and only is None:
        os.makedirs(os.path.join(VERIF, "evidence"), exist_ok=True)
        json.dump(ev, open(os.path.join(VERIF, "evidence", f"{pid}.json"), "w"), indent=1, default=str)

    print(f"[{pid}] tier={tier} units={len(results)} obligations={n_obl} discharged={n_dis} bounded={n_bnd_ok}/{n_bnd} "
          f"known={len(known_hits)} violations={len(vio_lines)} undecided={len(undecided)} crashes={len(crashes)} wall={wall:.1f}s")
    if a.verbose or rc:
        for u in per_unit:
            print(f"  unit {u['unit']}: {u['status']} paths={u['paths']} {u['secs']}s {u.get('error') or ''}")
            for n, e in u["obligations"].items():
                if a.verbose or e["proved"] != e["paths"]:
                    print(f"      {n}: {e}")
    for (u, m) in undecided[:20]:
        print(f"UNDECIDED {u}: {m}")
    for (u, m, tb) in crashes[:10]:
        print(f"CHECKER-ERROR {u}: {m}\n{tb}")
    for l in vio_lines:
        print(l)
    return rc


if __name__ == "__main__":
    sys.exit(main())
