"""pyvc.arr -- symbolic arrays (families) and sparse matrices.  (filled in below)"""


class SymArray:
    pass
