"""pyvc.arr -- symbolic arrays ("families"), concatenations, lists with symbolic length and sparse COO matrices.

A SymArray is a shape of symbolic ints plus an element function idx -> symbolic scalar; it has no bound on its
size.  Elementwise operations compose element functions; gathers compose with the index array; boolean masks
become *guards* (order-free selections that may only be consumed by concatenate / len / sparse constructors).
"""
import z3

from . import sym
from .sym import SB, SC, SI, SR, Unsupported, Undecided, FreshInt, FreshReal, check, ite, eq

I = z3.IntSort()
R = z3.RealSort()
B = z3.BoolSort()


def _si(x):
    return SI.lift(x)


def scalar_kind(v):
    if isinstance(v, SC) or isinstance(v, complex):
        return "c"
    if isinstance(v, SB) or isinstance(v, bool):
        return "b"
    if isinstance(v, SI) or isinstance(v, int):
        return "i"
    return "r"


class SymArray:
    """shape: tuple of SI; fn(*idx: SI) -> scalar; guard(k) -> z3 Bool or None (masked 1-D selection)"""
    __array_priority__ = 1000

    def __init__(self, shape, fn, guard=None, kind=None, name=None):
        self.shape = tuple(_si(x) for x in shape)
        self._fn = fn
        self.guard = guard
        self.kind = kind
        self.name = name
        self._memo = {}

    # ---- construction helpers
    @staticmethod
    def input(name, shape, kind="r"):
        """an arbitrary input array: uninterpreted function(s) of the index"""
        nd = len(shape)
        if kind == "c":
            fr = z3.Function(name + "_re", *([I] * nd), R)
            fi = z3.Function(name + "_im", *([I] * nd), R)
            fn = lambda *i: SC(SR(fr(*[x.e for x in i])), SR(fi(*[x.e for x in i])))
        elif kind == "i":
            f = z3.Function(name, *([I] * nd), I)
            fn = lambda *i: SI(f(*[x.e for x in i]))
        elif kind == "b":
            f = z3.Function(name, *([I] * nd), B)
            fn = lambda *i: SB(f(*[x.e for x in i]))
        else:
            f = z3.Function(name, *([I] * nd), R)
            fn = lambda *i: SR(f(*[x.e for x in i]))
        return SymArray(shape, fn, kind=kind, name=name)

    @staticmethod
    def fresh(base, shape, kind="r"):
        return SymArray.input(sym.fresh_name(base), shape, kind)

    @staticmethod
    def const(shape, v):
        return SymArray(shape, lambda *i: v, kind=scalar_kind(v))

    ndim = property(lambda s: len(s.shape))
    size = property(lambda s: _prod_shape(s.shape))

    @property
    def dtype(self):
        import numpy as _n
        return {"c": _n.dtype(complex), "i": _n.dtype(_n.int64), "b": _n.dtype(bool)}.get(self.kind or "r", _n.dtype(float))

    def at(self, *idx):
        idx = tuple(_si(i) for i in idx)
        if len(idx) != self.ndim:
            raise Unsupported(f"index arity {len(idx)} for {self.ndim}-d array")
        rd = sym.ctx().ghost.get("reads")
        if rd is not None:
            rd.append(self.__dict__.get("_owner_id") or id(self))      # a snapshot's reads count as reads of the array it was taken from
        key = tuple(i.e.get_id() for i in idx)
        if key not in self._memo:
            self._memo[key] = self._fn(*idx)
        return self._memo[key]

    def __len__(self):
        raise TypeError("len() of a symbolic array: the len model must be bound (T4)")

    def _frozen(self):
        """immutable snapshot of the CURRENT contents: results of arithmetic / fancy indexing are copies in numpy, so they must not
        see later in-place updates of their operands (basic slices are views and keep reading the live object)"""
        sn = self.__dict__.get("_snap")
        if sn is None:
            sn = SymArray(self.shape, self._fn, self.guard, self.kind)
            sn._memo = self._memo
            sn.__dict__["_owner_id"] = self.__dict__.get("_owner_id") or id(self)
            sn.__dict__["_snap"] = sn
            self.__dict__["_snap"] = sn
        return sn

    def _touch(self):
        self.__dict__["_snap"] = None

    def map(self, f, kind=None):
        s_ = self._frozen()
        return SymArray(self.shape, lambda *i: f(s_.at(*i)), self.guard, kind)

    def opaque(self, name):
        """T6 cut at array level: a fresh input array; its definition is revealed per index on demand"""
        probe = self.at(*[SI(0)] * self.ndim)
        k = scalar_kind(probe)
        new = SymArray.fresh(name, self.shape, k)
        new.guard = self.guard
        new.defn = self
        sym.ctx().ghost.setdefault("opaque_arr", {})[name] = new
        return new

    def reveal_at(self, *idx):
        return eq(self.at(*idx), self.defn.at(*idx))

    # ---- elementwise arithmetic
    def _ew(self, o, f):
        if isinstance(o, Cat):
            return NotImplemented
        if not isinstance(o, SymArray) and getattr(o, "__array_priority__", 0) > self.__array_priority__:
            return NotImplemented      # numpy defers to the operand of higher priority (pint quantities): its reflected operator runs
        self_live = self
        self = self._frozen()
        if isinstance(o, _np_mod.ndarray) and o.ndim in (1, 2) and o.size <= 8:
            o = small_concrete(o)
        if isinstance(o, SymArray):
            o = o._frozen()
            if self.ndim == o.ndim == 2 and o.shape[0].concrete() == 1 and self.shape[0].concrete() != 1:
                _shape_ob(self.shape[1:], o.shape[1:])
                return SymArray(self.shape, lambda i, k: f(self.at(i, k), o.at(SI(0), k)), self.guard)      # (n,m) op (1,m): numpy row broadcasting
            if self.ndim == o.ndim == 2 and o.shape[1].concrete() == 1 and self.shape[1].concrete() != 1:
                return SymArray(self.shape, lambda i, k: f(self.at(i, k), o.at(i, SI(0))), self.guard)      # (n,m) op (n,1)
            if self.ndim == o.ndim and any((x.concrete() == 1) != (y.concrete() == 1) for x, y in zip(self.shape, o.shape)) \
                    and self.guard is None and o.guard is None:
                return _broadcast(self, o, f)
            if self.ndim == o.ndim:
                _shape_ob(self.shape, o.shape)
                g = _and_guard(self.guard, o.guard)
                return SymArray(self.shape, lambda *i: f(self.at(*i), o.at(*i)), g)
            if self.ndim == 2 and o.ndim == 1:      # (n,2) op (2,)  numpy broadcasting on the last axis
                return SymArray(self.shape, lambda i, k: f(self.at(i, k), o.at(k)), self.guard)
            if self.ndim == 1 and o.ndim == 2:
                return SymArray(o.shape, lambda i, k: f(self.at(k), o.at(i, k)), o.guard)
            return _broadcast(self, o, f)
        if isinstance(o, (list, tuple)):
            raise Unsupported("array op python sequence")
        return SymArray(self.shape, lambda *i: f(self.at(*i), o), self.guard)

    def __add__(self, o): return self._ew(o, lambda a, b: a + b)
    def __radd__(self, o): return self._ew(o, lambda a, b: b + a)
    def __sub__(self, o): return self._ew(o, lambda a, b: a - b)
    def __rsub__(self, o): return self._ew(o, lambda a, b: b - a)
    def __mul__(self, o): return self._ew(o, lambda a, b: a * b)
    def __rmul__(self, o): return self._ew(o, lambda a, b: b * a)
    def __truediv__(self, o): return self._ew(o, lambda a, b: a / b)
    def __rtruediv__(self, o): return self._ew(o, lambda a, b: b / a)
    def __pow__(self, n): return self.map(lambda v: v ** n)
    def __neg__(self): return self.map(lambda v: -v)

    def _inplace(self, o, f):
        """numpy in-place operators mutate the array object (every alias sees the change): logged as a whole-array write"""
        new = self._ew(o, f)
        old = SymArray(self.shape, self._fn, self.guard)
        old._memo = self._memo
        # `new` was built from self.at: re-point it at the snapshot so that the update is not self-referential
        snap_self = old
        res = snap_self._ew(o, f)
        self._fn, self._memo = res._fn, {}
        self._touch()
        from .autoloops import Region
        sym.ctx().ghost.setdefault("writes", []).append((self, Region(None, self.ndim, {}, {}, SR(0), [])))
        return self

    def __iadd__(self, o): return self._inplace(o, lambda a, b: a + b)
    def __isub__(self, o): return self._inplace(o, lambda a, b: a - b)
    def __imul__(self, o): return self._inplace(o, lambda a, b: a * b)
    def __itruediv__(self, o): return self._inplace(o, lambda a, b: a / b)
    def __lt__(self, o): return self._ew(o, lambda a, b: a < b)
    def __le__(self, o): return self._ew(o, lambda a, b: a <= b)
    def __gt__(self, o): return self._ew(o, lambda a, b: a > b)
    def __ge__(self, o): return self._ew(o, lambda a, b: a >= b)
    def __invert__(self): return self.map(lambda v: ~v)
    def __and__(self, o): return self._ew(o, lambda a, b: a & b)
    def __or__(self, o): return self._ew(o, lambda a, b: a | b)
    def conjugate(self): return self.map(lambda v: v.conjugate())
    conj = conjugate
    real = property(lambda s: s.map(lambda v: v.real))
    imag = property(lambda s: s.map(lambda v: v.imag))

    def __eq__(self, o):
        return self._ew(o, lambda a, b: SB(eq(a, b)))

    def __ne__(self, o):
        return self._ew(o, lambda a, b: SB(z3.Not(eq(a, b))))

    __hash__ = object.__hash__

    def copy(self):
        return SymArray(self.shape, self._fn, self.guard, self.kind)

    def squeeze(self):
        """numpy squeeze: drops axes of length 1 (only decidable when every axis length is concrete or provably > 1)"""
        keep = []
        for d, n in enumerate(self.shape):
            v = n.concrete()
            if v == 1:
                continue
            if v is None and not sym.quick_prove(sym.ctx().hyps(), n.e != 1, 500):
                if getattr(sym.ctx(), "squeeze_forks", False):
                    # contracts about array ranks (writer layout): the path forks on "this axis has length one" - numpy drops it exactly then
                    if bool(SB(n.e == 1)):
                        continue
                else:
                    # a symbolic axis that may be 1: numpy would drop it only in that case; keep it and say so
                    sym.ctx().ghost.setdefault("squeeze_assumes_not_one", []).append(n)
            keep.append(d)
        if len(keep) == self.ndim:
            return self
        src = self

        def fn(*idx):
            full = [SI(0)] * src.ndim
            for j, d in enumerate(keep):
                full[d] = idx[j]
            return src.at(*full)
        return SymArray(tuple(self.shape[d] for d in keep), fn, self.guard, self.kind)

    def astype(self, t):
        return self

    def get(self):
        return self

    # ---- indexing
    def __getitem__(self, key):
        if isinstance(key, tuple):
            if len(key) == 2 and self.ndim == 1 and isinstance(key[0], slice) and key[0] == slice(None) and key[1] is None:
                return SymArray((self.shape[0], SI(1)), lambda i, k: self.at(i), self.guard, self.kind)      # a[:, np.newaxis]
            if len(key) == 2 and self.ndim == 2:
                a, b = key
                if isinstance(a, slice) and a == slice(None) and isinstance(b, (int, SI)):
                    return SymArray(self.shape[:1], lambda k: self.at(k, _si(b)), self.guard)
                if isinstance(a, (int, SI)) and isinstance(b, (int, SI)):
                    _idx_ob(a, self.shape[0])
                    _idx_ob(b, self.shape[1])
                    return self.at(_si(a), _si(b))
                if isinstance(a, (int, SI)) and isinstance(b, slice) and b == slice(None):
                    return SymArray(self.shape[1:], lambda k: self.at(_si(a), k))
                if isinstance(a, slice) and a == slice(None) and isinstance(b, slice) and b.start is None and b.step is None:
                    stop = _si(b.stop)
                    return SymArray((self.shape[0], stop), lambda i, k: self.at(i, k), self.guard)
            return _general_index(self, key)
        if isinstance(key, Cat):
            raise Unsupported("index by a concatenation")
        if isinstance(key, SymArray):
            probe = key.at(*[SI(0)] * key.ndim)
            if isinstance(probe, SB):   # boolean mask -> guarded selection
                if self.ndim != 1 or key.ndim != 1:
                    raise Unsupported("mask on n-d array")
                _shape_ob(self.shape, key.shape)
                return SymArray(self.shape, self._fn_at(), _and_guard(self.guard, lambda k: key.at(k).e), self.kind)
            # gather along axis 0 (obligation: indices in range)
            if self.ndim == 1:
                fz, kz = self._frozen(), key._frozen()
                return SymArray(key.shape, lambda *i: fz.at(kz.at(*i)), key.guard, self.kind)
            fz, kz = self._frozen(), key._frozen()
            return SymArray(key.shape + self.shape[1:], lambda *i: fz.at(kz.at(*i[:key.ndim]), *i[key.ndim:]), key.guard, self.kind)
        if isinstance(key, slice):
            if self.ndim < 1 or key.step is not None:
                raise Unsupported("slice")
            start = _si(key.start) if key.start is not None else SI(0)
            stop = _si(key.stop) if key.stop is not None else self.shape[0]
            n = stop - start
            rest = self.shape[1:]
            return SymArray((n,) + rest, lambda k, *r: self.at(k + start, *r), self.guard, self.kind)
        if isinstance(key, (int, SI)):
            _idx_ob(key, self.shape[0])
            if self.ndim == 1:
                return self.at(_si(key))
            return SymArray(self.shape[1:], lambda *r: self.at(_si(key), *r))
        raise Unsupported(f"index {key!r}")

    def _fn_at(self):
        return lambda *i: self.at(*i)

    def __setitem__(self, key, val):
        """in-place store: the element function becomes an if-then-else (no quantified axiom)"""
        old = SymArray(self.shape, self._fn, self.guard)
        old._memo = self._memo
        writes = sym.ctx().ghost.setdefault("writes", [])
        if isinstance(key, tuple) and len(key) == 2 and all(isinstance(k, (int, SI)) for k in key) and self.ndim == 2:
            a, b = _si(key[0]), _si(key[1])
            _idx_ob(a, self.shape[0])
            _idx_ob(b, self.shape[1])
            v = val
            self._fn = lambda i, k: ite(z3.And(i.e == a.e, k.e == b.e), v, old.at(i, k))
            from .autoloops import Region
            writes.append((self, Region(None, 2, {0: a.e, 1: b.e}, {}, v, [])))
        elif isinstance(key, (int, SI)) and self.ndim == 1:
            a = _si(key)
            _idx_ob(a, self.shape[0])
            v = val
            self._fn = lambda i: ite(i.e == a.e, v, old.at(i))
            from .autoloops import Region
            writes.append((self, Region(None, 1, {0: a.e}, {}, v, [])))
        elif isinstance(key, tuple) and len(key) == 2 and isinstance(key[0], slice) and key[0] == slice(None) and isinstance(key[1], (int, SI)) and self.ndim == 2:
            b = _si(key[1])
            _idx_ob(b, self.shape[1])
            v = val
            if isinstance(v, SymArray):
                v = v._frozen()
                if v.ndim == 1:
                    self._fn = lambda i, k: ite(k.e == b.e, v.at(i), old.at(i, k))
                else:
                    raise Unsupported("column store of n-d value")
            else:
                self._fn = lambda i, k: ite(k.e == b.e, v, old.at(i, k))
            writes.append((self, (None, b)))
        elif (isinstance(key, tuple) and len(key) == 2 and self.ndim == 2 and isinstance(key[0], slice) and key[0] == slice(None)
              and isinstance(key[1], slice) and key[1].step is None and not isinstance(val, SymArray)):
            lo = _si(key[1].start) if key[1].start is not None else SI(0)
            hi = _si(key[1].stop) if key[1].stop is not None else self.shape[1]
            v = val
            self._fn = lambda i, k: ite(z3.And(k.e >= lo.e, k.e < hi.e), v, old.at(i, k))
            from .autoloops import Region
            writes.append((self, Region(None, 2, {}, {1: (lo.e, hi.e)}, v, [])))
        elif isinstance(key, (SymArray, Cat)) and self.ndim == 1:       # a[idx_array] = scalar
            if isinstance(val, SymArray):
                raise Unsupported("scatter of an array")
            v = val
            kk = key
            # membership: exists j: kk[j] == i  -- expressed through the index array's membership predicate
            mem = getattr(kk, "member", None)
            if mem is None:
                raise Unsupported("scatter through an index array without a membership predicate")
            self._fn = lambda i: ite(mem(i), v, old.at(i))
            writes.append((self, (kk,)))
        else:
            raise Unsupported(f"store {key!r}")
        self._memo = {}
        self._touch()

    # ---- reductions (ghost functions with instantiated axioms)
    def max(self):
        return reduce_max(self)

    def any(self):
        return reduce_any(self)

    def all(self):
        return ~reduce_any(~self)

    def sum(self):
        raise Unsupported("sum over a symbolic array (use a ghost-sum loop contract)")

    def flush(self):
        pass


def _broadcast(a, o, f):
    """general numpy broadcasting of two unguarded arrays: shapes aligned from the right; an axis of CONCRETE length 1 (or a missing axis) is
    repeated, every other pair of axis lengths must be equal (shape obligation).  A symbolic axis is never treated as length 1 (stricter than
    numpy: a symbolic length that happened to be 1 would be broadcast by numpy, here it is a shape obligation)."""
    if a.guard is not None or o.guard is not None:
        raise Unsupported("broadcast of masked selections")
    nd = max(a.ndim, o.ndim)
    sa = (None,) * (nd - a.ndim) + tuple(a.shape)
    so = (None,) * (nd - o.ndim) + tuple(o.shape)
    shape, ma, mo = [], [], []
    for x, y in zip(sa, so):
        x1 = x is None or x.concrete() == 1
        y1 = y is None or y.concrete() == 1
        if x1 and not y1:
            shape.append(y), ma.append(None if x is None else 0), mo.append("k")
        elif y1 and not x1:
            shape.append(x), ma.append("k"), mo.append(None if y is None else 0)
        elif x1 and y1:
            shape.append(x if x is not None else (y if y is not None else SI(1)))
            ma.append(None if x is None else 0), mo.append(None if y is None else 0)
        else:
            _shape_ob((x,), (y,))
            shape.append(x), ma.append("k"), mo.append("k")

    def pick(m, idx):
        return [idx[d] if w == "k" else SI(0) for d, w in enumerate(m) if w is not None]
    return SymArray(tuple(shape), lambda *i: f(a.at(*pick(ma, i)), o.at(*pick(mo, i))))


def _general_index(a, key):
    """basic indexing with a tuple of full slices, slices [:stop] / [start:], integers and np.newaxis (views in numpy: reads stay live)"""
    out_shape, plan = [], []        # plan per source axis: ("k", out position, offset) | ("c", index)
    src = 0
    for it in key:
        if it is None:
            out_shape.append(SI(1))
            continue
        if src >= a.ndim:
            raise Unsupported(f"index {key!r}")
        if isinstance(it, slice):
            if it.step is not None:
                raise Unsupported("slice step")
            n = a.shape[src]
            start = _si(it.start) if it.start is not None else SI(0)
            stop = _si(it.stop) if it.stop is not None else n
            if (start.concrete() is not None and start.concrete() < 0) or (stop.concrete() is not None and stop.concrete() < 0):
                raise Unsupported("negative slice bound")
            plan.append(("k", len(out_shape), start))
            out_shape.append(stop - start)
        elif isinstance(it, (int, SI)):
            _idx_ob(it, a.shape[src])
            plan.append(("c", _si(it)))
        else:
            raise Unsupported(f"index {key!r}")
        src += 1
    while src < a.ndim:
        plan.append(("k", len(out_shape), SI(0)))
        out_shape.append(a.shape[src])
        src += 1

    def fn(*idx):
        full = []
        for p_ in plan:
            full.append(idx[p_[1]] + p_[2] if p_[0] == "k" else p_[1])
        return a.at(*full)
    return SymArray(tuple(out_shape), fn, a.guard if a.ndim == 1 and len(out_shape) == 1 else None, a.kind)


def _prod_shape(shape):
    r = SI(1)
    for s in shape:
        r = r * s
    return r


def _and_guard(g1, g2):
    if g1 is None:
        return g2
    if g2 is None:
        return g1
    return lambda k: z3.And(g1(k), g2(k))


def _shape_ob(s1, s2):
    c = sym.ctx()
    if not c.safety:
        return
    for a, b in zip(s1, s2):
        if a.e.eq(b.e):
            continue
        if z3.is_true(z3.simplify(a.e == b.e)):
            continue
        check(sym._site("shape_match"), a.e == b.e, kind="safety")


def _idx_ob(i, n):
    c = sym.ctx()
    if not c.safety:
        return
    i = _si(i)
    g = z3.simplify(z3.And(i.e >= 0, i.e < n.e))
    if z3.is_true(g):
        return
    check(sym._site("index_in_range"), g, kind="safety")


def reduce_any(b):
    """any(b) over a symbolic array: fresh boolean `some`;  some => b(witness) for a Skolem witness in range;
    instances  b(k) => some  are added for every index constant registered in ctx.ghost['generic']"""
    c = sym.ctx()
    probe = b.at(*[SI(0)] * b.ndim)
    if not isinstance(probe, SB):      # numpy truthiness: element != 0
        b = b.map(lambda v: SB(z3.Not(eq(v, 0))), kind="b")
    some = sym.FreshBool("any")
    w = [SI(FreshInt("wit")) for _ in range(b.ndim)]
    rng = z3.And(*[z3.And(x.e >= 0, x.e < n.e) for x, n in zip(w, b.shape)])
    c.ax.append(z3.Implies(some, z3.And(rng, b.at(*w).e)))
    for g in c.ghost.get("generic", []):
        if len(g) == b.ndim:
            rg = z3.And(*[z3.And(x.e >= 0, x.e < n.e) for x, n in zip(g, b.shape)])
            c.ax.append(z3.Implies(z3.And(rg, b.at(*g).e), some))
    c.ghost.setdefault("any", []).append((some, b))
    # `not some` is the universal fact  forall idx in range: not b(idx); instantiated later at generic indices
    c.ghost.setdefault("univ", []).append((b, lambda idx, b=b, some=some: z3.Implies(
        z3.And(*[z3.And(x.e >= 0, x.e < n.e) for x, n in zip(idx, b.shape)]), z3.Implies(b.at(*idx).e, some))))
    return SB(some)


def reduce_max(a):
    """max over a symbolic (non-empty) array: fresh m with  m == a(witness)  and  a(k) <= m  at generic indices"""
    c = sym.ctx()
    m = SR(FreshReal("max"))
    w = [SI(FreshInt("argmax")) for _ in range(a.ndim)]
    rng = z3.And(*[z3.And(x.e >= 0, x.e < n.e) for x, n in zip(w, a.shape)])
    c.ax.append(z3.And(rng, m.e == SR.lift(a.at(*w)).e))
    for g in c.ghost.get("generic", []):
        if len(g) == a.ndim:
            rg = z3.And(*[z3.And(x.e >= 0, x.e < n.e) for x, n in zip(g, a.shape)])
            c.ax.append(z3.Implies(rg, SR.lift(a.at(*g)).e <= m.e))
    c.ghost.setdefault("max", []).append((m, a, w))
    return m


def univ_instances(idxs):
    """instances of the universal facts recorded by reductions (any/max) at the given 1-d index terms; for arrays
    whose trailing dimensions are small constants every trailing position is instantiated"""
    c = sym.ctx()
    out = []
    import itertools as _it
    for a, inst in c.ghost.get("univ", []):
        tails = []
        ok = True
        for n in a.shape[1:]:
            v = n.concrete()
            if v is None or v > 4:
                ok = False
                break
            tails.append(range(v))
        if not ok:
            continue
        for k in idxs:
            for tl in _it.product(*tails):
                out.append(inst((k,) + tuple(SI(t) for t in tl)))
    return out


def generic_index(name, *bounds):
    """a fresh index constant within bounds, registered so that reductions instantiate at it"""
    c = sym.ctx()
    idx = tuple(SI(FreshInt(name)) for _ in bounds)
    for x, n in zip(idx, bounds):
        c.pc.append(z3.And(x.e >= 0, x.e < _si(n).e))
    c.ghost.setdefault("generic", []).append(idx)
    return idx if len(idx) > 1 else idx[0]


# ----------------------------------------------------------------------------- concatenation


class Cat:
    """1-D concatenation of 1-D SymArray blocks, consumed block-wise (order inside a block is the block's)"""

    def __init__(self, blocks):
        self.blocks = list(blocks)
    ndim = 1

    @property
    def shape(self):
        return (self.total(),)

    def total(self):
        t = SI(0)
        for b in self.blocks:
            t = t + b.shape[0]
        return t

    def _zip(self, o, f):
        if isinstance(o, Cat):
            if len(o.blocks) != len(self.blocks):
                raise Unsupported("concatenations with different block structure")
            return Cat([f(a, b) for a, b in zip(self.blocks, o.blocks)])
        if isinstance(o, SymArray):
            raise Unsupported("concatenation op plain array")
        return Cat([f(a, o) for a in self.blocks])

    def __getitem__(self, key):
        if isinstance(key, Cat):     # boolean mask with the same block structure
            return self._zip(key, lambda b, m: b[m])
        if isinstance(key, slice):
            if key.start is not None or key.step is not None:
                raise Unsupported("slice of concatenation")
            stop = _si(key.stop)
            tot = SI(0)
            out = []
            for b in self.blocks:
                tot = tot + b.shape[0]
                out.append(b)
                if sym.quick_prove(sym.ctx().hyps(), tot.e == stop.e, 3000):
                    return Cat(out)
            raise Undecided("prefix slice of a concatenation does not align with its blocks")
        raise Unsupported(f"index of concatenation {key!r}")

    @property
    def member(self):
        ms = [getattr(b, "member", None) for b in self.blocks]
        if any(m is None for m in ms):
            return None
        return lambda v: z3.Or(*[m(v) for m in ms]) if ms else z3.BoolVal(False)

    def __mul__(self, o): return self._zip(o, lambda a, b: a * b)
    __rmul__ = __mul__
    def __truediv__(self, o): return self._zip(o, lambda a, b: a / b)
    def __add__(self, o): return self._zip(o, lambda a, b: a + b)
    def __sub__(self, o): return self._zip(o, lambda a, b: a - b)
    def __neg__(self): return Cat([-b for b in self.blocks])
    def conjugate(self): return Cat([b.conjugate() for b in self.blocks])


def blocks_of(x):
    return x.blocks if isinstance(x, Cat) else [x]


_KORD = {"b": 0, "i": 1, "r": 2, "c": 3}


def kind_of(x):
    """numpy dtype class of a symbolic array/scalar (bool < int < float < complex), inferred from the value types"""
    if isinstance(x, Cat):
        ks = [kind_of(b) for b in x.blocks]
        return max(ks, key=lambda k: _KORD[k]) if ks else "r"
    if isinstance(x, SymArray):
        c = sym.ctx()
        saved = c.safety
        c.safety = False
        try:
            v = x.at(*[SI(FreshInt("probe")) for _ in range(x.ndim)])
        finally:
            c.safety = saved
        return scalar_kind(v)
    return scalar_kind(x)


# ----------------------------------------------------------------------------- python lists with symbolic length


class SymList:
    """a Python list whose length is symbolic (history lists such as d_psi_sq_vals)"""

    def __init__(self, length, fn, name="list"):
        self.length = _si(length)
        self.fn = fn
        self.name = name
        self.log = []          # ghost: operations applied (append/slice) for contracts

    @staticmethod
    def input(name):
        n = SI(z3.Int(name + "_len"))
        f = z3.Function(name, I, R)
        sym.assume(n >= 0)
        return SymList(n, lambda k: SR(f(k.e)), name)

    def append(self, v):
        old_fn, old_n = self.fn, self.length
        self.fn = lambda k: ite(k.e == old_n.e, v, old_fn(k))
        self.length = old_n + 1
        self.log.append(("append", v))

    def __getitem__(self, key):
        if isinstance(key, slice):
            if key.step is not None:
                raise Unsupported("list slice step")
            n = self.length

            def norm(x, default):
                if x is None:
                    return default
                x = _si(x)
                # python semantics: negative -> n + x, clipped to [0, n]
                y = ite(x.e < 0, n + x, x)
                y = ite(y.e < 0, SI(0), y)
                return ite(y.e > n.e, n, y)
            a = norm(key.start, SI(0))
            b = norm(key.stop, n)
            view = SymListView(self, a, b)
            self.log.append(("slice", a, b))
            return view
        key = _si(key)
        k = ite(key.e < 0, self.length + key, key)
        check(sym._site("list_index_in_range"), z3.And(k.e >= 0, k.e < self.length.e), kind="safety")
        return self.fn(k)

    def __len__(self):
        raise TypeError("len() of a symbolic list: the len model must be bound (T4)")


class SymListView:
    def __init__(self, base, a, b):
        self.base, self.a, self.b = base, a, b
        self.fn = base.fn          # snapshot of the element function


_WSUM = z3.Function("ListSum", I, I, I, R)     # ghost: sum of list #id over [a, b)
_LIST_IDS = {}


def list_sum(view):
    """ghost sum over a list view; definitional unfoldings are instantiated by contracts that need them"""
    lid = _LIST_IDS.setdefault(id(view.base), len(_LIST_IDS))
    return SR(_WSUM(z3.IntVal(lid), view.a.e, view.b.e))


def vlen(x):
    if isinstance(x, Cat):
        return x.total()
    if isinstance(x, SymArray):
        if x.ndim == 0:
            raise TypeError("len() of unsized object")
        return x.shape[0]
    if isinstance(x, SymList):
        return x.length
    if isinstance(x, SymListView):
        n = x.b - x.a
        return ite(n.e < 0, SI(0), n)
    return len(x)


# ----------------------------------------------------------------------------- sparse matrices


import numpy as _np_mod  # noqa: E402


def small_concrete(a):
    """a small concrete numpy array (possibly of symbolic scalars, e.g. np.array([[dx, dy]])) as a symbolic array: element selection by
    nested if-then-else over the (few) concrete positions"""
    a = _np_mod.asarray(a, dtype=object)
    shape = tuple(SI(int(n)) for n in a.shape)
    flat = [(idx, v) for idx, v in _np_mod.ndenumerate(a)]

    def fn(*ix):
        out = flat[-1][1]
        out = out if isinstance(out, (SR, SC, SI)) else SR.lift(out)
        for idx, v in reversed(flat[:-1]):
            cond = z3.And(*[i.e == int(j) for i, j in zip(ix, idx)])
            out = ite(cond, v if isinstance(v, (SR, SC, SI)) else SR.lift(v), out)
        return out
    return SymArray(shape, fn)


class SparseBuf:
    def __init__(self, owner, role):
        self.owner, self.role, self.fmt = owner, role, owner.fmt


class COO:
    """sparse matrix = list of blocks (n, guard(k)|None, row(k), col(k), val(k));
    M[r,c] = sum over blocks and k<n with guard(k), row(k)=r, col(k)=c of val(k)"""

    mesh_axioms = None      # set by the check: valid_mesh instances for index terms

    def __init__(self, blocks, shape, fmt="csr"):
        self.blocks = list(blocks)
        self.shape = shape
        self.fmt = fmt
        self.history = []
        self.dtype_kind = "r"

    def copy(self):
        return COO(self.blocks, self.shape, self.fmt)

    def _as(self, fmt):
        m = COO(self.blocks, self.shape, fmt)
        m.dtype_kind = self.dtype_kind
        return m

    def transposed(self, fmt):
        m = COO([(n, g, c, r, v) for (n, g, r, c, v) in self.blocks], (self.shape[1], self.shape[0]), fmt)
        m.dtype_kind = self.dtype_kind
        return m

    # raw compressed buffers: only their identity (owner, role, storage format) is modelled
    data = property(lambda self: SparseBuf(self, "data"))
    indices = property(lambda self: SparseBuf(self, "indices"))
    indptr = property(lambda self: SparseBuf(self, "indptr"))

    def tocsr(self, copy=False): return self if self.fmt == "csr" else self._as("csr")
    def tocsc(self, copy=False): return self if self.fmt == "csc" else self._as("csc")
    def tolil(self): return self
    def asformat(self, f): return self

    def __matmul__(self, v):
        """matrix-vector product for the two shapes the block representation can express without a symbolic sum:
        (a) v identically zero -> zero vector (linearity); (b) every block has row(k) == k and one entry per row
        (edge-indexed operators such as the gradient): (M v)[e] = sum over blocks of val_b(e) * v[col_b(e)]."""
        if not isinstance(v, SymArray) or v.ndim != 1:
            raise Unsupported("sparse @ non-vector")
        c = sym.ctx()
        g = SI(FreshInt("g"))
        if sym.quick_prove(c.hyps() + [g.e >= 0, g.e < v.shape[0].e], eq(v.at(g), 0), 2000):
            return SymArray((self.shape[0],), lambda k: SR(0))
        k = SI(FreshInt("k"))
        ax = type(self).mesh_axioms([k]) if type(self).mesh_axioms else []
        for (n, ge, re_, ce, ve) in self.blocks:
            if ge is not None:
                raise Unsupported("matvec with guarded blocks")
            if not sym.quick_prove(c.hyps() + ax + [k.e >= 0, k.e < n.e], z3.And(re_(k).e == k.e, n.e == SI.lift(self.shape[0]).e), 2000):
                raise Unsupported("matvec: rows are not the block index (needs a MatVec contract / SymVec)")
        blocks = list(self.blocks)

        def fn(e):
            tot = None
            for (n, ge, re_, ce, ve) in blocks:
                t = ve(e) * v.at(ce(e))
                tot = t if tot is None else tot + t
            return tot
        return SymArray((SI.lift(self.shape[0]),), fn)

    def setmany(self, rows, cols, vals, mesh_axioms=None):
        """scipy `M[rows, cols] = vals` (assumed contract of _set_many: positions pairwise distinct, every other entry
        unchanged).  Obligations per written block: identical masks on rows/cols/values (shape conformance), the written
        positions are exactly those of one assembled block, and that block is the sole contributor to each position."""
        rb, cb, vb = blocks_of(rows), blocks_of(cols), blocks_of(vals)
        # numpy/scipy silently drop the imaginary part when complex values are stored into a real matrix
        check("setmany.no_downcast_of_assigned_values", z3.BoolVal(_KORD[kind_of(vals)] <= _KORD[self.dtype_kind]), kind="safety",
              note=f"matrix dtype {self.dtype_kind}, assigned {kind_of(vals)}")
        if not (len(rb) == len(cb) == len(vb)):
            check("setmany.block_structure", False, kind="safety")
            raise Undecided("rows/cols/values have different block structure")
        new = list(self.blocks)
        c = sym.ctx()
        for bi_w, (r, cc, v) in enumerate(zip(rb, cb, vb)):
            k = SI(FreshInt("k"))
            k2 = SI(FreshInt("k2"))
            ax = (mesh_axioms([k, k2]) if mesh_axioms else [])
            g = r.guard(k) if r.guard else z3.BoolVal(True)
            inr = [k.e >= 0, k.e < r.shape[0].e]
            for nm, other in (("cols", cc), ("values", v)):
                go = other.guard(k) if other.guard else z3.BoolVal(True)
                check(f"setmany.mask_conformance[{bi_w}:{nm}]", z3.And(g == go, other.shape[0].e == r.shape[0].e),
                      kind="safety", extra=ax + inr)
            target = None
            for bi, (n, ge, re_, ce, ve) in enumerate(new):
                goal = z3.And(n.e == r.shape[0].e, (ge(k) if ge else z3.BoolVal(True)), re_(k).e == r.at(k).e, ce(k).e == cc.at(k).e)
                if sym.quick_prove(c.hyps() + ax + inr + [g], goal, 3000):
                    target = bi
                    break
            check(f"setmany.positions_align_with_assembled_block[{bi_w}]", z3.BoolVal(target is not None), kind="safety")
            if target is None:
                raise sym.PathEnd("setmany: cannot align written positions")
            for bi, (n, ge, re_, ce, ve) in enumerate(new):
                clash = z3.And(k2.e >= 0, k2.e < n.e, (ge(k2) if ge else z3.BoolVal(True)), re_(k2).e == r.at(k).e, ce(k2).e == cc.at(k).e)
                if bi == target:
                    clash = z3.And(clash, k2.e != k.e)
                check(f"setmany.sole_contributor[{bi_w}:{bi}]", z3.Not(clash), kind="safety", extra=ax + inr + [g])
            n, ge, re_, ce, ve = new[target]
            gw = r.guard
            if gw is None:
                new[target] = (n, ge, re_, ce, (lambda kk, v=v: v.at(kk)))
            else:
                new[target] = (n, ge, re_, ce, (lambda kk, ve=ve, v=v, gw=gw: ite(gw(kk), v.at(kk), ve(kk))))
            self.history.append(target)
        self.blocks = new

    def __setitem__(self, key, x):
        self.setmany(key[0], key[1], x, mesh_axioms=type(self).mesh_axioms)


def coo_from_triple(vals, rows, cols, shape, fmt):
    vb, rb, cb = blocks_of(vals), blocks_of(rows), blocks_of(cols)
    if not (len(vb) == len(rb) == len(cb)):
        check("sparse_ctor.block_structure", False, kind="safety")
        raise Undecided("sparse constructor: values/rows/cols have different block structure")
    blocks = []
    for bi, (v, r, c) in enumerate(zip(vb, rb, cb)):
        k = SI(FreshInt("k"))
        g = r.guard(k) if r.guard else z3.BoolVal(True)
        for nm, other in (("cols", c), ("values", v)):
            go = other.guard(k) if other.guard else z3.BoolVal(True)
            triv = (r.guard is None and other.guard is None and other.shape[0].e.eq(r.shape[0].e))
            if not triv:
                check(f"sparse_ctor.mask_conformance[{bi}:{nm}]", z3.And(g == go, other.shape[0].e == r.shape[0].e), kind="safety",
                      extra=[k.e >= 0, k.e < r.shape[0].e])
        gg = r.guard
        blocks.append((r.shape[0], gg, (lambda kk, r=r: r.at(kk)), (lambda kk, c=c: c.at(kk)), (lambda kk, v=v: v.at(kk))))
    m = COO(blocks, shape, fmt)
    m.dtype_kind = kind_of(vals)
    return m


# ---------------------------------------------------------------------------------------------------------------------------------
def same(a, b):
    """semantic sameness of two values of the symbolic run -> (formula, decidable).
    Identical objects are the same; two symbolic arrays / scalars are the same iff their values agree at a generic index (so a copy is
    the same as its original, two different stub results are not).  Anything else (opaque stub objects) can only be compared by
    identity: a mismatch there is not a semantic verdict (decidable=False)."""
    if a is b:
        return z3.BoolVal(True), True
    if isinstance(a, SymArray) and isinstance(b, SymArray) and a.ndim == b.ndim and a.guard is None and b.guard is None:
        g = [SI(FreshInt("same_g")) for _ in range(a.ndim)]
        rng = [z3.And(x.e >= 0, x.e < SI.lift(n).e) for x, n in zip(g, a.shape)]
        shp = [SI.lift(sa).e == SI.lift(sb).e for sa, sb in zip(a.shape, b.shape)]
        return z3.And(*shp, z3.Implies(z3.And(*rng), eq(a.at(*g), b.at(*g)))), True
    if isinstance(a, (SR, SC, SI)) and isinstance(b, (SR, SC, SI, int, float, complex)):
        return eq(a, b), True
    return z3.BoolVal(False), False


def check_same(name, pairs, also=True, note="", extra=()):
    """obligation 'these values are the same' (see same()); `also` = additional exact boolean side conditions"""
    fs, dec = [], True
    for a, b in pairs:
        f, d = same(a, b)
        fs.append(f)
        dec = dec and d
    if not also:
        return check(name, z3.BoolVal(False), note=note)
    if dec:
        return check(name, z3.And(*fs) if fs else z3.BoolVal(True), note=note, extra=extra)
    ok = all(z3.is_true(f) for f in fs)
    return sym.check_terms(name, ok, note=note or "compared by identity only")
