"""pyvc.gsum -- finite sums over a symbolic range as ghost constants (vectorised numpy reductions: einsum, bincount, cumsum, sum).

A sum  S = Sum_{0 <= t < n, guard(t)} f(t)  is a fresh real constant `gs!k` (so that it flows through ordinary arithmetic, unit conversion
and array element functions) plus a registry entry (n, guard, f).  Facts about sums are never axioms over an abstract sort; they are
*lemma applications*, each with its own proof obligation:

  link(name, a, b)   extensionality: n_a = n_b and, for a FRESH index t in range, guard_a(t) = guard_b(t) and guard => f_a(t) = f_b(t)
                     (obligations `name.same_range`, `name.same_summand`); when both are proved, a == b is added as a fact.
                     Sound: equal summands on the whole range give equal finite sums (no induction needed: the index is universally generalised
                     because the fresh constant occurs in no hypothesis).
  prefix sums        PS_k(j) = Sum_{t < j} f(t): an uninterpreted function with the unfoldings PS(0) = 0, PS(j+1) = PS(j) + f(j) instantiated at
                     the index terms the caller names (one unfolding each; sound: instances of the recursive definition).

A model that cannot express a reduction in this form raises Unsupported (undecided), never a verdict."""
import z3

from . import sym
from .sym import SI, SR, FreshInt, check

_REG = {}          # const name -> dict(n=SI, f=callable(SI)->SR, guard=callable(SI)->z3 Bool | None, what=str)
_MEMO = {}         # (range, guard at probe, summand at probe) -> const
_PROBE = z3.Int("gs_probe_index")
_PS = {}           # function name -> dict(f=callable(SI)->SR, fn=z3 Function)


def reset():
    _REG.clear()
    _MEMO.clear()
    _PS.clear()


def gsum(n, f, guard=None, what="sum"):
    """the real  Sum_{0 <= t < n, guard(t)} f(t)"""
    n = SI.lift(n)
    nv = n.concrete()
    if nv is not None and nv <= 4 and guard is None:
        tot = SR(0)
        for t in range(nv):
            tot = tot + SR.lift(f(SI(t)))
        return tot
    # the same reduction computed twice (two calls of the code under test) is the same real: key = range and summand at a generic probe index
    key = None
    cx = sym.ctx()
    saved = cx.safety
    try:
        cx.safety = False          # the key evaluation must not emit obligations; they are emitted where the summand is used
        pr = SI(_PROBE)
        key = (n.e.sexpr(), guard(pr).sexpr() if guard is not None else "", SR.lift(f(pr)).e.sexpr())
    except Exception:
        key = None
    finally:
        cx.safety = saved
    if key is not None and key in _MEMO:
        return SR(_MEMO[key])
    c = z3.Real(sym.fresh_name("gs"))
    _REG[c.decl().name()] = dict(n=n, f=f, guard=guard, what=what)
    if key is not None:
        _MEMO[key] = c
    return SR(c)


def info(x):
    e = x.e if isinstance(x, SR) else x
    if z3.is_const(e) and e.decl().kind() == z3.Z3_OP_UNINTERPRETED:
        return _REG.get(e.decl().name())
    return None


def link(name, a, b, note=""):
    """lemma application (extensionality of finite sums): proves a == b from range and summand equality; -> bool"""
    ia, ib = info(a), info(b)
    if ia is None or ib is None:
        # small concrete ranges are expanded by gsum(): then a and b are ordinary terms and the prover decides directly
        return check(name, sym.eq(a, b), note=note)
    ok = check(name + ".same_range", ia["n"].e == ib["n"].e, note=note)
    t = SI(FreshInt("t"))
    rng = [t.e >= 0, t.e < ia["n"].e]
    ga = ia["guard"](t) if ia["guard"] else z3.BoolVal(True)
    gb = ib["guard"](t) if ib["guard"] else z3.BoolVal(True)
    fa, fb = SR.lift(ia["f"](t)), SR.lift(ib["f"](t))
    ok &= check(name + ".same_summand", z3.And(ga == gb, z3.Implies(ga, fa.e == fb.e)), extra=rng, note=note)
    if ok:
        sym.axiom((a.e if isinstance(a, SR) else a) == (b.e if isinstance(b, SR) else b))
    return ok


def linear_in(name, s, scale_arg, note=""):
    """obligation: the summand of s is linear in an input family, i.e. f(t) with the family scaled by c equals c * f(t).
    scale_arg(c) must return the sum rebuilt with the family multiplied by c (the caller re-runs the code under test)."""
    c = SR(z3.Real(sym.fresh_name("lin_c")))
    s2 = scale_arg(c)
    i1, i2 = info(s), info(s2)
    if i1 is None or i2 is None:
        return check(name, sym.eq(s2, c * s), note=note)
    t = SI(FreshInt("t"))
    rng = [t.e >= 0, t.e < i1["n"].e]
    return check(name, z3.And(i1["n"].e == i2["n"].e, SR.lift(i2["f"](t)).e == (c * SR.lift(i1["f"](t))).e), extra=rng, note=note)


def prefix_sum(f, base="PS"):
    """-> (P, unfold): P(j) = Sum_{t < j} f(t) as SR-valued callable; unfold(j) -> list of z3 facts (definition instances at j)"""
    fn = z3.Function(sym.fresh_name(base), z3.IntSort(), z3.RealSort())
    _PS[fn.name()] = dict(f=f, fn=fn)

    def P(j):
        return SR(fn(SI.lift(j).e))

    def unfold(j):
        j = SI.lift(j).e
        return [fn(z3.IntVal(0)) == 0, z3.Implies(j >= 0, fn(j + 1) == fn(j) + SR.lift(f(SI(j))).e),
                z3.Implies(j >= 1, fn(j) == fn(j - 1) + SR.lift(f(SI(j - 1))).e)]
    return P, unfold


def _registered_in(term):
    out, seen, todo = [], set(), [term]
    while todo:
        t = todo.pop()
        if t.get_id() in seen:
            continue
        seen.add(t.get_id())
        if z3.is_app(t):
            if t.num_args() == 0 and t.decl().kind() == z3.Z3_OP_UNINTERPRETED and t.decl().name() in _REG:
                out.append(t)
            todo.extend(t.children())
    return sorted(out, key=lambda x: x.decl().name())


def value_is_sum(name, value, n, summand, pre=None, note="", weak=False, coefficients=()):
    """obligations showing  value == Sum_{0 <= t < n} summand(t)  where `value` was computed by code through the reduction models:
      name.linear_in_its_reductions   value == Sum_i C_i * g_i  with g_i the registered sums occurring in value and C_i = value[g_i := 1, others := 0]
      name.same_range                 every g_i ranges over n
      name.same_summand               for a FRESH t in [0, n):  Sum_i C_i * f_i(t) == summand(t)
    (distributivity of a finite sum over the t-independent coefficients C_i; the fresh t occurs in no hypothesis).  pre(t) -> facts about the
    generic index that the contract's precondition provides (e.g. 'the evaluation point is not site t').  -> bool"""
    value = SR.lift(value)
    # `coefficients`: registered sums that the specification itself mentions as t-independent factors (e.g. the number of incident edges in an average)
    cf = [x.e if isinstance(x, SR) else x for x in coefficients]
    gs = [g for g in _registered_in(value.e) if not any(g.eq(x) for x in cf)]
    n = SI.lift(n)
    if not gs:
        nv = n.concrete()
        if nv is not None and nv <= 4:
            tot = SR(0)
            for t in range(nv):
                if pre:
                    sym.axiom(*pre(SI(t)))
                tot = tot + SR.lift(summand(SI(t)))
            return check(name + ".same_summand", sym.eq(value, tot), note=note, weak=weak)
        return check(name + ".linear_in_its_reductions", False, note="the value contains no reduction over a symbolic range")
    zero = [(g, z3.RealVal(0)) for g in gs]
    coef = []
    for g in gs:
        sub = [(h, z3.RealVal(1) if h.eq(g) else z3.RealVal(0)) for h in gs]
        coef.append(z3.substitute(value.e, *sub))
    lin = sum((c * g for c, g in zip(coef, gs)), z3.RealVal(0))
    ok = check(name + ".linear_in_its_reductions", value.e == lin, note=note)
    ok &= check(name + ".same_range", z3.And(*[_REG[g.decl().name()]["n"].e == n.e for g in gs]), note=note)
    t = SI(FreshInt("t"))
    sym.assume(t >= 0, t < n)
    if pre:
        sym.axiom(*pre(t))
    code = z3.RealVal(0)
    for c, g in zip(coef, gs):
        r = _REG[g.decl().name()]
        ft = SR.lift(r["f"](t))
        if r["guard"] is not None:
            ft = sym.ite(r["guard"](t), ft, SR(0))
        code = code + c * ft.e
    ok &= check(name + ".same_summand", code == SR.lift(summand(t)).e, note=note, weak=weak)
    return ok
