"""second-opinion back ends for queries z3 (in-process) leaves unknown.  Every solver runs in a
subprocess with a hard wall-clock kill; an unknown/timeout/crash is reported as 'unknown', never as a verdict."""
import os
import re
import subprocess
import sys
import tempfile
import time

HERE = os.path.dirname(os.path.abspath(__file__))
ENABLE_CVC5 = os.environ.get("PYVC_NO_CVC5") is None


def _run(cmd, timeout):
    t0 = time.time()
    try:
        p = subprocess.run(cmd, capture_output=True, text=True, timeout=timeout)
        out = p.stdout.strip()
    except subprocess.TimeoutExpired:
        out = "timeout"
    except Exception as e:  # pragma: no cover
        out = f"error {e!r}"
    return out, time.time() - t0


def _verdict(out):
    first = out.split("\n", 1)[0].strip() if out else ""
    if first == "unsat":
        return "proved"
    if first == "sat":
        return "failed"
    return "unknown"


def _strip(smt2):
    # z3's to_smt2 emits "; benchmark" comment and (set-info :status unknown); keep (check-sat)
    return re.sub(r"\(set-info [^)]*\)", "", smt2)


def second_opinion(smt2, timeout_s):
    """-> (status, model_text_or_None, backend, secs)"""
    timeout_s = max(2.0, min(timeout_s, 120.0))
    total = 0.0
    with tempfile.TemporaryDirectory(prefix="pyvc_q_") as d:
        path = os.path.join(d, "q.smt2")
        body = _strip(smt2)
        with open(path, "w") as f:
            f.write(body + "\n(get-model)\n")
        # 1. z3-new CLI (fresh process, default strategy; differs from the in-process incremental solver)
        out, secs = _run(["z3-new", f"-T:{int(timeout_s)}", path], timeout_s + 5)
        total += secs
        v = _verdict(out)
        if v != "unknown":
            return v, (out[:2000] if v == "failed" else None), "z3-cli", total
        # 2. cvc5 1.4 (python wheel, --nl-cov)
        if ENABLE_CVC5:
            with open(path, "w") as f:
                f.write("(set-logic ALL)\n" + body + "\n")
            out, secs = _run([sys.executable, os.path.join(HERE, "cvc5_run.py"), path, str(int(timeout_s * 1000))], timeout_s + 10)
            total += secs
            v = _verdict(out)
            if v != "unknown":
                return v, (out[:2000] if v == "failed" else None), "cvc5", total
    return "unknown", None, "none", total
