"""abstract resource model for C15 / C19 / C14: a file system (set of existing paths, open handles, temp dirs) and an
h5py look-alike storing groups / datasets / attrs in dictionaries.  Assumed contracts (A4):
  h5py.File(path, "x") raises FileExistsError iff the path exists, otherwise creates it and returns an open handle;
  datasets copy their value on assignment; None is not storable in attrs/datasets (TypeError);
  os.remove deletes an existing path; TemporaryDirectory creates a fresh directory and cleanup() removes it with its content.
Every operation can be a fault point: FS.fault_at = n makes the n-th h5 operation raise FS.fault_exc."""
import copy

import numpy as _np


class FS:
    def __init__(self, existing=()):
        self.existing = set(existing)
        self.created = []
        self.open_handles = []
        self.closed = []
        self.removed = []
        self.tempdirs = []
        self.ops = 0
        self.fault_at = None
        self.fault_exc = OSError("injected fault")
        self.files = {}
        self.log = []

    def op(self, what):
        self.log.append(what)
        self.ops += 1
        if self.fault_at is not None and self.ops - 1 == self.fault_at:
            raise self.fault_exc


class Empty:
    """h5py.Empty: an attribute/dataset without a value"""
    def __init__(self, dtype="f"):
        self.dtype = dtype

    def __eq__(self, o):
        return isinstance(o, Empty)

    __hash__ = object.__hash__


class Attrs(dict):
    def update(self, other=(), **kw):
        for k, v in dict(other, **kw).items():
            self[k] = v

    def __setitem__(self, k, v):
        if v is None:
            raise TypeError("Object dtype dtype('O') has no native HDF5 equivalent")
        super().__setitem__(k, copy.deepcopy(v) if isinstance(v, (_np.ndarray, list, dict)) else v)


class Dataset:
    def __init__(self, fs, value):
        self.fs = fs
        self.value = copy.deepcopy(value) if isinstance(value, _np.ndarray) else value
        self.attrs = Attrs()

    def __setitem__(self, key, v):
        self.fs.op("dataset[:]=")
        self.value = copy.deepcopy(v) if isinstance(v, _np.ndarray) else v

    def __getitem__(self, key):
        return self.value

    def flush(self):
        self.fs.op("dataset.flush")

    def refresh(self):
        self.fs.op("dataset.refresh")

    def __array__(self, dtype=None, copy=None):
        return _np.asarray(self.value)


class Group:
    def __init__(self, fs, name="/"):
        self.fs, self.name = fs, name
        self.items_ = {}
        self.attrs = Attrs()

    def _resolve(self, path, create=False):
        g = self
        parts = [p for p in str(path).split("/") if p]
        for p in parts[:-1]:
            if p not in g.items_:
                if not create:
                    raise KeyError(path)
                g.items_[p] = Group(self.fs, g.name + p + "/")
            g = g.items_[p]
        return g, (parts[-1] if parts else "")

    def create_group(self, name, track_order=None):
        self.fs.op(f"create_group {name}")
        g, leaf = self._resolve(name, create=True)
        if leaf in g.items_:
            raise ValueError(f"Unable to create group (name already exists): {name}")
        g.items_[leaf] = Group(self.fs, g.name + leaf + "/")
        return g.items_[leaf]

    def __setitem__(self, name, value):
        self.fs.op(f"dataset {name}")
        if value is None:
            raise TypeError("Object dtype dtype('O') has no native HDF5 equivalent")
        g, leaf = self._resolve(name, create=True)
        if leaf in g.items_:
            raise OSError(f"Unable to create dataset (name already exists): {name}")
        g.items_[leaf] = Dataset(self.fs, value)

    def __getitem__(self, name):
        g, leaf = self._resolve(name)
        return g.items_[leaf]

    def __contains__(self, name):
        try:
            g, leaf = self._resolve(name)
        except KeyError:
            return False
        return leaf in g.items_

    # h5py iterates the members of a group in NAME order (track_order is off by default), not in the order they were created
    def __iter__(self):
        return iter(sorted(self.items_))

    def keys(self):
        return sorted(self.items_)

    def values(self):
        return [self.items_[k] for k in sorted(self.items_)]

    def __len__(self):
        return len(self.items_)

    def __delitem__(self, name):
        g, leaf = self._resolve(name)
        del g.items_[leaf]

    def require_group(self, name):
        if name in self:
            return self[name]
        return self.create_group(name)

    def items(self):
        return [(k, self.items_[k]) for k in sorted(self.items_)]


class File(Group):
    def __init__(self, fs, path, mode="r", libver=None):
        super().__init__(fs, "/")
        self.path, self.mode = path, mode
        self.is_open = False
        self.swmr_mode = False

    def __enter__(self):
        return self

    def __exit__(self, *a):
        self.close()
        return False

    def close(self):
        self.fs.op(f"close {self.path}")
        self.is_open = False
        if self in self.fs.open_handles:
            self.fs.open_handles.remove(self)
        self.fs.closed.append(self.path)

    def flush(self):
        self.fs.op(f"flush {self.path}")


class H5:
    """object bound to `h5py` in instrumented modules"""
    Group = Group
    Dataset = Dataset
    Empty = Empty

    def __init__(self, fs):
        self.fs = fs
        outer = self

        def file_ctor(path, mode="r", libver=None, **kw):
            fs_ = outer.fs
            fs_.op(f"open {path} {mode}")
            if mode == "x":
                if path in fs_.existing:
                    raise FileExistsError(f"Unable to create file (unable to open file: name = '{path}', errno = 17, error message = 'File exists')")
                f = File(fs_, path, mode)
                fs_.existing.add(path)
                fs_.created.append(path)
                fs_.files[path] = f
            else:
                if path not in fs_.existing:
                    raise FileNotFoundError(path)
                f = fs_.files.get(path) or File(fs_, path, mode)
            f.is_open = True
            fs_.open_handles.append(f)
            return f
        self.File = file_ctor


class OSModel:
    """os with remove / getcwd / path.join on the abstract fs"""

    def __init__(self, fs, cwd="/cwd"):
        import os as _os
        self.fs = fs
        self._cwd = cwd
        real = _os.path

        class _Path:
            """os.path with existence tests answered by the abstract file system"""
            def __getattr__(self_, nm):
                return getattr(real, nm)

            def exists(self_, p):
                return p in fs.existing

            def isfile(self_, p):
                return p in fs.existing and p not in fs.tempdirs

            def isdir(self_, p):
                return p in fs.tempdirs and p in fs.existing
        self.path = _Path()
        self.environ = {}

    def getcwd(self):
        return self._cwd

    def remove(self, p):
        self.fs.op(f"remove {p}")
        if p not in self.fs.existing:
            raise FileNotFoundError(p)
        self.fs.existing.discard(p)
        self.fs.removed.append(p)


class TempfileModel:
    def __init__(self, fs):
        self.fs = fs
        outer = self

        class TemporaryDirectory:
            def __init__(self_):
                self_.name = f"/tmp/tmpdir{len(outer.fs.tempdirs)}"
                outer.fs.tempdirs.append(self_.name)
                outer.fs.existing.add(self_.name)
                self_.cleaned = False

            def cleanup(self_):
                outer.fs.op(f"cleanup {self_.name}")
                self_.cleaned = True
                for p in list(outer.fs.existing):
                    if p == self_.name or p.startswith(self_.name + "/"):
                        outer.fs.existing.discard(p)
        self.TemporaryDirectory = TemporaryDirectory


class PathModel:
    def __init__(self, p):
        self.p = p

    @property
    def parent(self):
        return self

    def mkdir(self, parents=False, exist_ok=False):
        return None
