"""scipy.sparse model (assumed contract, A4): constructors build the block representation pyvc.arr.COO."""
from ..arr import COO, coo_from_triple
from ..sym import Unsupported


class _LinalgModel:
    @staticmethod
    def use_solver(**kw):
        pass

    @staticmethod
    def factorized(m):
        raise Unsupported("factorized: replaced by contract A5 where needed")


class SP:
    SparseEfficiencyWarning = Warning
    linalg = _LinalgModel

    @staticmethod
    def issparse(m):
        return isinstance(m, COO)

    @staticmethod
    def csr_array(arg, shape=None):
        vals, (rows, cols) = arg
        return coo_from_triple(vals, rows, cols, shape, "csr")

    @staticmethod
    def csc_array(arg, shape=None):
        vals, (rows, cols) = arg
        return coo_from_triple(vals, rows, cols, shape, "csc")

    @staticmethod
    def _convert(arg, shape, fmt):
        """csr_matrix(M) / csc_matrix(M): the same matrix in the requested storage; csr_matrix((data, indices, indptr)) built from the
        raw buffers of ONE matrix: the same matrix if the buffers were in that storage, its TRANSPOSE if they were in the other one"""
        from ..arr import SparseBuf
        if isinstance(arg, COO):
            return arg._as(fmt)
        if isinstance(arg, tuple) and len(arg) == 3 and all(isinstance(b, SparseBuf) for b in arg):
            d, i, p = arg
            if not (d.owner is i.owner is p.owner and (d.role, i.role, p.role) == ("data", "indices", "indptr")):
                raise Unsupported("compressed sparse constructor from mixed buffers")
            return d.owner._as(fmt) if d.fmt == fmt else d.owner.transposed(fmt)
        raise Unsupported(f"sparse constructor from {type(arg).__name__}")

    @staticmethod
    def csc_matrix(arg, shape=None):
        return SP._convert(arg, shape, "csc")

    @staticmethod
    def csr_matrix(arg, shape=None):
        return SP._convert(arg, shape, "csr")
