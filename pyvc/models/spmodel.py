"""scipy.sparse model (assumed contract, A4): constructors build the block representation pyvc.arr.COO."""
from ..arr import COO, coo_from_triple
from ..sym import Unsupported


class _LinalgModel:
    @staticmethod
    def use_solver(**kw):
        pass

    @staticmethod
    def factorized(m):
        raise Unsupported("factorized: replaced by contract A5 where needed")


class SP:
    SparseEfficiencyWarning = Warning
    linalg = _LinalgModel

    @staticmethod
    def issparse(m):
        return isinstance(m, COO)

    @staticmethod
    def csr_array(arg, shape=None):
        vals, (rows, cols) = arg
        return coo_from_triple(vals, rows, cols, shape, "csr")

    @staticmethod
    def csc_array(arg, shape=None):
        vals, (rows, cols) = arg
        return coo_from_triple(vals, rows, cols, shape, "csc")

    @staticmethod
    def csc_matrix(m):
        return m

    @staticmethod
    def csr_matrix(m):
        return m
