"""pint model (assumed contract, A4): a quantity is (magnitude, dimension exponents, scale to SI base units).
A *unit* is a quantity of magnitude 1; the user's length / field / current units are units whose scale factors are
SYMBOLIC positive reals, so every statement proved holds for every unit system.  Physical constants (mu_0, Phi_0) are
symbolic positive reals as well (exact algebra).  Unit expressions are parsed by evaluating the expression string over
the unit table (`ureg("uA / um")`)."""
import z3

from ..arr import SymArray
from ..sym import SR, SI, Unsupported, assume

DIMS = ("L", "M", "T", "I")


class DimensionalityError(TypeError):      # pint.DimensionalityError is a TypeError too
    pass


def _d(**kw):
    return tuple(kw.get(k, 0) for k in DIMS)


def _mul(a, b):
    if isinstance(a, SymArray) or isinstance(b, SymArray):
        return a * b
    return SR.lift(a) * SR.lift(b) if not (isinstance(a, (int, float)) and isinstance(b, (int, float))) else a * b


class Dimensionality:
    """pint's dimensionality container: equality of exponent vectors; `"[length]" in d` iff the exponent of that base dimension is non-zero"""
    NAMES = {"[length]": 0, "[mass]": 1, "[time]": 2, "[current]": 3}

    def __init__(self, dims):
        self.dims = tuple(dims)

    def __eq__(self, o):
        return isinstance(o, Dimensionality) and self.dims == o.dims

    def __ne__(self, o):
        return not self.__eq__(o)

    def __hash__(self):
        return hash(self.dims)

    def __contains__(self, name):
        if name not in self.NAMES:
            raise Unsupported(f"dimension {name!r}")
        return self.dims[self.NAMES[name]] != 0


class Q:
    __array_priority__ = 2000

    def __init__(self, mag, dims, scale):
        self.mag, self.dims, self.scale = mag, tuple(dims), scale

    # ---- arithmetic
    def __mul__(self, o):
        if isinstance(o, Q):
            return Q(_mul(self.mag, o.mag), tuple(a + b for a, b in zip(self.dims, o.dims)), _mul(self.scale, o.scale))
        return Q(_mul(self.mag, o), self.dims, self.scale)
    __rmul__ = lambda self, o: Q(_mul(o, self.mag), self.dims, self.scale)

    def __truediv__(self, o):
        if isinstance(o, Q):
            return Q(self.mag / o.mag if isinstance(self.mag, SymArray) else SR.lift(self.mag) / SR.lift(o.mag) if not isinstance(o.mag, SymArray) else self.mag / o.mag,
                     tuple(a - b for a, b in zip(self.dims, o.dims)), SR.lift(self.scale) / SR.lift(o.scale))
        return Q(self.mag / o if isinstance(self.mag, SymArray) else SR.lift(self.mag) / o, self.dims, self.scale)

    def __rtruediv__(self, o):
        return Q(SR.lift(o) / SR.lift(self.mag), tuple(-a for a in self.dims), SR(1) / SR.lift(self.scale))

    def __pow__(self, n):
        if not isinstance(n, int):
            raise Unsupported("quantity ** non-integer")
        return Q(self.mag ** n if isinstance(self.mag, SymArray) else SR.lift(self.mag) ** n, tuple(a * n for a in self.dims), SR.lift(self.scale) ** n)

    def __add__(self, o):
        if not isinstance(o, Q):
            if isinstance(o, (int, float)) and o == 0:
                return self          # pint: adding the number zero is allowed for every unit (what the builtin sum() relies on)
            raise DimensionalityError("add")
        if o.dims != self.dims:
            raise DimensionalityError("add")
        f = SR.lift(o.scale) / SR.lift(self.scale)
        if isinstance(self.mag, SymArray) or isinstance(o.mag, SymArray):
            return Q(self.mag + o.mag * f, self.dims, self.scale)
        return Q(SR.lift(self.mag) + SR.lift(o.mag) * f, self.dims, self.scale)

    def __radd__(self, o):
        return self.__add__(o)

    def __neg__(self):
        return Q(-self.mag, self.dims, self.scale)

    # ---- conversions
    @property
    def magnitude(self):
        return self.mag
    m = magnitude

    @property
    def units(self):
        return Q(1, self.dims, self.scale)

    @property
    def dimensionality(self):
        return Dimensionality(self.dims)

    @property
    def dimensionless(self):
        return all(a == 0 for a in self.dims)

    def to_base_units(self):
        return Q(_mul(self.mag, self.scale), self.dims, SR(1))

    def to(self, unit):
        if isinstance(unit, str):
            unit = UREG(unit)
        if unit.dims != self.dims:
            raise DimensionalityError(f"cannot convert {self.dims} to {unit.dims}")
        f = SR.lift(self.scale) / (SR.lift(unit.scale) * SR.lift(unit.mag))
        return Q(_mul(self.mag, f), self.dims, unit.scale)

    def __getitem__(self, k):
        return Q(self.mag[k], self.dims, self.scale)

    def __repr__(self):
        return f"Q({self.mag}, {self.dims}, {self.scale})"


class Registry:
    """the object bound to `ureg`; user units are looked up by name in `table`"""

    def __init__(self):
        R = z3.Real
        self.mu0 = SR(R("mu_0"))
        self.phi0 = SR(R("Phi_0"))
        self.user = {}
        self.table = {
            "m": Q(1, _d(L=1), SR(1)), "meter": Q(1, _d(L=1), SR(1)), "meters": Q(1, _d(L=1), SR(1)),
            "A": Q(1, _d(I=1), SR(1)), "ampere": Q(1, _d(I=1), SR(1)),
            "tesla": Q(1, _d(M=1, T=-2, I=-1), SR(1)), "T": Q(1, _d(M=1, T=-2, I=-1), SR(1)),
            "seconds": Q(1, _d(T=1), SR(1)), "s": Q(1, _d(T=1), SR(1)),
            "mu_0": Q(self.mu0, _d(L=1, M=1, T=-2, I=-2), SR(1)), "mu0": Q(self.mu0, _d(L=1, M=1, T=-2, I=-2), SR(1)),
            "Phi_0": Q(self.phi0, _d(L=2, M=1, T=-2, I=-1), SR(1)),
            "dimensionless": Q(1, _d(), SR(1)),
            # SI derived units (exact definitions): siemens = A^2 s^3 / (kg m^2), volt = kg m^2 / (A s^3)
            "siemens": Q(1, _d(L=-2, M=-1, T=3, I=2), SR(1)), "S": Q(1, _d(L=-2, M=-1, T=3, I=2), SR(1)),
            "volts": Q(1, _d(L=2, M=1, T=-3, I=-1), SR(1)), "volt": Q(1, _d(L=2, M=1, T=-3, I=-1), SR(1)), "V": Q(1, _d(L=2, M=1, T=-3, I=-1), SR(1)),
            "second": Q(1, _d(T=1), SR(1)),
        }
        assume(self.mu0 > 0, self.phi0 > 0)

    def user_unit(self, name, dims, scale_name):
        s = SR(z3.Real(scale_name))
        assume(s > 0)
        self.table[name] = Q(1, dims, s)
        self.user[name] = s
        return s

    def __call__(self, expr):
        if isinstance(expr, Q):
            return expr
        try:
            return eval(str(expr), {"__builtins__": {}}, dict(self.table))
        except NameError as e:
            raise Unsupported(f"unit expression {expr!r}: {e}")


UREG = None


def make_registry():
    global UREG
    UREG = Registry()
    return UREG


LENGTH = _d(L=1)
FIELD = _d(M=1, T=-2, I=-1)
CURRENT = _d(I=1)
