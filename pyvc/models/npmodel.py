"""numpy model (assumed contracts, A4) -- polymorphic over symbolic scalars (generic-site reading),
symbolic arrays (pyvc.arr) and concrete numbers.  Anything not modelled raises Unsupported -> undecided."""
import contextlib
import math

import numpy as _np
import z3

from .. import sym
from ..sym import SB, SC, SI, SR, Unsupported, FreshBool, real_sqrt, cexp


class _NDArrayMeta(type):
    def __instancecheck__(cls, inst):
        from .. import arr
        return isinstance(inst, (SC, SR, SI, SB, arr.SymArray, _np.ndarray))


class ndarray(metaclass=_NDArrayMeta):
    pass


def _is_sym_scalar(x):
    return isinstance(x, (SC, SR, SI, SB))


def _arr(x):
    from .. import arr
    return isinstance(x, arr.SymArray)


class NP:
    """the object bound to `np` / `xp` in instrumented modules"""
    ndarray = ndarray
    pi = math.pi
    inf = _np.inf
    int64 = _np.int64
    complex128 = _np.complex128
    float64 = _np.float64
    newaxis = None

    @staticmethod
    @contextlib.contextmanager
    def errstate(**kw):
        # A1: floating-point traps are invisible in real arithmetic
        yield

    @staticmethod
    def isclose(a, b, rtol=1e-05, atol=1e-08, equal_nan=False):
        """numpy's definition for finite values, over the reals: |a - b| <= atol + rtol * |b| (scalars only)"""
        if _arr(a) or _arr(b):
            raise Unsupported("isclose on arrays")
        a_, b_ = SR.lift(a), SR.lift(b)
        return SB(abs(a_ - b_).e <= (SR(atol) + SR(rtol) * abs(b_)).e)

    # ---- elementwise
    @staticmethod
    def exp(x):
        if _arr(x):
            return x.map(cexp)
        if _is_sym_scalar(x) or isinstance(x, complex):
            return cexp(x)
        return _np.exp(x)

    @staticmethod
    def sqrt(x):
        if _arr(x):
            return x.map(lambda v: real_sqrt(SR.lift(v)))
        if _is_sym_scalar(x):
            return real_sqrt(SR.lift(x))
        return _np.sqrt(x)

    @staticmethod
    def absolute(x):
        if _arr(x):
            return x.map(abs)
        if _is_sym_scalar(x):
            return abs(x)
        return _np.absolute(x)
    abs = absolute

    @staticmethod
    def conjugate(x):
        return x.conjugate()
    conj = conjugate

    @staticmethod
    def any(b):
        """generic-site reading: b is the predicate at the generic site g.  any(b) is a fresh boolean `some`
        with the instance  b(g) => some  (so `not some` gives `not b(g)`); when `some` holds the witness is a
        Skolem site about which nothing else is known."""
        if _arr(b):
            return b.any()
        if isinstance(b, SB):
            some = FreshBool("any")
            sym.axiom(z3.Implies(b.e, some))
            sym.ctx().ghost.setdefault("any", []).append((some, b.e))
            return SB(some)
        return _np.any(b)

    @staticmethod
    def all(b):
        if _arr(b):
            return b.all()
        if isinstance(b, SB):
            every = FreshBool("all")
            sym.axiom(z3.Implies(every, b.e))
            return SB(every)
        return _np.all(b)

    @staticmethod
    def asarray(x, dtype=None):
        return x

    @staticmethod
    def isscalar(x):
        return isinstance(x, (int, float, complex)) or _is_sym_scalar(x)


# ----------------------------------------------------------------------------- array functions
from .. import arr as _A  # noqa: E402
from ..arr import SymArray, Cat, SymList, SymListView  # noqa: E402


def _np_arange(n, dtype=None):
    n = SI.lift(n)
    return SymArray((n,), lambda k: k, kind="i")


def _np_ones(n, dtype=None):
    if isinstance(n, tuple):
        return SymArray(n, lambda *i: SR(1))
    return SymArray((SI.lift(n),), lambda k: SR(1))


def _np_zeros(n, dtype=None):
    if isinstance(n, tuple):
        return SymArray(n, lambda *i: SR(0))
    return SymArray((SI.lift(n),), lambda k: SR(0))


def _np_array(x, dtype=None):
    if isinstance(x, (SymArray, Cat)):
        return x
    if isinstance(x, list) and len(x) == 0:
        a = SymArray((SI(0),), lambda k: SI(0), kind="i")
        a.member = lambda v: z3.BoolVal(False)
        return a
    return _np.array(x, dtype=dtype)


def _np_concatenate(xs, dtype=None, axis=0):
    out = []
    for x in xs:
        out += _A.blocks_of(x)
    for b in out:
        if not isinstance(b, SymArray) or b.ndim != 1:
            raise Unsupported("concatenate of non 1-d symbolic arrays")
    return Cat(out)


def _np_einsum(spec, a, b):
    if spec.replace(" ", "") != "ij,ij->i":
        raise Unsupported(f"einsum {spec!r}")
    if hasattr(a, "einsum_with"):
        return a.einsum_with(b)
    _A._shape_ob(a.shape, b.shape)
    two = a.shape[1].concrete()
    if two != 2:
        raise Unsupported("einsum over a non-2 inner dimension")
    return SymArray(a.shape[:1], lambda k: a.at(k, SI(0)) * b.at(k, SI(0)) + a.at(k, SI(1)) * b.at(k, SI(1)))


def _np_isin(a, b, invert=False):
    mem = getattr(b, "member", None)
    if mem is None:
        raise Unsupported("isin: second argument has no membership predicate")

    def mk(blk):
        def f(k):
            m = mem(blk.at(k))
            return SB(z3.Not(m) if invert else m)
        return SymArray(blk.shape, f, blk.guard, kind="b")
    if isinstance(a, Cat):
        return Cat([mk(x) for x in a.blocks])
    return mk(a)


class _Linalg:
    @staticmethod
    def norm(a, axis=None):
        if isinstance(a, SymArray) and a.ndim == 2 and axis == 1 and a.shape[1].concrete() == 2:
            return SymArray(a.shape[:1], lambda k: real_sqrt(SR.lift(a.at(k, SI(0))) ** 2 + SR.lift(a.at(k, SI(1))) ** 2))
        raise Unsupported("linalg.norm")


def _np_maximum(a, b, out=None):
    if isinstance(a, SymArray):
        if out is a:
            snap = SymArray(a.shape, a._fn, a.guard)
            snap._memo = a._memo
            a = snap
        r = a._ew(b, lambda x, y: sym.ite(SR.lift(x).e >= SR.lift(y).e, x, y))
        if out is not None:
            out._fn, out._memo = r._fn, {}
            out._touch()
            return out
        return r
    if isinstance(a, (SR, SI)) or isinstance(b, (SR, SI)):
        a, b = SR.lift(a), SR.lift(b)
        return sym.ite(a.e >= b.e, a, b)
    return _np.maximum(a, b)


def _np_binary(opname, f):
    """np.add / subtract / multiply / divide with the out= argument: the result is written INTO `out` (every alias of it sees the new
    contents) and `out` itself is returned"""
    def g(a, b, out=None):
        if isinstance(a, SymArray) or isinstance(b, SymArray):
            r = f(a, b)
            if out is not None:
                if not isinstance(out, SymArray):
                    raise Unsupported(f"np.{opname}(out=<{type(out).__name__}>)")
                r = r._frozen() if hasattr(r, "_frozen") else r
                out._fn, out._memo = r._fn, {}
                out._touch()
                from ..autoloops import Region
                sym.ctx().ghost.setdefault("writes", []).append((out, Region(None, out.ndim, {}, {}, SR(0), [])))
                return out
            return r
        if any(isinstance(x, (SR, SI, SC)) for x in (a, b)):
            return f(a, b)
        return getattr(_np, opname)(a, b) if out is None else getattr(_np, opname)(a, b, out=out)
    return g


def _np_max(a):
    if isinstance(a, SymArray):
        return a.max()
    if isinstance(a, (SR, SI)):
        return a
    return _np.max(a)


def _np_mean(x):
    if isinstance(x, SymListView):
        n = _A.vlen(x)
        return _A.list_sum(x) / SR.lift(n)
    raise Unsupported("mean")


def _np_clip(x, lo, hi):
    if isinstance(x, (SR, SI)) or isinstance(lo, (SR, SI)) or isinstance(hi, (SR, SI)):
        x, lo, hi = SR.lift(x), SR.lift(lo), SR.lift(hi)
        return sym.ite(x.e < lo.e, lo, sym.ite(x.e > hi.e, hi, x))
    return _np.clip(x, lo, hi)


def _np_zeros_like(a, dtype=None):
    return SymArray(a.shape, lambda *i: SR(0))


def _np_empty(shape, dtype=None):
    if not isinstance(shape, tuple):
        shape = (shape,)
    return SymArray.fresh("empty", shape)


def _np_where(c):
    raise Unsupported("where")


for _k, _v in dict(add=_np_binary("add", lambda a, b: a + b), subtract=_np_binary("subtract", lambda a, b: a - b),
                   multiply=_np_binary("multiply", lambda a, b: a * b), divide=_np_binary("divide", lambda a, b: a / b),
                   true_divide=_np_binary("true_divide", lambda a, b: a / b)).items():
    setattr(NP, _k, staticmethod(_v))
for _k, _v in dict(arange=_np_arange, ones=_np_ones, zeros=_np_zeros, array=_np_array, concatenate=_np_concatenate,
                   einsum=_np_einsum, isin=_np_isin, maximum=_np_maximum, max=_np_max, mean=_np_mean, clip=_np_clip,
                   zeros_like=_np_zeros_like, empty=_np_empty).items():
    setattr(NP, _k, staticmethod(_v))
NP.linalg = _Linalg


def model_len(x):
    return _A.vlen(x)


def model_float(x):
    if isinstance(x, (SR, SI)):
        return SR.lift(x)
    return float(x)


def model_max(*a, **kw):
    if len(a) == 2 and any(isinstance(x, (SR, SI)) for x in a):
        x, y = SR.lift(a[0]), SR.lift(a[1])
        return sym.ite(x.e >= y.e, x, y)
    if len(a) == 1 and not isinstance(a[0], (list, tuple)) or (len(a) == 1 and any(isinstance(x, (SR, SI)) for x in a[0])):
        items = list(a[0])
        if not items:
            if "default" in kw:
                return kw["default"]
            raise ValueError("max() arg is an empty sequence")
        if any(isinstance(x, (SR, SI)) for x in items):
            r = SR.lift(items[0])
            for x in items[1:]:
                x = SR.lift(x)
                r = sym.ite(r.e >= x.e, r, x)
            return r
        return max(items, **kw)
    return max(*a, **kw)


def model_min(*a):
    if len(a) == 2 and any(isinstance(x, (SR, SI)) for x in a):
        x, y = SR.lift(a[0]), SR.lift(a[1])
        return sym.ite(x.e <= y.e, x, y)
    return min(*a)


BUILTINS = dict(len=model_len, float=model_float, max=model_max, min=model_min)
