"""numpy model (assumed contracts, A4) -- polymorphic over symbolic scalars (generic-site reading),
symbolic arrays (pyvc.arr) and concrete numbers.  Anything not modelled raises Unsupported -> undecided."""
import contextlib
import math

import numpy as _np
import z3

from .. import sym
from ..sym import SB, SC, SI, SR, Unsupported, FreshBool, real_sqrt, cexp


class _NDArrayMeta(type):
    def __instancecheck__(cls, inst):
        from .. import arr
        return isinstance(inst, (SC, SR, SI, SB, arr.SymArray, _np.ndarray))


class ndarray(metaclass=_NDArrayMeta):
    pass


def _is_sym_scalar(x):
    return isinstance(x, (SC, SR, SI, SB))


def _arr(x):
    from .. import arr
    return isinstance(x, arr.SymArray)


class NP:
    """the object bound to `np` / `xp` in instrumented modules"""
    ndarray = ndarray
    pi = math.pi
    inf = _np.inf
    int64 = _np.int64
    complex128 = _np.complex128
    float64 = _np.float64
    newaxis = None

    @staticmethod
    @contextlib.contextmanager
    def errstate(**kw):
        # A1: floating-point traps are invisible in real arithmetic
        yield

    # ---- elementwise
    @staticmethod
    def exp(x):
        if _arr(x):
            return x.map(cexp)
        if _is_sym_scalar(x) or isinstance(x, complex):
            return cexp(x)
        return _np.exp(x)

    @staticmethod
    def sqrt(x):
        if _arr(x):
            return x.map(lambda v: real_sqrt(SR.lift(v)))
        if _is_sym_scalar(x):
            return real_sqrt(SR.lift(x))
        return _np.sqrt(x)

    @staticmethod
    def absolute(x):
        if _arr(x):
            return x.map(abs)
        if _is_sym_scalar(x):
            return abs(x)
        return _np.absolute(x)
    abs = absolute

    @staticmethod
    def conjugate(x):
        return x.conjugate()
    conj = conjugate

    @staticmethod
    def any(b):
        """generic-site reading: b is the predicate at the generic site g.  any(b) is a fresh boolean `some`
        with the instance  b(g) => some  (so `not some` gives `not b(g)`); when `some` holds the witness is a
        Skolem site about which nothing else is known."""
        if _arr(b):
            return b.any()
        if isinstance(b, SB):
            some = FreshBool("any")
            sym.axiom(z3.Implies(b.e, some))
            sym.ctx().ghost.setdefault("any", []).append((some, b.e))
            return SB(some)
        return _np.any(b)

    @staticmethod
    def all(b):
        if _arr(b):
            return b.all()
        if isinstance(b, SB):
            every = FreshBool("all")
            sym.axiom(z3.Implies(every, b.e))
            return SB(every)
        return _np.all(b)

    @staticmethod
    def asarray(x, dtype=None):
        return x

    @staticmethod
    def isscalar(x):
        return isinstance(x, (int, float, complex)) or _is_sym_scalar(x)
