"""pyvc.loops -- loop cutting at invariants (T5).  Standard partial-correctness encoding:
entry: invariant holds for the entry state; then the loop's frame is havoced and the path forks:
  iterate: assume the invariant for a fresh index within bounds, run the REAL body once; falling through ->
           obligation 'invariant preserved', path ends; break/return/raise -> execution continues in the real code;
  exhausted (bounded loops only): assume the invariant at the upper bound, continue after the loop."""
import itertools

import z3

from . import sym
from .arr import SymArray, SymList
from .sym import SB, SC, SI, SR, PathEnd, Undecided, FreshInt, FreshReal, check

UNBOUND = object()


class SymRange:
    def __init__(self, start, stop):
        self.start, self.stop = SI.lift(start), SI.lift(stop)


def model_range(*a):
    if all(isinstance(x, int) for x in a):
        return range(*a)
    if len(a) == 1:
        return SymRange(0, a[0])
    if len(a) == 2:
        return SymRange(a[0], a[1])
    raise sym.Unsupported("range with a symbolic step")


class Forever:
    """iterable standing for `while` (desugared to for/if-not-break)"""


def fresh_like(name, v):
    if isinstance(v, SC):
        return SC(SR(FreshReal(name + "_re")), SR(FreshReal(name + "_im")))
    if isinstance(v, SR):
        return SR(FreshReal(name))
    if isinstance(v, SI):
        return SI(FreshInt(name))
    if isinstance(v, SB):
        return SB(sym.FreshBool(name))
    if isinstance(v, bool):
        return SB(sym.FreshBool(name))
    if isinstance(v, int):
        return SI(FreshInt(name))
    if isinstance(v, float):
        return SR(FreshReal(name))
    if isinstance(v, SymArray):
        from .arr import kind_of
        a = SymArray.fresh(name, v.shape, kind_of(v))
        return a
    return v


class LoopSpec:
    """contract of one loop.  Subclass or pass callables:
       inv(loc, idx) -> list of z3 Bool/SB (loc: dict of the locals the body assigns or reads)
       bound(it) -> SI upper bound or None (infinite); start(it) -> SI first index
       havoc(name, entry_value) -> fresh value; havoc_heap(loc) -> mutate heap objects of the frame
       elem(it, idx) -> the loop variable for iteration idx"""

    def __init__(self, label, inv, bound=None, havoc=None, havoc_heap=None, elem=None, at_entry=None, name=None):
        self.label, self._inv, self._bound, self._havoc, self._havoc_heap, self._elem = label, inv, bound, havoc, havoc_heap, elem
        self.at_entry = at_entry
        self.name = name or label
        self.cur = None
        self.last_elem = None
        self.mode = None
        self.getters = None
        self.idx = None
        self.entry = None

    def read(self, getters):
        out = {}
        for k, g in getters.items():
            try:
                out[k] = g()
            except NameError:
                out[k] = UNBOUND
        return out

    def bounds(self, it):
        if self._bound is not None:
            r = self._bound(it)
            if isinstance(r, tuple):
                return r
            return SI(0), r
        if isinstance(it, SymRange):
            return it.start, it.stop
        if isinstance(it, range):
            return SI(it.start), SI(it.stop)
        if isinstance(it, SymArray):
            return SI(0), it.shape[0]
        if isinstance(it, (itertools.count, Forever)):
            return SI(0), None
        if isinstance(it, (list, tuple)):
            return SI(0), SI(len(it))
        raise Undecided(f"loop {self.label}: cannot determine the bounds of {type(it).__name__}")

    def elem(self, it, idx):
        if self._elem is not None:
            return self._elem(it, idx)
        if isinstance(it, SymArray):
            return it.at(idx) if it.ndim == 1 else it[idx]
        if isinstance(it, Forever):
            return None
        return idx

    def inv(self, loc, idx):
        r = self._inv(loc, idx)
        out = []
        for g in (r if isinstance(r, (list, tuple)) else [r]):
            out.append(g.e if isinstance(g, SB) else (z3.BoolVal(g) if isinstance(g, bool) else g))
        return out + self._counter_invariants(loc, idx)

    def _counter_invariants(self, loc, idx):
        """generated invariant candidates (checked like every other conjunct): a local that enters the loop as a concrete integer c and is
        augmented in the body (`k += 1`) counts the iterations, k == c + (idx - first index).  This is what ties a hand-written counter of a
        `while` loop to the index the contract's invariant speaks about; a candidate that does not hold fails as an invariant (undecided)."""
        out = []
        lo = getattr(self, "_lo", None)
        entry = self.entry or {}
        if lo is None:
            return out
        for k in sorted(set(getattr(self, "aug", ()) or ()) & set(getattr(self, "assigned", ()) or ())):
            e0 = entry.get(k, UNBOUND)
            cur = loc.get(k, UNBOUND)
            if isinstance(e0, bool) or not isinstance(e0, int) or cur is UNBOUND or not isinstance(cur, (int, SI)) or isinstance(cur, bool):
                continue
            out.append(SI.lift(cur).e == e0 + (idx.e - lo.e))
        # a flag: a local that enters the loop as the constant False and is assigned in the body (`cancelled = True; break`).  Candidate: it is still
        # False at the head of every iteration (it is only ever set on the way out).  Whatever the flag is called.
        for k in sorted(set(getattr(self, "assigned", ()) or ())):
            e0 = entry.get(k, UNBOUND)
            cur = loc.get(k, UNBOUND)
            if e0 is False and cur is not UNBOUND and isinstance(cur, (bool, SB)):
                out.append(z3.Not(sym._b(cur)))
        return out

    def cut(self, vc, label, it, getters):
        c = sym.ctx()
        self.getters = getters
        lo, hi = self.bounds(it)
        self._lo = lo
        entry = self.read(getters)
        self.entry = entry
        if self.at_entry:
            self.at_entry(entry)
        for n, g in enumerate(self.inv(entry, lo)):
            check(f"{self.name}.inv_entry[{n}]", g, kind="invariant")
        # havoc the frame
        hv = {}
        assigned = getattr(self, "assigned", None)
        for k, v in entry.items():
            if assigned is not None and k not in assigned:
                hv[k] = v
                continue
            hv[k] = self._havoc(k, v) if self._havoc else (fresh_like(k, v) if v is not UNBOUND else UNBOUND)
        idx = SI(FreshInt(label + "_i"))
        self.idx = idx
        if self._havoc_heap:
            import inspect
            if len(inspect.signature(self._havoc_heap).parameters) >= 2:
                self._havoc_heap(hv, idx)
            else:
                self._havoc_heap(hv)
        self.cur = hv
        if hi is None:
            iterate = True
        else:
            iterate = bool(SB(sym.FreshBool("iterate_" + label)))
        if iterate:
            c.pc.append(idx.e >= lo.e)
            if hi is not None:
                c.pc.append(idx.e < hi.e)
            c.pc.extend(self.inv(hv, idx))
            self.mode = "iter"
            yield self.elem(it, idx)
            cur = self.read(getters)
            for n, g in enumerate(self.inv(cur, idx + 1)):
                check(f"{self.name}.inv_preserved[{n}]", g, kind="invariant")
            raise PathEnd
        else:
            c.pc.append(hi.e >= lo.e)
            c.pc.extend(self.inv(hv, hi))
            self.idx = hi
            self.mode = "exhausted"
            self.last_elem = sym.ite(hi.e > lo.e, hi - 1, lo) if not isinstance(it, SymArray) else None
            return

    def havoc_values(self):
        vals = []
        for k in self.order:
            v = self.cur[k]
            if v is UNBOUND:
                v = None
            vals.append(v)
        return tuple(vals)

    def exit_values(self, targets=()):
        cur = self.read(self.getters)
        if self.mode == "exhausted":
            # python leaves the loop variable at its last value (if the loop ran at all; otherwise its previous binding)
            tv = []
            for t in targets:
                last = self.last_elem
                tv.append(last if last is not None else (None if cur.get(t, UNBOUND) is UNBOUND else cur[t]))
            return self.havoc_values() + tuple(tv)
        return tuple((None if cur[k] is UNBOUND else cur[k]) for k in self.order) + tuple((None if cur.get(t, UNBOUND) is UNBOUND else cur[t]) for t in targets)
