"""run cvc5 (python wheel, nl-cov) on an SMT-LIB file given as argv[1]; prints sat/unsat/unknown (+ model)."""
import sys
import cvc5


def main(path, tlimit_ms):
    s = cvc5.Solver()
    s.setOption("nl-cov", "true")
    s.setOption("tlimit", str(int(tlimit_ms)))
    s.setOption("produce-models", "true")
    ip = cvc5.InputParser(s)
    ip.setFileInput(cvc5.InputLanguage.SMT_LIB_2_6, path)
    sm = ip.getSymbolManager()
    while True:
        c = ip.nextCommand()
        if c.isNull():
            break
        out = c.invoke(s, sm)
        if out:
            sys.stdout.write(str(out))
            sys.stdout.flush()


if __name__ == "__main__":
    main(sys.argv[1], float(sys.argv[2]) if len(sys.argv) > 2 else 20000)
