"""pyvc.instrument -- load the REAL source of a repository module from disk (every run), apply the
mechanical instrumentation T1..T6 of DESIGN.md section 2.1 and compile it into a private namespace.

Nothing in /repo is edited.  What the pass changes is listed in INSTRUMENTATION and recorded, together with
sha256 of the original and of the instrumented text, in every evidence file.
"""
import ast
import collections.abc as _abc
import hashlib
import importlib
import os
import sys

REPO = os.environ.get("PYVC_REPO", "/repo")

INSTRUMENTATION = [
    "T1 drop decorators numba.njit/numba.jit/cupyx.jit.rawkernel (kernels run as their Python source)",
    "T2 drop parameter/return annotations of functions and annotations of local variables",
    "T3 rebind module globals (np, sp, numba, h5py, tqdm, ...) to model objects = assumed contracts",
    "T4 rebind builtins len/float/int/abs/max/min/sum/range/isinstance to polymorphic versions",
    "T5 loops named by the contract: iterable wrapped in _pyvc.cut(label, iterable, locals-closure); "
    "havoc of the locals the body assigns as first body statement and after the loop",
    "T6 names listed under cuts: `name = _pyvc.opaque('name', name)` inserted after their assignment",
    "T8 names listed under sym_lists: `name = []` becomes `name = _pyvc.newlist('name')` (a list whose length may be symbolic after a cut loop)",
]

_DROP_DECOS = ("njit", "jit", "rawkernel", "vectorize", "guvectorize")


def _deco_name(d):
    if isinstance(d, ast.Call):
        d = d.func
    parts = []
    while isinstance(d, ast.Attribute):
        parts.append(d.attr)
        d = d.value
    if isinstance(d, ast.Name):
        parts.append(d.id)
    return ".".join(reversed(parts))


def _assigned_names(stmts):
    """names (re)assigned anywhere in the statements (not descending into nested function/class defs)"""
    out = []

    def tgt(t):
        if isinstance(t, ast.Name):
            if t.id not in out:
                out.append(t.id)
        elif isinstance(t, (ast.Tuple, ast.List)):
            for e in t.elts:
                tgt(e)
        elif isinstance(t, ast.Starred):
            tgt(t.value)

    def walk(n):
        if isinstance(n, (ast.FunctionDef, ast.AsyncFunctionDef, ast.ClassDef, ast.Lambda)):
            return
        if isinstance(n, ast.Assign):
            for t in n.targets:
                tgt(t)
        elif isinstance(n, (ast.AugAssign, ast.AnnAssign)):
            tgt(n.target)
        elif isinstance(n, (ast.For, ast.AsyncFor)):
            tgt(n.target)
        elif isinstance(n, ast.NamedExpr):
            tgt(n.target)
        elif isinstance(n, (ast.With, ast.AsyncWith)):
            for it in n.items:
                if it.optional_vars is not None:
                    tgt(it.optional_vars)
        for ch in ast.iter_child_nodes(n):
            walk(ch)

    for s in stmts:
        walk(s)
    return out


class _Pass(ast.NodeTransformer):
    def __init__(self, cut_loops, cuts, sym_lists=None):
        self.sym_lists = sym_lists or {}     # {qualname: [names]}
        self.cut_loops = cut_loops or {}     # {qualname: {ordinal(int, 1-based, source order): label}}
        self.cuts = cuts or {}               # {qualname: [names]}
        self.stack = []
        self.loop_counter = {}
        self.applied = []
        self._fn_locals = [set()]

    # -- helpers
    def qual(self):
        return ".".join(self.stack)

    def visit_ClassDef(self, node):
        self.stack.append(node.name)
        self.generic_visit(node)
        self.stack.pop()
        return node

    def visit_FunctionDef(self, node):
        self.stack.append(node.name)
        q = self.qual()
        before = len(node.decorator_list)
        node.decorator_list = [d for d in node.decorator_list if _deco_name(d).split(".")[-1] not in _DROP_DECOS]
        if len(node.decorator_list) != before:
            self.applied.append(f"T1 {q}: dropped {before - len(node.decorator_list)} decorator(s)")
        node.returns = None
        a = node.args
        for arg in a.args + a.kwonlyargs + a.posonlyargs + ([a.vararg] if a.vararg else []) + ([a.kwarg] if a.kwarg else []):
            arg.annotation = None
        self.loop_counter[q] = 0
        params = [x.arg for x in a.args + a.kwonlyargs + a.posonlyargs] + ([a.vararg.arg] if a.vararg else []) + ([a.kwarg.arg] if a.kwarg else [])
        self._fn_locals.append(set(params) | set(_assigned_names(node.body)))
        self.generic_visit(node)
        self._fn_locals.pop()
        # T6 opaque cuts
        names = self.cuts.get(q)
        if names:
            node.body = self._insert_cuts(node.body, set(names), q)
        self.stack.pop()
        return node

    visit_AsyncFunctionDef = visit_FunctionDef

    def visit_Assign(self, node):
        self.generic_visit(node)
        names = self.sym_lists.get(self.qual())
        if names and len(node.targets) == 1 and isinstance(node.targets[0], ast.Name) and node.targets[0].id in names \
                and isinstance(node.value, ast.List) and not node.value.elts:
            nm = node.targets[0].id
            node.value = ast.copy_location(ast.parse(f"_pyvc.newlist({nm!r})", mode="eval").body, node.value)
            self.applied.append(f"T8 {self.qual()}: `{nm} = []` is a symbolic list")
        return node

    def visit_AnnAssign(self, node):
        self.generic_visit(node)
        if not self.stack or not self._in_function():
            return node        # class-level (dataclass fields) and module-level annotations are kept
        if node.value is None:
            return None
        return ast.copy_location(ast.Assign(targets=[node.target], value=node.value), node)

    def _in_function(self):
        return bool(self._fn_depth)

    _fn_depth = 0

    def generic_visit(self, node):
        isfn = isinstance(node, (ast.FunctionDef, ast.AsyncFunctionDef))
        if isfn:
            self._fn_depth += 1
        r = super().generic_visit(node)
        if isfn:
            self._fn_depth -= 1
        return r

    def _insert_cuts(self, body, names, q):
        out = []
        for st in body:
            for field in ("body", "orelse", "finalbody"):
                if hasattr(st, field) and isinstance(getattr(st, field), list) and not isinstance(st, (ast.FunctionDef, ast.ClassDef)):
                    setattr(st, field, self._insert_cuts(getattr(st, field), names, q))
            if isinstance(st, ast.Try):
                for h in st.handlers:
                    h.body = self._insert_cuts(h.body, names, q)
            out.append(st)
            if isinstance(st, ast.Assign):
                for nm in _assigned_names([st]):
                    if nm in names:
                        out.append(ast.parse(f"{nm} = _pyvc.opaque({nm!r}, {nm})").body[0])
                        self.applied.append(f"T6 {q}: opaque cut after assignment to {nm!r}")
        return out

    def _loop(self, node):
        q = self.qual()
        self.loop_counter[q] = self.loop_counter.get(q, 0) + 1
        ordinal = self.loop_counter[q]
        self.generic_visit(node)
        label = (self.cut_loops.get(q) or {}).get(ordinal)
        if label is None:
            return node
        assigned = _assigned_names(node.body)
        tgt_names = []
        if isinstance(node, ast.For):
            tgt_names = _assigned_names([ast.Assign(targets=[node.target], value=ast.Constant(0))])
            assigned = [a for a in assigned if a not in tgt_names]
        # names read in the body or test (for invariants over read-only locals); only `assigned` ones are havoced
        read = []
        for st in node.body + ([node.test] if isinstance(node, ast.While) else []):
            for n in ast.walk(st):
                if isinstance(n, ast.Name) and isinstance(n.ctx, ast.Load) and n.id not in read and n.id not in assigned \
                        and n.id not in tgt_names and n.id in self._fn_locals[-1]:
                    read.append(n.id)
        # one closure per local: a local may still be unbound at loop entry
        lam = ast.parse("{" + ",".join(f"{a!r}: (lambda: {a})" for a in assigned + read + tgt_names) + "}", mode="eval").body
        order = ast.parse(repr(tuple(assigned)), mode="eval").body
        aug = []
        for st in node.body:
            for n in ast.walk(st):
                if isinstance(n, ast.AugAssign) and isinstance(n.target, ast.Name) and n.target.id not in aug:
                    aug.append(n.target.id)
        augn = ast.parse(repr(tuple(aug)), mode="eval").body
        if isinstance(node, ast.While):
            # while test: body  ==>  for _ in cut(label, forever): havoc; if not test: break; body
            brk = ast.If(test=ast.UnaryOp(op=ast.Not(), operand=node.test), body=[ast.Break()], orelse=[])
            new = ast.For(target=ast.Name("_pyvc_w", ast.Store()), iter=ast.Call(func=ast.Attribute(value=ast.Name("_pyvc", ast.Load()), attr="forever", ctx=ast.Load()), args=[], keywords=[]),
                          body=[brk] + node.body, orelse=[], lineno=node.lineno, col_offset=node.col_offset)
            node = new
        node.iter = ast.Call(func=ast.Attribute(value=ast.Name("_pyvc", ast.Load()), attr="cut", ctx=ast.Load()),
                             args=[ast.Constant(label), node.iter, lam, order, augn], keywords=[])
        out = [node]
        if assigned:
            hv = f"({', '.join(assigned)},) = _pyvc.havoc_locals({label!r})"
            node.body.insert(0, ast.parse(hv).body[0])
        if assigned or tgt_names:
            ex = f"({', '.join(assigned + tgt_names)},) = _pyvc.exit_locals({label!r}, {tuple(tgt_names)!r})"
            out.append(ast.parse(ex).body[0])
        self.applied.append(f"T5 {q}: loop #{ordinal} cut as {label!r}, havoc {assigned}, readable {read}")
        return out

    def visit_For(self, node):
        return self._loop(node)

    def visit_While(self, node):
        return self._loop(node)


class Loaded:
    def __init__(self, ns, modname, path, sha_src, sha_inst, applied, text):
        self.ns, self.modname, self.path = ns, modname, path
        self.sha_src, self.sha_inst, self.applied, self.text = sha_src, sha_inst, applied, text

    def __getitem__(self, k):
        return self.ns[k]

    def info(self):
        return dict(module=self.modname, file=self.path, sha256_source=self.sha_src, sha256_instrumented=self.sha_inst,
                    applied=self.applied)


def module_path(modname):
    p = os.path.join(REPO, *modname.split("."))
    if os.path.isdir(p):
        return os.path.join(p, "__init__.py")
    return p + ".py"


def read_source(modname, mutate=None):
    path = module_path(modname)
    with open(path) as f:
        src = f.read()
    if mutate:
        for old, new in mutate:
            if old not in src:
                raise KeyError(f"mutation anchor not found in {path}: {old[:60]!r}")
            src = src.replace(old, new, 1)
    return path, src


def load(modname, rebind=None, cut_loops=None, cuts=None, mutate=None, vc=None, keep_real_imports=True, pre=None, sym_lists=None):
    """compile the real source of `modname` into a private namespace.
    rebind: {global name: model object} applied AFTER the module body ran (so real imports work)
    cut_loops: {qualname: {ordinal: label}}; cuts: {qualname: [names]}; mutate: [(old, new)] in-memory edits
    (mutation canaries only); vc: the object bound to _pyvc."""
    if REPO not in sys.path[:1]:
        sys.path.insert(0, REPO)
    path, src = read_source(modname, mutate)
    tree = ast.parse(src)
    p = _Pass(cut_loops, cuts, sym_lists)
    tree = ast.fix_missing_locations(p.visit(tree))
    text = ast.unparse(tree)
    pkg = modname.rsplit(".", 1)[0] if "." in modname else modname
    if path.endswith("__init__.py"):
        pkg = modname
    ns = {"__name__": modname, "__package__": pkg, "__file__": path, "__builtins__": __builtins__}
    if pre:
        ns.update(pre)
    code = compile(tree, f"<real:{path}>", "exec")
    exec(code, ns)
    if rebind:
        ns.update(rebind)
    if vc is not None:
        ns["_pyvc"] = vc
    L_ = Loaded(ns, modname, path, hashlib.sha256(src.encode()).hexdigest(),
                hashlib.sha256(text.encode()).hexdigest(), p.applied, text)
    # containers / memo tables the module owns at load time (frame condition generated for every path of every unit, see written_module_state)
    try:
        L_.state0 = {k: v for k, v in module_state(L_).items() if len(v) > 1}
    except Exception:
        L_.state0 = {}
    LOADED.append(L_)
    del LOADED[:-60]
    return L_


LOADED = []


def written_module_state():
    """[(module name, [global names])]: module-level containers and memo tables (dict / list / set / functools caches) that an instrumented module owned
    when it was loaded and that have since been written (same object, other size or keys).  The package keeps no such state, so every entry is a
    table that some call left behind for a later call to pick up."""
    out = []
    for L_ in LOADED:
        st0 = getattr(L_, "state0", None)
        if not st0:
            continue
        now = module_state(L_)
        ch = [k for k, v in st0.items() if k in now and now[k][0] == v[0] and now[k] != v]
        if ch:
            out.append((L_.modname if hasattr(L_, "modname") else str(L_), sorted(ch)))
    return out


def set_vc(loaded, vc):
    loaded.ns["_pyvc"] = vc


def module_state(loaded):
    """snapshot of the mutable module-level state of an instrumented module (frame conditions 'modifies nothing outside its result'):
    {global name: (id, kind, size, keys)} for containers, (id,) for everything else"""
    out = {}
    for k, v in loaded.ns.items():
        if k.startswith("__") or k == "_pyvc":
            continue
        if isinstance(v, dict):
            out[k] = (id(v), "dict", len(v), tuple(sorted(map(repr, v.keys())))[:20])
        elif isinstance(v, (list, set)):
            out[k] = (id(v), type(v).__name__, len(v), ())
        elif isinstance(v, (_abc.MutableMapping, _abc.MutableSet, _abc.MutableSequence)) and not isinstance(v, type):
            # WeakKeyDictionary / WeakValueDictionary / deque / user-defined tables
            try:
                out[k] = (id(v), type(v).__name__, len(v), ())
            except Exception:
                out[k] = (id(v),)
        elif callable(getattr(v, "cache_info", None)) and not isinstance(v, type):
            # functools.lru_cache / functools.cache wrappers keep their table inside the wrapper: its size is module-level state
            try:
                out[k] = (id(v), "memo", v.cache_info().currsize, ())
            except Exception:
                out[k] = (id(v),)
        else:
            out[k] = (id(v),)
    return out


def module_state_changes(before, after):
    ch = []
    for k in sorted(set(before) | set(after)):
        if before.get(k) != after.get(k):
            ch.append(k)
    return ch
