"""pyvc.sym -- symbolic scalar values, path contexts and the prover front end.

The real repository code is executed by CPython on these proxy values (DESIGN.md section 2).
Floats are z3 Reals (assumption A1), ints are z3 Ints (A2), complex numbers are pairs of reals.
Branching on a symbolic boolean forks the path (depth-first re-execution, see explore()).
"""
from __future__ import annotations

import itertools
import time

import z3

# ----------------------------------------------------------------------------- exceptions


class PathEnd(Exception):
    """the current path ends here (e.g. after 'invariant preserved')"""


class Undecided(Exception):
    """the engine cannot decide (unsupported construct, budget exceeded): never a violation"""


class Unsupported(Undecided):
    pass


# ----------------------------------------------------------------------------- context


class Obl:
    __slots__ = ("name", "status", "model", "backend", "secs", "path", "note", "smt2", "kind")

    def __init__(self, name, status, model=None, backend="z3", secs=0.0, path=0, note="", smt2=None, kind="ensures"):
        self.name, self.status, self.model, self.backend = name, status, model, backend
        self.secs, self.path, self.note, self.smt2, self.kind = secs, path, note, smt2, kind

    def as_dict(self):
        return dict(name=self.name, status=self.status, model=self.model, backend=self.backend,
                    secs=round(self.secs, 4), path=self.path, note=self.note, kind=self.kind)


class Ctx:
    def __init__(self, decisions=()):
        self.decisions = list(decisions)
        self.pos = 0
        self.pc = []          # path condition: assumptions, branch decisions
        self.ax = []          # definitional side facts (sqrt/division/cis instances, proved lemmas)
        self.pending = []     # alternative decision prefixes still to explore
        self.obls = []        # Obl results of this path
        self.path_index = 0
        self.ghost = {}       # free-form ghost state for contracts
        self.trace = []       # human-readable branch trace
        self.timeout_ms = 20000
        self.safety = True    # emit implicit safety obligations (division, sqrt)
        self.prefix = ""      # obligation-name prefix

    def hyps(self):
        return self.pc + self.ax


CTX: Ctx = Ctx()


def setctx(c):
    global CTX
    CTX = c
    return c


def ctx() -> Ctx:
    return CTX


_fresh = itertools.count()


def fresh_name(base):
    return f"{base}!{next(_fresh)}"


def FreshReal(base="r"):
    return z3.Real(fresh_name(base))


def FreshInt(base="i"):
    return z3.Int(fresh_name(base))


def FreshBool(base="b"):
    return z3.Bool(fresh_name(base))


# ----------------------------------------------------------------------------- prover

STATS = dict(queries=0, z3_secs=0.0, cvc5_queries=0, cvc5_secs=0.0, unknown=0)


def _model_dict(m):
    out = {}
    try:
        for d in m.decls():
            if d.arity() == 0:
                v = m[d]
                out[d.name()] = _val(v)
            else:
                out[d.name()] = str(m[d])[:400]
    except Exception as e:  # pragma: no cover
        out["_model_error"] = repr(e)
    return out


def _val(v):
    try:
        if z3.is_int_value(v):
            return v.as_long()
        if z3.is_rational_value(v):
            return v.numerator_as_long() / v.denominator_as_long()
        if z3.is_algebraic_value(v):
            a = v.approx(12)
            return a.numerator_as_long() / a.denominator_as_long()
        if z3.is_true(v):
            return True
        if z3.is_false(v):
            return False
    except Exception:
        pass
    return str(v)


def _z3_check(hyps, goal, timeout_ms, want_model):
    s = z3.Solver()
    s.set("timeout", int(timeout_ms))
    for h in hyps:
        s.add(h)
    s.add(z3.Not(goal))
    r = s.check()
    if r == z3.unsat:
        return "proved", None, None
    if r == z3.sat:
        return "failed", (_model_dict(s.model()) if want_model else None), None
    return "unknown", None, s.to_smt2()


def ackermannize(formulas):
    """replace applications of uninterpreted functions by fresh constants + pairwise congruence constraints
    (equisatisfiable for quantifier-free formulas).  Lets nlsat decide -- and find counter-models for --
    queries that mention cos/sin/area(...)/... -> (new formulas, {const name: app string})"""
    apps = {}
    order = []

    def collect(t):
        todo = [t]
        seen = set()
        while todo:
            x = todo.pop()
            if x.get_id() in seen:
                continue
            seen.add(x.get_id())
            if z3.is_quantifier(x):
                raise ValueError("quantifier")
            if z3.is_app(x):
                if x.decl().kind() == z3.Z3_OP_UNINTERPRETED and x.num_args() > 0 and x.get_id() not in apps:
                    apps[x.get_id()] = x
                todo.extend(x.children())
    for f in formulas:
        collect(f)
    if not apps:
        return list(formulas), {}
    lst = sorted(apps.values(), key=lambda a: len(a.sexpr()))
    subs = []
    names = {}
    rewritten = []
    for a in lst:
        a2 = z3.substitute(a, *subs) if subs else a
        c = z3.Const(fresh_name("uf_" + a.decl().name()), a.sort())
        names[c.decl().name()] = str(a)[:120]
        subs.append((a, c))
        rewritten.append((a.decl(), [ch for ch in a2.children()], c))
    out = [z3.substitute(f, *reversed(subs)) for f in formulas]
    # innermost-first substitution: apply repeatedly until no UF application is left
    for _ in range(6):
        out = [z3.substitute(f, *subs) for f in out]
    bydecl = {}
    for d, args, c in rewritten:
        bydecl.setdefault(d.name(), []).append((args, c))
    for d, items in bydecl.items():
        for i in range(len(items)):
            for j in range(i):
                ai, ci = items[i]
                aj, cj = items[j]
                ai = [z3.substitute(x, *subs) for x in ai]
                aj = [z3.substitute(x, *subs) for x in aj]
                out.append(z3.Implies(z3.And(*[x == y for x, y in zip(ai, aj)]), ci == cj))
    return out, names


def _z3_check_ack(hyps, goal, timeout_ms, want_model):
    try:
        fs, names = ackermannize(list(hyps) + [z3.Not(goal)])
    except ValueError:
        return "unknown", None, None
    s = z3.Solver()
    s.set("timeout", int(timeout_ms))
    for f in fs:
        s.add(f)
    r = s.check()
    if r == z3.unsat:
        return "proved", None, None
    if r == z3.sat:
        m = _model_dict(s.model()) if want_model else None
        if m is not None:
            m["_uf_constants"] = names
        return "failed", m, None
    return "unknown", None, None


def _forked(fn, hard_s):
    """run fn() in a forked child with a hard wall-clock kill (z3's own timeout is not always honoured)."""
    import os
    import pickle
    import select
    import signal
    r, w = os.pipe()
    pid = os.fork()
    if pid == 0:
        try:
            os.close(r)
            try:
                out = fn()
            except BaseException as e:  # noqa
                out = ("unknown", None, None, f"child error {e!r}")
            with os.fdopen(w, "wb") as f:
                pickle.dump(out, f)
        finally:
            os._exit(0)
    os.close(w)
    buf = b""
    t_end = time.time() + hard_s
    killed = False
    with os.fdopen(r, "rb") as f:
        while True:
            left = t_end - time.time()
            if left <= 0:
                os.kill(pid, signal.SIGKILL)
                killed = True
                break
            rd, _, _ = select.select([f], [], [], min(left, 1.0))
            if rd:
                chunk = os.read(f.fileno(), 1 << 16)
                if not chunk:
                    break
                buf += chunk
    os.waitpid(pid, 0)
    if killed or not buf:
        return None
    try:
        return pickle.loads(buf)
    except Exception:
        return None


_SYMS = {}


def _symbols(e):
    """uninterpreted constants / functions occurring in a z3 term (cached by term id)"""
    k = e.get_id()
    if k in _SYMS:
        return _SYMS[k]
    out = set()
    seen = set()
    todo = [e]
    while todo:
        t = todo.pop()
        i = t.get_id()
        if i in seen:
            continue
        seen.add(i)
        if z3.is_quantifier(t):
            todo.append(t.body())
            continue
        if z3.is_app(t):
            d = t.decl()
            if d.kind() == z3.Z3_OP_UNINTERPRETED:
                out.add(d.name())
            todo.extend(t.children())
    _SYMS[k] = out
    return out


def relevant(hyps, goal):
    """hypotheses connected to the goal through shared symbols (closure).  Dropping hypotheses is sound for 'proved'."""
    want = set(_symbols(goal))
    rest = [(h, _symbols(h)) for h in hyps]
    chosen = []
    changed = True
    while changed:
        changed = False
        keep = []
        for h, sy in rest:
            if not sy or (sy & want):
                chosen.append(h)
                if not sy <= want:
                    want |= sy
                    changed = True
            else:
                keep.append((h, sy))
        rest = keep
    return chosen, len(rest)


def _consts(e):
    """0-ary uninterpreted constants of a term (cached)"""
    k = ("c", e.get_id())
    if k in _SYMS:
        return _SYMS[k]
    out = set()
    seen = set()
    todo = [e]
    while todo:
        t = todo.pop()
        if t.get_id() in seen:
            continue
        seen.add(t.get_id())
        if z3.is_quantifier(t):
            todo.append(t.body())
        elif z3.is_app(t):
            if t.num_args() == 0 and t.decl().kind() == z3.Z3_OP_UNINTERPRETED:
                out.add(t.decl().name())
            todo.extend(t.children())
    _SYMS[k] = out
    return out


def local_hyps(hyps, goal):
    """hypotheses connected to the goal through non-hub constants (hub = constant occurring in > 25% of the hypotheses,
    e.g. N, E).  Used only for counter-model search: the result is a *candidate* (status failed-weak) until replayed."""
    cs = [(_consts(h), h) for h in hyps]
    cnt = {}
    for c_, _ in cs:
        for x in c_:
            cnt[x] = cnt.get(x, 0) + 1
    hubs = {x for x, n in cnt.items() if n > max(8, len(hyps) // 4)}
    want = set(_consts(goal)) - hubs
    chosen = []
    rest = cs
    changed = True
    while changed:
        changed = False
        keep = []
        for c_, h in rest:
            loc = c_ - hubs
            if (not loc and len(c_) > 0 and len(str(h)) < 200) or (loc & want):
                chosen.append(h)
                if not loc <= want:
                    want |= loc
                    changed = True
            else:
                keep.append((c_, h))
        rest = keep
    return chosen


FAILS = dict(n=0)
try:
    import sympy as _sympy  # noqa: F401  (pre-import: forked ring provers inherit it)
except Exception:  # pragma: no cover
    _sympy = None


def _ring_candidate(goal):
    """conjunction of real equalities (possibly under implications) with a non-linear term somewhere"""
    todo = [goal]
    n = 0
    while todo:
        g = todo.pop()
        if z3.is_and(g):
            todo.extend(g.children())
        elif z3.is_implies(g):
            todo.append(g.children()[1])
        elif z3.is_eq(g) and g.children()[0].sort().kind() == z3.Z3_REAL_SORT:
            n += 1
        elif z3.is_true(g):
            pass
        else:
            return False
    return n > 0 and len(goal.sexpr()) > 120


def prove(hyps, goal, timeout_ms=None, want_model=True):
    """-> (status, model, backend, secs, smt2); status in proved / failed / failed-weak / unknown.
    failed = the full VC is satisfiable (model attached); failed-weak = only a subset of the hypotheses was used to find
    the counter-model (a candidate: counts only if the native replay confirms it)."""
    from . import backend
    timeout_ms = timeout_ms or CTX.timeout_ms
    if FAILS["n"] >= 6:          # many failures already in this unit: do not burn the unit's wall-clock budget
        timeout_ms = min(timeout_ms, 4000)
    t0 = time.time()
    STATS["queries"] += 1
    sub, dropped = relevant(hyps, goal)
    if _ring_candidate(goal):
        # polynomial identity modulo unit-circle / quotient definitions: algebraic normalisation first
        from . import ring
        r = _forked(lambda: ("proved" if ring.ring_prove(sub, goal) else "unknown", None, None), 60.0)
        if r is not None and r[0] == "proved":
            return "proved", None, "ring", time.time() - t0, None
    if dropped:
        res = _forked(lambda: _z3_check(sub, goal, min(timeout_ms, 3000), False), min(timeout_ms, 3000) / 1000.0 + 2.0)
        if res is not None and res[0] == "proved":
            dt = time.time() - t0
            STATS["z3_secs"] += dt
            return "proved", None, "z3", dt, None
    first_ms = min(timeout_ms, 6000)
    res = _forked(lambda: _z3_check(hyps, goal, first_ms, want_model), first_ms / 1000.0 + 2.0)
    STATS["z3_secs"] += time.time() - t0
    if res is not None and res[0] in ("proved", "failed"):
        if res[0] == "failed":
            FAILS["n"] += 1
        return res[0], res[1], "z3", time.time() - t0, None
    # unknown: Ackermannised query on the full hypotheses (pure arithmetic; nlsat can build counter-models)
    ack_ms = min(timeout_ms, 12000)
    res2 = _forked(lambda: _z3_check_ack(hyps, goal, ack_ms, want_model), ack_ms / 1000.0 + 2.0)
    if res2 is not None and res2[0] in ("proved", "failed"):
        if res2[0] == "failed":
            FAILS["n"] += 1
        return res2[0], res2[1], "z3-ack", time.time() - t0, None
    # candidate counter-model from the hypotheses local to the goal
    loc = local_hyps(hyps, goal)
    res3 = _forked(lambda: _z3_check_ack(loc, goal, ack_ms, want_model), ack_ms / 1000.0 + 2.0)
    if res3 is not None and res3[0] == "proved":
        return "proved", None, "z3-ack-local", time.time() - t0, None
    weak = res3[1] if (res3 is not None and res3[0] == "failed") else None
    if weak is not None or FAILS["n"] >= 6:
        FAILS["n"] += 1
        if weak is not None:
            return "failed-weak", weak, "z3-ack-local", time.time() - t0, None
        return "unknown", None, "none", time.time() - t0, None
    if res is None:   # hard kill: build the SMT-LIB text in the parent (no solving)
        s = z3.Solver()
        for h in hyps:
            s.add(h)
        s.add(z3.Not(goal))
        smt2 = s.to_smt2()
    else:
        smt2 = res[2]
    # second opinions (z3 CLI, cvc5), each in a killable subprocess
    st, model, be, secs = backend.second_opinion(smt2, min(timeout_ms / 1000.0, 15.0))
    STATS["cvc5_queries"] += 1
    STATS["cvc5_secs"] += secs
    if st == "unknown":
        STATS["unknown"] += 1
        FAILS["n"] += 1
    return st, model, be, time.time() - t0, smt2


def quick_prove(hyps, goal, timeout_ms=1500):
    """cheap structural query (block alignment, empty blocks): True only if z3 proves it within the budget"""
    sub, dropped = relevant(hyps, goal)
    r = _forked(lambda: _z3_check(sub, goal, timeout_ms, False), timeout_ms / 1000.0 + 1.0)
    return r is not None and r[0] == "proved"


def feasible(extra, timeout_ms=3000):
    """is pc+ax+extra satisfiable?  unknown counts as feasible (sound: more paths)."""
    hyps = CTX.hyps() + list(extra)

    def q():
        s = z3.Solver()
        s.set("timeout", timeout_ms)
        for h in hyps:
            s.add(h)
        return (str(s.check()),)
    r = _forked(q, timeout_ms / 1000.0 + 2.0)
    return not (r is not None and r[0] == "unsat")


def check(name, goal, kind="ensures", note="", extra=(), fallback_extra=None, weak=False):
    """record a named obligation for the current path; a proved goal becomes a hypothesis.
    fallback_extra: hypotheses (e.g. revealed definitions of opaque cuts) tried only if the goal is not proved without.
    weak: the goal mentions uninterpreted stand-ins for real functions (sin, ellipk, ...): a counter-model may interpret them in a way
    the real functions do not allow, so a satisfiable negation is only a candidate (failed-weak) until the native replay confirms it."""
    c = CTX
    rp0 = getattr(c, "record_prefixes", None)
    if rp0 is not None and name[:1] == "C" and not name.startswith(rp0) and not getattr(c, "prove_unrecorded", False):
        # a contract-level obligation of another property in a shared proof unit: it is decided (and recorded) by that property's own check
        return True
    if isinstance(goal, SB):
        goal = goal.e
    elif isinstance(goal, bool):
        goal = z3.BoolVal(goal)
    elif isinstance(goal, (list, tuple)):
        goal = z3.And(*[g.e if isinstance(g, SB) else (z3.BoolVal(g) if isinstance(g, bool) else g) for g in goal])
    if z3.is_true(goal) or z3.is_true(z3.simplify(goal)):
        st, model, be, secs, smt2 = "proved", None, "simplify", 0.0, None
    elif z3.is_false(goal):
        # a constant-false goal is a violation only if the path is feasible: ask for a model of the path condition
        st, model, be, secs, smt2 = prove(c.hyps() + list(extra), goal) if (c.pc or c.ax) else ("failed", {}, "const", 0.0, None)
    else:
        st, model, be, secs, smt2 = prove(c.hyps() + list(extra), goal)
    if st != "proved" and fallback_extra:
        fb = fallback_extra() if callable(fallback_extra) else list(fallback_extra)
        st2, model2, be2, secs2, smt22 = prove(c.hyps() + list(extra) + fb, goal)
        secs += secs2
        if st2 == "proved" or st != "failed":
            st, model, be, smt2 = st2, model2, be2 + "+reveal", smt22
            extra = list(extra) + fb
    if weak and st == "failed":
        st = "failed-weak"
    o = Obl(c.prefix + name, st, model, be, secs, c.path_index, note, smt2, kind)
    rp = getattr(c, "record_prefixes", None)
    if rp is None or name.startswith(rp) or not name[:1] == "C":
        c.obls.append(o)
    if st == "proved":
        # a goal proved under extra (revealed) hypotheses is only valid under them
        if not extra:
            c.ax.append(goal)
    return st == "proved"


def check_terms(name, equal, note=""):
    """obligation decided in the free term algebra: syntactically equal terms are equal under every interpretation of the
    model functions (proved); different terms give NO semantic verdict -- the result is only a candidate (failed-weak) that
    the native replay has to confirm before it can count as a violation."""
    c = CTX
    st = "proved" if equal else "failed-weak"
    o = Obl(c.prefix + name, st, None if equal else {}, "term-equality", 0.0, c.path_index, note, None, "ensures")
    rp = getattr(c, "record_prefixes", None)
    if rp is None or name.startswith(rp) or not name[:1] == "C":
        c.obls.append(o)
    return equal


def assume(*conds):
    for g in conds:
        if isinstance(g, SB):
            g = g.e
        elif isinstance(g, bool):
            g = z3.BoolVal(g)
        CTX.pc.append(g)


def axiom(*conds):
    for g in conds:
        CTX.ax.append(g.e if isinstance(g, SB) else g)


LAST_EXPLORE = dict(consistent=None, canary=[])


def explore(run, max_paths=4096, setup=None, canary=True, **ctxkw):
    """path-complete exploration by re-execution.  run() is called once per path with a fresh Ctx.
    Returns (list[Obl], n_paths).  Must-fail canary: at the end of every path `False` is put to the prover under the
    path's hypotheses; if it is *proved* on every path the hypotheses are contradictory and everything 'verified'
    is vacuous (LAST_EXPLORE['consistent'] = False)."""
    work = [[]]
    out = []
    n = 0
    canaries = []
    while work:
        dec = work.pop()
        c = setctx(Ctx(dec))
        for k, v in ctxkw.items():
            setattr(c, k, v)
        c.path_index = n
        try:
            if setup:
                setup(c)
            run()
        except PathEnd:
            pass
        except Undecided as e:
            c.obls.append(Obl("engine.undecided", "unknown", None, "none", 0.0, n, str(e)[:300], None, "engine"))
        except (TypeError, AttributeError, NameError, IndexError, KeyError, ValueError, ZeroDivisionError, AssertionError) as e:
            # the code under test (or a model) raised on this path: no verdict from the prover; the native replay decides
            import traceback as _tb
            c.obls.append(Obl("engine.exception_on_path", "unknown", None, "none", 0.0, n, f"{type(e).__name__}: {e} @ {_tb.format_exc()[-400:]}", None, "engine"))
        # generated frame condition of every path of every unit: no instrumented module was left with a written module-level table (a memo keyed by
        # identity, code, path, size ...) - the package keeps no module-level state, so whatever a call leaves there is picked up by a later call.
        # Candidate (weak): counts as a violation only with a natively replayed failing input.
        try:
            from . import instrument as _ins
            if _ins.LOADED:
                wr_ = _ins.written_module_state()
                for mod_, names_ in wr_:
                    check(f"frame.module_state_unchanged@{mod_}", False, note=f"module-level tables written by the calls of this path: {names_}", weak=True)
                if not wr_:
                    check("frame.module_state_unchanged", True)
        except Exception:   # noqa - the frame scan must never turn into a verdict of its own
            pass
        if canary:
            hy = c.hyps()
            r = _forked(lambda: _z3_check(hy, z3.BoolVal(False), 4000, False), 6.0)
            canaries.append("unknown" if r is None else r[0])
        n += 1
        out.extend(c.obls)
        work.extend(c.pending)
        if n > max_paths:
            raise Undecided(f"path budget {max_paths} exceeded")
    LAST_EXPLORE["canary"] = canaries
    LAST_EXPLORE["consistent"] = (not canaries) or any(x != "proved" for x in canaries)
    return out, n


def consistent():
    return LAST_EXPLORE["consistent"]


# ----------------------------------------------------------------------------- booleans


def _b(x):
    if isinstance(x, SB):
        return x.e
    if isinstance(x, (bool,)):
        return z3.BoolVal(x)
    if z3.is_bool(x):
        return x
    raise TypeError(f"not a boolean: {x!r}")


class SB:
    """symbolic boolean; bool() forks the path"""
    __slots__ = ("e",)

    def __init__(self, e):
        self.e = z3.BoolVal(e) if isinstance(e, bool) else e

    def __bool__(self):
        c = CTX
        e = z3.simplify(self.e)
        if z3.is_true(e):
            return True
        if z3.is_false(e):
            return False
        if c.pos < len(c.decisions):
            d = c.decisions[c.pos]
        else:
            t_ok = feasible([e])
            f_ok = feasible([z3.Not(e)])
            if t_ok and f_ok:
                c.pending.append(c.decisions[:c.pos] + [False])
                d = True
            elif t_ok:
                d = True
            elif f_ok:
                d = False
            else:
                raise PathEnd("infeasible path")
            c.decisions.append(d)
        c.pos += 1
        c.pc.append(e if d else z3.Not(e))
        c.trace.append((str(e)[:80], d))
        return d

    def __and__(self, o):
        return SB(z3.And(self.e, _b(o)))
    __rand__ = __and__

    def __or__(self, o):
        return SB(z3.Or(self.e, _b(o)))
    __ror__ = __or__

    def __invert__(self):
        return SB(z3.Not(self.e))

    def __eq__(self, o):
        return SB(self.e == _b(o))

    def __ne__(self, o):
        return SB(self.e != _b(o))

    def __hash__(self):
        return hash(self.e)

    def __repr__(self):
        return f"SB({self.e})"

    # numpy-ish
    def any(self):
        return self

    def all(self):
        return self


def And(*xs):
    return SB(z3.And(*[_b(x) for x in xs]))


def Or(*xs):
    return SB(z3.Or(*[_b(x) for x in xs]))


def Not(x):
    return SB(z3.Not(_b(x)))


def Implies(a, b):
    return SB(z3.Implies(_b(a), _b(b)))


# ----------------------------------------------------------------------------- integers


def _is_num(x):
    return isinstance(x, (int, float)) and not isinstance(x, bool)


class SI:
    """symbolic integer (mathematical, A2)"""
    __slots__ = ("e",)

    def __init__(self, e):
        if isinstance(e, SI):
            e = e.e
        elif isinstance(e, bool):
            e = z3.IntVal(int(e))
        elif isinstance(e, int):
            e = z3.IntVal(e)
        self.e = e

    @staticmethod
    def lift(x):
        if isinstance(x, SI):
            return x
        if isinstance(x, (int,)):
            return SI(x)
        if hasattr(x, "__index__") and not isinstance(x, (SR, SC)):
            return SI(x.__index__())
        raise TypeError(f"not an integer: {x!r}")

    def concrete(self):
        v = z3.simplify(self.e)
        return v.as_long() if z3.is_int_value(v) else None

    def _bin(self, o, f, rf=None):
        if isinstance(o, SI):
            return SI(f(self.e, o.e))
        if isinstance(o, bool):
            o = int(o)
        if isinstance(o, int):
            return SI(f(self.e, z3.IntVal(o)))
        if isinstance(o, float):
            return f(SR(z3.ToReal(self.e)), SR(o))
        if isinstance(o, (SR, SC)):
            return f(SR(z3.ToReal(self.e)), o)
        return NotImplemented

    def __add__(self, o): return self._bin(o, lambda a, b: a + b)
    __radd__ = __add__
    def __sub__(self, o): return self._bin(o, lambda a, b: a - b)
    def __rsub__(self, o): return self._bin(o, lambda a, b: b - a)
    def __mul__(self, o): return self._bin(o, lambda a, b: a * b)
    __rmul__ = __mul__
    def __neg__(self): return SI(-self.e)
    def __pos__(self): return self

    def __mod__(self, o):
        o = SI.lift(o)
        if CTX.safety:
            check(_site("mod_nonzero"), o.e != 0, kind="safety")
        return SI(self.e % o.e)   # python semantics agree with z3 for positive modulus

    def __floordiv__(self, o):
        o = SI.lift(o)
        return SI(self.e / o.e)

    def __truediv__(self, o): return SR(z3.ToReal(self.e)) / o
    def __rtruediv__(self, o): return SR.lift(o) / SR(z3.ToReal(self.e))
    def __pow__(self, n): return SR(z3.ToReal(self.e)) ** n if not (isinstance(n, int) and n >= 0) else SI(_ipow(self.e, n))

    def _cmp(self, o, f):
        if isinstance(o, SI):
            return SB(f(self.e, o.e))
        if isinstance(o, bool):
            o = int(o)
        if isinstance(o, int):
            return SB(f(self.e, z3.IntVal(o)))
        if isinstance(o, float) or isinstance(o, SR):
            return SB(f(z3.ToReal(self.e), SR.lift(o).e))
        return NotImplemented

    def __lt__(self, o): return self._cmp(o, lambda a, b: a < b)
    def __le__(self, o): return self._cmp(o, lambda a, b: a <= b)
    def __gt__(self, o): return self._cmp(o, lambda a, b: a > b)
    def __ge__(self, o): return self._cmp(o, lambda a, b: a >= b)
    def __eq__(self, o):
        r = self._cmp(o, lambda a, b: a == b)
        return SB(False) if r is NotImplemented else r
    def __ne__(self, o):
        r = self._cmp(o, lambda a, b: a != b)
        return SB(True) if r is NotImplemented else r
    def __hash__(self): return hash(self.e)
    def __bool__(self): return bool(SB(self.e != 0))
    def __repr__(self): return f"SI({self.e})"
    def __format__(self, spec):
        tok = f"<sym:{str(self.e)[:24]}>"
        FORMATTED.setdefault(tok, []).append(self)       # so that a model of a keyed store can map f"data/{i}" back to the index term
        return tok
    def __float__(self): raise TypeError("symbolic int has no concrete float value; use the float model")
    def __index__(self):
        v = self.concrete()
        if v is None:
            raise Unsupported(f"symbolic int used as a concrete index: {self.e}")
        return v


FORMATTED = {}


def unformat(token):
    """the symbolic int that was formatted as `token` (None if unknown; Unsupported if two different terms share the token)"""
    xs = FORMATTED.get(token)
    if not xs:
        return None
    for x in xs[1:]:
        if not x.e.eq(xs[0].e):
            raise Unsupported(f"ambiguous formatted symbol {token}")
    return xs[0]


def _ipow(e, n):
    r = z3.IntVal(1) if z3.is_int(e) else z3.RealVal(1)
    for _ in range(n):
        r = r * e
    return r


# ----------------------------------------------------------------------------- reals


def _rv(x):
    if isinstance(x, bool):
        return z3.RealVal(int(x))
    if isinstance(x, int):
        return z3.RealVal(x)
    if isinstance(x, float):
        if x != x or x in (float("inf"), float("-inf")):
            raise Unsupported("non-finite float constant in real arithmetic")
        from fractions import Fraction
        f = Fraction(repr(x)) if "e" not in repr(x).lower() or True else Fraction(x)
        return z3.RealVal(str(f))
    raise TypeError(x)


_POW = z3.Function("Pow", z3.RealSort(), z3.RealSort(), z3.RealSort())


class SR:
    """symbolic real (floats as mathematical reals, A1)"""
    __slots__ = ("e", "sq_of")

    def __init__(self, e, sq_of=None):
        if isinstance(e, SR):
            e = e.e
        elif isinstance(e, SI):
            e = z3.ToReal(e.e)
        elif isinstance(e, (int, float)):
            e = _rv(e)
        elif z3.is_int(e):
            e = z3.ToReal(e)
        self.e = e
        self.sq_of = sq_of    # if this real is |c| of a complex c: the term re^2+im^2 (so that |c|**2 needs no sqrt)

    @staticmethod
    def lift(x):
        if isinstance(x, SR):
            return x
        if isinstance(x, (SI, int, float)):
            return SR(x)
        if isinstance(x, SC):
            raise TypeError("complex used where a real is required")
        if hasattr(x, "__float__"):
            return SR(float(x))
        raise TypeError(f"not a real: {x!r}")

    def concrete(self):
        v = z3.simplify(self.e)
        if z3.is_rational_value(v):
            return v.numerator_as_long() / v.denominator_as_long()
        return None

    def _coerce(self, o):
        if isinstance(o, SR):
            return o
        if isinstance(o, (SI, int, float)) and not isinstance(o, bool):
            return SR(o)
        if isinstance(o, bool):
            return SR(int(o))
        return None

    def __add__(self, o):
        if isinstance(o, (SC, complex)):
            return SC.lift(self) + o
        p = self._coerce(o)
        return NotImplemented if p is None else SR(self.e + p.e)
    __radd__ = __add__

    def __sub__(self, o):
        if isinstance(o, (SC, complex)):
            return SC.lift(self) - o
        p = self._coerce(o)
        return NotImplemented if p is None else SR(self.e - p.e)

    def __rsub__(self, o):
        if isinstance(o, (SC, complex)):
            return SC.lift(o) - SC.lift(self)
        p = self._coerce(o)
        return NotImplemented if p is None else SR(p.e - self.e)

    def __mul__(self, o):
        if isinstance(o, (SC, complex)):
            return SC.lift(self) * o
        p = self._coerce(o)
        return NotImplemented if p is None else SR(self.e * p.e)
    __rmul__ = __mul__

    def __neg__(self): return SR(-self.e)
    def __pos__(self): return self
    def __abs__(self): return SR(z3.If(self.e >= 0, self.e, -self.e))

    def __truediv__(self, o):
        if isinstance(o, (SC, complex)):
            return SC.lift(self) / o
        p = self._coerce(o)
        if p is None:
            return NotImplemented
        return real_div(self, p)

    def __rtruediv__(self, o):
        if isinstance(o, (SC, complex)):
            return SC.lift(o) / SC.lift(self)
        p = self._coerce(o)
        return NotImplemented if p is None else real_div(p, self)

    def __pow__(self, n):
        if isinstance(n, SI):
            n = n.concrete()
        if isinstance(n, float) and n == int(n):
            n = int(n)
        if isinstance(n, int):
            if n == 2 and self.sq_of is not None:
                return SR(self.sq_of)
            if n >= 0:
                return SR(_ipow(self.e, n))
            return SR(1) / SR(_ipow(self.e, -n))
        if isinstance(n, float) and n * 2 == int(n * 2):     # half-integer power: sqrt(x)**k
            k = int(n * 2)
            s = real_sqrt(self)
            return s ** k
        if isinstance(n, (SR, float)):
            return SR(_POW(self.e, SR.lift(n).e))          # uninterpreted power (A3)
        raise Unsupported(f"real power {n!r}")

    def __rpow__(self, base):
        return SR(_POW(SR.lift(base).e, self.e))

    def _cmp(self, o, f):
        if isinstance(o, float) and o in (float("inf"), float("-inf")):
            return SB(bool(f(0.0, o)))      # every real compares with +-inf like 0.0 does
        p = self._coerce(o)
        return NotImplemented if p is None else SB(f(self.e, p.e))

    def __lt__(self, o): return self._cmp(o, lambda a, b: a < b)
    def __le__(self, o): return self._cmp(o, lambda a, b: a <= b)
    def __gt__(self, o): return self._cmp(o, lambda a, b: a > b)
    def __ge__(self, o): return self._cmp(o, lambda a, b: a >= b)
    def __eq__(self, o):
        r = self._cmp(o, lambda a, b: a == b)
        return SB(False) if r is NotImplemented else r
    def __ne__(self, o):
        r = self._cmp(o, lambda a, b: a != b)
        return SB(True) if r is NotImplemented else r
    def __hash__(self): return hash(self.e)
    def __bool__(self): return bool(SB(self.e != 0))
    def __repr__(self): return f"SR({self.e})"
    def __format__(self, spec): return f"<sym:{str(self.e)[:24]}>"
    def __float__(self):
        v = self.concrete()
        if v is None:
            raise Unsupported("float() of a symbolic real; use the float model")
        return v

    real = property(lambda s: s)
    imag = property(lambda s: SR(0))
    def conjugate(self): return self
    conj = conjugate

    # numpy scalar protocol bits
    def max(self): return self
    def min(self): return self


def _is_const(e):
    v = z3.simplify(e)
    return z3.is_rational_value(v), v


def _site(kind):
    """name an implicit safety obligation after the repository function it arises in + ordinal (not line)"""
    import sys as _s
    f = _s._getframe(2)
    fn = "?"
    while f is not None:
        if f.f_code.co_filename.startswith("<real:"):
            fn = f.f_code.co_name
            break
        f = f.f_back
    c = CTX
    k = ("site", kind, fn)
    c.ghost[k] = c.ghost.get(k, 0) + 1
    return f"safety.{kind}@{fn}#{c.ghost[k]}"


_SQRT = z3.Function("Sqrt", z3.RealSort(), z3.RealSort())
_INV = z3.Function("Inv", z3.RealSort(), z3.RealSort())


def uf_axioms(terms):
    """definitional instances for every ground application of the ghost functions Sqrt / Inv occurring in the terms:
    t >= 0 => Sqrt(t) >= 0 and Sqrt(t)^2 = t;   t != 0 => t * Inv(t) = 1   (used in kernel mode, ctx.uf_math)"""
    out = []
    seen = set()
    todo = list(terms)
    while todo:
        t = todo.pop()
        if t.get_id() in seen:
            continue
        seen.add(t.get_id())
        if z3.is_quantifier(t):
            continue
        if z3.is_app(t):
            d = t.decl()
            if d.eq(_SQRT):
                a = t.children()[0]
                out.append(z3.Implies(a >= 0, z3.And(t >= 0, t * t == a)))
            elif d.eq(_INV):
                a = t.children()[0]
                out.append(z3.Implies(a != 0, a * t == 1))
            todo.extend(t.children())
    return out


def real_div(num: SR, den: SR, label=None):
    isc, v = _is_const(den.e)
    if isc:
        if v.numerator_as_long() == 0:
            raise ZeroDivisionError("division by the constant zero")
        return SR(num.e / v)
    c = CTX
    if getattr(c, "uf_math", False):
        if c.safety:
            check(label or _site("div_nonzero"), den.e != 0, kind="safety")
        inv = _INV(den.e)
        c.ax.extend(uf_axioms([inv]))
        return SR(num.e * inv)
    q = FreshReal("q")
    for (n0, d0, q0) in c.ghost.setdefault("divs", []):
        if n0.eq(num.e) and d0.eq(den.e):
            return SR(q0)
    c.ghost["divs"].append((num.e, den.e, q))
    if c.safety:
        ok = check(label or _site("div_nonzero"), den.e != 0, kind="safety")
    else:
        ok = False
    if ok:
        c.ax.append(q * den.e == num.e)
    else:
        c.ax.append(z3.Implies(den.e != 0, q * den.e == num.e))
    return SR(q)


def congruence_axioms():
    """functional-congruence instances for the fresh sqrt / quotient symbols of the current path
    (equal arguments give equal results).  Not added by default (they blow up nlsat); pass as `extra`."""
    c = CTX
    out = []
    sq = c.ghost.get("sqrts", [])
    for i in range(len(sq)):
        for j in range(i):
            out.append(z3.Implies(sq[i][0] == sq[j][0], sq[i][1] == sq[j][1]))
    dv = c.ghost.get("divs", [])
    for i in range(len(dv)):
        for j in range(i):
            out.append(z3.Implies(z3.And(dv[i][0] == dv[j][0], dv[i][1] == dv[j][1]), dv[i][2] == dv[j][2]))
    return out


def real_sqrt(x: SR, label=None):
    x = SR.lift(x)
    isc, v = _is_const(x.e)
    c = CTX
    if isc:
        import math
        from fractions import Fraction
        fr = Fraction(v.numerator_as_long(), v.denominator_as_long())
        r = math.isqrt(fr.numerator) if fr.numerator >= 0 else -1
        d = math.isqrt(fr.denominator)
        if r >= 0 and r * r == fr.numerator and d * d == fr.denominator:
            return SR(z3.RealVal(f"{r}/{d}"))
    if getattr(c, "uf_math", False):
        if c.safety:
            check(label or _site("sqrt_arg_nonneg"), x.e >= 0, kind="safety")
        t = _SQRT(x.e)
        c.ax.extend(uf_axioms([t]))
        return SR(t)
    s = FreshReal("sqrt")
    for (a0, s0) in c.ghost.setdefault("sqrts", []):
        if a0.eq(x.e):
            return SR(s0)
    c.ghost["sqrts"].append((x.e, s))
    if c.safety:
        ok = check(label or _site("sqrt_arg_nonneg"), x.e >= 0, kind="safety")
    else:
        ok = False
    if ok:
        c.ax.append(z3.And(s >= 0, s * s == x.e))
    else:
        c.ax.append(z3.Implies(x.e >= 0, z3.And(s >= 0, s * s == x.e)))
    return SR(s)


# ----------------------------------------------------------------------------- complex


class SC:
    """symbolic complex = pair of reals"""
    __slots__ = ("re", "im")

    def __init__(self, re, im=0):
        self.re = SR.lift(re)
        self.im = SR.lift(im)

    @staticmethod
    def lift(x):
        if isinstance(x, SC):
            return x
        if isinstance(x, complex):
            return SC(x.real, x.imag)
        if isinstance(x, (SR, SI, int, float)):
            return SC(SR.lift(x), SR(0))
        raise TypeError(f"not a complex: {x!r}")

    def _c(self, o):
        try:
            return SC.lift(o)
        except TypeError:
            return None

    def __add__(self, o):
        p = self._c(o)
        return NotImplemented if p is None else SC(self.re + p.re, self.im + p.im)
    __radd__ = __add__

    def __sub__(self, o):
        p = self._c(o)
        return NotImplemented if p is None else SC(self.re - p.re, self.im - p.im)

    def __rsub__(self, o):
        p = self._c(o)
        return NotImplemented if p is None else SC(p.re - self.re, p.im - self.im)

    def __mul__(self, o):
        if isinstance(o, (SR, SI, int, float)):
            o = SR.lift(o)
            return SC(self.re * o, self.im * o)
        p = self._c(o)
        if p is None:
            return NotImplemented
        return SC(self.re * p.re - self.im * p.im, self.re * p.im + self.im * p.re)
    __rmul__ = __mul__

    def __neg__(self): return SC(-self.re, -self.im)

    def __truediv__(self, o):
        if isinstance(o, (SR, SI, int, float)):
            o = SR.lift(o)
            return SC(self.re / o, self.im / o)
        p = self._c(o)
        if p is None:
            return NotImplemented
        d = p.re * p.re + p.im * p.im
        n = self * p.conjugate()
        return SC(n.re / d, n.im / d)

    def __rtruediv__(self, o):
        return SC.lift(o) / self

    def __pow__(self, n):
        if isinstance(n, int) and n >= 0:
            r = SC(1, 0)
            for _ in range(n):
                r = r * self
            return r
        raise Unsupported(f"complex power {n!r}")

    def conjugate(self): return SC(self.re, -self.im)
    conj = conjugate
    real = property(lambda s: s.re)
    imag = property(lambda s: s.im)

    def abs2(self):
        return self.re * self.re + self.im * self.im

    def __abs__(self):
        a2 = self.abs2()
        s = real_sqrt(a2, label=_site("abs_sqrt_arg"))
        return SR(s.e, sq_of=a2.e)

    def __eq__(self, o):
        p = self._c(o)
        return SB(False) if p is None else SB(z3.And(self.re.e == p.re.e, self.im.e == p.im.e))

    def __ne__(self, o):
        return Not(self == o)

    def __hash__(self): return hash((self.re.e, self.im.e))
    def __repr__(self): return f"SC({self.re.e}, {self.im.e})"


def eq(a, b):
    """z3 equality of two symbolic scalars (real, int or complex)"""
    if isinstance(a, SC) or isinstance(b, SC) or isinstance(a, complex) or isinstance(b, complex):
        a, b = SC.lift(a), SC.lift(b)
        return z3.And(a.re.e == b.re.e, a.im.e == b.im.e)
    if isinstance(a, SI) and isinstance(b, (SI, int)):
        return a.e == SI.lift(b).e
    if isinstance(a, SB) or isinstance(b, SB) or isinstance(a, bool) and isinstance(b, bool):
        return _b(a) == _b(b)
    return SR.lift(a).e == SR.lift(b).e


def ite(c, a, b):
    c = _b(c)
    if isinstance(a, SC) or isinstance(b, SC):
        a, b = SC.lift(a), SC.lift(b)
        return SC(SR(z3.If(c, a.re.e, b.re.e)), SR(z3.If(c, a.im.e, b.im.e)))
    if isinstance(a, SB) or isinstance(b, SB):
        return SB(z3.If(c, _b(a), _b(b)))
    if isinstance(a, (SI, int)) and isinstance(b, (SI, int)) and not isinstance(a, bool):
        return SI(z3.If(c, SI.lift(a).e, SI.lift(b).e))
    return SR(z3.If(c, SR.lift(a).e, SR.lift(b).e))


# ----------------------------------------------------------------------------- unit complex numbers cis(theta)

_cos = z3.Function("cos", z3.RealSort(), z3.RealSort())
_sin = z3.Function("sin", z3.RealSort(), z3.RealSort())


def _monomials(e):
    """decompose a real z3 term into [(rational coeff, monomial term or None)] (sum of monomials)."""
    e = z3.simplify(e, som=True)
    terms = []

    def add_term(t, sign=1):
        from fractions import Fraction
        if z3.is_rational_value(t):
            terms.append((sign * Fraction(t.numerator_as_long(), t.denominator_as_long()), None))
            return
        if z3.is_app_of(t, z3.Z3_OP_MUL):
            coeff = Fraction(1)
            rest = []
            for ch in t.children():
                if z3.is_rational_value(ch):
                    coeff *= Fraction(ch.numerator_as_long(), ch.denominator_as_long())
                else:
                    rest.append(ch)
            if not rest:
                terms.append((sign * coeff, None))
            else:
                mono = rest[0] if len(rest) == 1 else z3.Product(*rest) if hasattr(z3, "Product") else _prod(rest)
                terms.append((sign * coeff, mono))
            return
        if z3.is_app_of(t, z3.Z3_OP_UMINUS):
            add_term(t.children()[0], -sign)
            return
        terms.append((sign * 1, t))

    if z3.is_app_of(e, z3.Z3_OP_ADD):
        for ch in e.children():
            add_term(ch)
    else:
        add_term(e)
    return terms


def _prod(xs):
    r = xs[0]
    for x in xs[1:]:
        r = r * x
    return r


def cis_atom(theta):
    """cis of an atomic angle: (cos, sin) pair with the unit-circle axiom instance"""
    c = CTX
    co, si = _cos(theta), _sin(theta)
    key = ("cis", theta.get_id())
    if key not in c.ghost:
        c.ghost[key] = True
        c.ax.append(co * co + si * si == 1)
        c.ax.append(z3.Implies(theta == 0, z3.And(co == 1, si == 0)))      # cis(0) = 1
    return SC(SR(co), SR(si))


def cis(theta):
    """exp(i*theta) for a real symbolic theta (A3): normalised to a product of atomic unit complex numbers
    so that cis(a+b) = cis(a)cis(b) and cis(-a) = conj(cis(a)) hold by construction."""
    theta = SR.lift(theta).e
    res = SC(1, 0)
    for coeff, mono in _monomials(theta):
        if mono is None:
            if coeff == 0:
                continue
            raise Unsupported("cis of a non-zero constant angle")
        if coeff.denominator != 1:
            mono = z3.simplify(z3.RealVal(str(abs(coeff))) * mono)
            n = 1 if coeff > 0 else -1
        else:
            n = int(coeff)
        a = cis_atom(mono)
        if n < 0:
            a = a.conjugate()
            n = -n
        for _ in range(n):
            res = res * a
    return res


def cexp(x):
    """model of exp() on real or purely imaginary arguments"""
    if isinstance(x, (SC, complex)):
        x = SC.lift(x)
        isc, v = _is_const(x.re.e)
        if not (isc and v.numerator_as_long() == 0):
            raise Unsupported("exp of a complex number with non-zero real part")
        return cis(x.im)
    raise Unsupported("exp of a real argument (A3: uninterpreted)")


import os as _os
if _os.environ.get("PYVC_TRACE"):
    _check0 = check

    def check(name, goal, kind="ensures", note="", extra=(), fallback_extra=None):  # noqa: F811
        import sys as _s
        t = time.time()
        print(f"  [trace] {name} ...", end="", file=_s.stderr, flush=True)
        r = _check0(name, goal, kind, note, extra, fallback_extra)
        print(f" {CTX.obls[-1].status} {time.time()-t:.2f}s ({CTX.obls[-1].backend})", file=_s.stderr, flush=True)
        return r
