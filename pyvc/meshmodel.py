"""pyvc.meshmodel -- a symbolic mesh: the REAL tdgl Mesh / EdgeMesh classes instantiated through __new__ with symbolic
fields (no bound on the number of sites N, edges E, boundary edges Bn, pinned sites F), plus valid_mesh axioms.

valid_mesh (DESIGN.md section 4): edges[e] = (i_e, j_e), 0 <= i_e < j_e < N, distinct edges have distinct pairs,
areas > 0, edge_lengths > 0, boundary_edge_indices strictly increasing in [0, E), fixed sites in [0, N).
Geometric facts the code cannot establish (areas > 0, dual_edge_lengths >= 0) are explicit hypotheses.
"""
import z3

from . import sym
from .arr import SymArray, I, R
from .sym import SI, SR, SC, SB


class SymMesh:
    def __init__(self, with_fixed=True, tag=""):
        t = tag
        self.N = SI(z3.Int("N" + t))
        self.E = SI(z3.Int("E" + t))
        self.Bn = SI(z3.Int("Bn" + t))
        self.F = SI(z3.Int("F" + t))
        self.i = z3.Function("i" + t, I, I)
        self.j = z3.Function("j" + t, I, I)
        self.area = z3.Function("area" + t, I, R)
        self.elen = z3.Function("elen" + t, I, R)
        self.dual = z3.Function("dual" + t, I, R)
        self.dir = z3.Function("dir" + t, I, I, R)
        self.site = z3.Function("site" + t, I, I, R)
        self.centre = z3.Function("centre" + t, I, I, R)
        self.bidx = z3.Function("bidx" + t, I, I)
        self.fx = z3.Function("fixed_site" + t, I, I)
        self.isfixed = z3.Function("isfixed" + t, I, z3.BoolSort())
        self.fixidx = z3.Function("fixed_index_of" + t, I, I)
        self.with_fixed = with_fixed
        from tdgl.finite_volume.mesh import Mesh
        from tdgl.finite_volume.edge_mesh import EdgeMesh
        em = EdgeMesh.__new__(EdgeMesh)
        em.edges = SymArray((self.E, 2), lambda k, c: SI(z3.If(c.e == 0, self.i(k.e), self.j(k.e))), kind="i")
        em.directions = SymArray((self.E, 2), lambda k, c: SR(self.dir(k.e, c.e)))
        em.centers = SymArray((self.E, 2), lambda k, c: SR(self.centre(k.e, c.e)))
        em.edge_lengths = SymArray((self.E,), lambda k: self.l(k.e))
        em.dual_edge_lengths = SymArray((self.E,), lambda k: self.s(k.e))
        em.boundary_edge_indices = SymArray((self.Bn,), lambda k: SI(self.bidx(k.e)), kind="i")
        em.normalized_directions = SymArray((self.E, 2), lambda k, c: SR(self.dir(k.e, c.e)) / self.l(k.e))
        m = Mesh.__new__(Mesh)
        m.sites = SymArray((self.N, 2), lambda k, c: SR(self.site(k.e, c.e)))
        m.areas = SymArray((self.N,), lambda k: self.a(k.e))
        m.edge_mesh = em
        m.elements = None
        m.boundary_indices = None
        m.dual_sites = None
        m.voronoi_polygons = None
        m._center_of_mass = None
        self.mesh = m
        self.edge_mesh = em
        fs = SymArray((self.F,), lambda k: SI(self.fx(k.e)), kind="i")
        fs.member = lambda v: self.isfixed(SI.lift(v).e)
        self.fixed_sites = fs

    # positive geometric quantities: the positivity instance is registered when the term is created (no quantifier)
    def _pos(self, f, t, strict=True):
        c = sym.ctx()
        term = f(t)
        key = ("pos", term.get_id())
        if key not in c.ghost:
            c.ghost[key] = True
            c.ax.append(term > 0 if strict else term >= 0)
        return SR(term)

    def a(self, site):
        """area of a site (term), > 0"""
        return self._pos(self.area, site.e if isinstance(site, SI) else site)

    def l(self, e):
        """edge length, > 0"""
        return self._pos(self.elen, e.e if isinstance(e, SI) else e)

    def s(self, e):
        """dual edge length, >= 0"""
        return self._pos(self.dual, e.e if isinstance(e, SI) else e, strict=False)

    def fixed_axioms(self, idxs):
        """instances of: fixed_sites lists sites in [0,N) once; isfixed is its membership predicate (Skolem index fixidx)"""
        ax = []
        for k in idxs:
            ax.append(z3.Implies(z3.And(k.e >= 0, k.e < self.F.e),
                                 z3.And(self.isfixed(self.fx(k.e)), self.fx(k.e) >= 0, self.fx(k.e) < self.N.e, self.fixidx(self.fx(k.e)) == k.e)))
        for a in idxs:
            for b in idxs:
                if a is not b:
                    ax.append(z3.Implies(z3.And(a.e >= 0, a.e < self.F.e, b.e >= 0, b.e < self.F.e, a.e != b.e), self.fx(a.e) != self.fx(b.e)))
        return ax

    def member_axioms(self, site_terms):
        """isfixed(v) => v = fx(fixidx(v)) with fixidx(v) in [0,F)"""
        return [z3.Implies(self.isfixed(v), z3.And(self.fixidx(v) >= 0, self.fixidx(v) < self.F.e, self.fx(self.fixidx(v)) == v)) for v in site_terms]

    def base_axioms(self):
        q = z3.Int("q")
        ax = [self.E.e >= 1, self.N.e >= 2, self.F.e >= 0, self.Bn.e >= 0, self.Bn.e <= self.E.e]
        return ax

    def edge_axioms(self, idxs):
        """valid_mesh instances for the given edge-index terms (SI)"""
        ax = []
        for k in idxs:
            ax.append(z3.Implies(z3.And(k.e >= 0, k.e < self.E.e),
                                 z3.And(self.i(k.e) >= 0, self.i(k.e) < self.j(k.e), self.j(k.e) < self.N.e)))
        for a in idxs:
            for b in idxs:
                if a is not b:
                    ax.append(z3.Implies(z3.And(a.e >= 0, a.e < self.E.e, b.e >= 0, b.e < self.E.e, a.e != b.e),
                                         z3.Or(self.i(a.e) != self.i(b.e), self.j(a.e) != self.j(b.e))))
        return ax

    def boundary_axioms(self, idxs):
        ax = []
        for k in idxs:
            ax.append(z3.Implies(z3.And(k.e >= 0, k.e < self.Bn.e), z3.And(self.bidx(k.e) >= 0, self.bidx(k.e) < self.E.e)))
        for a in idxs:
            for b in idxs:
                if a is not b:
                    ax.append(z3.Implies(z3.And(a.e >= 0, a.e < self.Bn.e, b.e >= 0, b.e < self.Bn.e, a.e != b.e),
                                         self.bidx(a.e) != self.bidx(b.e)))
        return ax

    def geometry_axioms(self, idxs):
        """directions/lengths/centres are those of the site pairs (postcondition of EdgeMesh.from_mesh, C07.edge_geometry)"""
        ax = []
        for k in idxs:
            e = k.e
            dx = self.site(self.j(e), 0) - self.site(self.i(e), 0)
            dy = self.site(self.j(e), 1) - self.site(self.i(e), 1)
            ax += [self.dir(e, 0) == dx, self.dir(e, 1) == dy, self.elen(e) * self.elen(e) == dx * dx + dy * dy,
                   self.centre(e, 0) == (self.site(self.j(e), 0) + self.site(self.i(e), 0)) / 2,
                   self.centre(e, 1) == (self.site(self.j(e), 1) + self.site(self.i(e), 1)) / 2]
        return ax

    def A_field(self, name):
        """an arbitrary real vector potential on the edges (E x 2)"""
        return SymArray.input(name, (self.E, 2))


def block_eval(block, k):
    n, g, r, c, v = block
    return (n, (g(k) if g else z3.BoolVal(True)), r(k), c(k), v(k))


def compare_blocks(name, got, spec, hyp_extra, axioms_for, drop_empty=True, allow_perm=False):
    """block-wise matrix equality at the generic index: for each pair (len, guard, row, col, val) equal.
    Sufficient, not necessary: a mismatch in block structure is *undecided*, a failed component is a failed obligation."""
    c = sym.ctx()
    if drop_empty:
        got = [b for b in got if not sym.quick_prove(c.hyps() + hyp_extra, b[0].e == 0)]
    if len(got) != len(spec):
        raise sym.Undecided(f"{name}: assembled matrix has {len(got)} non-empty blocks, the stencil has {len(spec)}")
    ok = True
    # align blocks up to permutation: a got-block matches the spec-block with provably equal (len, row, col)
    remaining = list(range(len(spec)))
    pairs = []
    for bi, g in enumerate(got):
        k = SI(sym.FreshInt("k"))
        n1, g1, r1, c1, v1 = block_eval(g, k)
        found = None
        # syntactic candidates first (same simplified row/col terms), solver only when needed
        def syn(si):
            n2, g2, r2, c2, v2 = block_eval(spec[si], k)
            return z3.simplify(r1.e).eq(z3.simplify(r2.e)) and z3.simplify(c1.e).eq(z3.simplify(c2.e)) and z3.simplify(n1.e).eq(z3.simplify(n2.e))
        cands = [si for si in remaining if syn(si)]
        if len(cands) == 1:
            found = cands[0]
        else:
            for si in (cands or remaining):
                n2, g2, r2, c2, v2 = block_eval(spec[si], k)
                h = c.hyps() + hyp_extra + axioms_for([k]) + [k.e >= 0, k.e < n1.e, g1]
                if sym.quick_prove(h, z3.And(n1.e == n2.e, r1.e == r2.e, c1.e == c2.e, sym.eq(v1, v2)), 3000):
                    found = si
                    break
        if found is None:
            found = remaining[0] if bi >= len(spec) or bi not in remaining else bi   # report against the same position
        remaining.remove(found)
        pairs.append((bi, found))
    for bi, si in pairs:
        g, s = got[bi], spec[si]
        k = SI(sym.FreshInt("k"))
        n1, g1, r1, c1, v1 = block_eval(g, k)
        n2, g2, r2, c2, v2 = block_eval(s, k)
        h = hyp_extra + axioms_for([k]) + [k.e >= 0, k.e < n1.e]
        ok &= sym.check(f"{name}.block{si}.len", n1.e == n2.e, extra=hyp_extra)
        ok &= sym.check(f"{name}.block{si}.guard", g1 == g2, extra=h)
        ok &= sym.check(f"{name}.block{si}.row", z3.Implies(g1, r1.e == r2.e), extra=h)
        ok &= sym.check(f"{name}.block{si}.col", z3.Implies(g1, c1.e == c2.e), extra=h)
        ok &= sym.check(f"{name}.block{si}.val", z3.Implies(g1, sym.eq(v1, v2)), extra=h)
    return ok
