"""pyvc.vc -- the object bound to `_pyvc` in instrumented code: opaque cuts and loop cuts."""
import z3

from . import sym
from .sym import SB, SC, SI, SR, CTX, PathEnd, Undecided, Unsupported, FreshReal, FreshInt, check, assume


def opaque_scalar(name, v):
    """replace a symbolic scalar by a fresh symbol; the definition is remembered in ctx.ghost['reveal'][name]"""
    c = sym.ctx()
    rev = c.ghost.setdefault("reveal", {})
    if isinstance(v, SC):
        f = SC(SR(FreshReal(name + "_re")), SR(FreshReal(name + "_im")))
        rev.setdefault(name, []).append(z3.And(f.re.e == v.re.e, f.im.e == v.im.e))
    elif isinstance(v, SR):
        f = SR(FreshReal(name))
        rev.setdefault(name, []).append(f.e == v.e)
    elif isinstance(v, SI):
        f = SI(FreshInt(name))
        rev.setdefault(name, []).append(f.e == v.e)
    else:
        return v
    c.ghost.setdefault("opaque", {})[name] = f
    c.ghost.setdefault("opaque_def", {})[name] = v
    return f


def reveal(*names):
    """hypotheses defining the opaque names (for obligations that need the definition)"""
    c = sym.ctx()
    out = []
    for n in names:
        out += c.ghost.get("reveal", {}).get(n, [])
    return out


class VC:
    """default _pyvc object: opaque cuts only (no loop contracts)"""

    def __init__(self, loops=None):
        self.loops = loops or {}

    def opaque(self, name, v):
        if hasattr(v, "opaque"):
            return v.opaque(name)
        return opaque_scalar(name, v)

    # loop protocol (contracts: pyvc.loops.LoopSpec)
    def forever(self):
        from .loops import Forever
        return Forever()

    def cut(self, label, it, getters, order, aug=()):
        spec = self.loops.get(label)
        if spec is None:
            raise Undecided(f"no loop contract for {label}")
        spec.order = list(order)
        spec.assigned = set(order)
        spec.aug = set(aug)
        return spec.cut(self, label, it, getters)

    def havoc_locals(self, label):
        return self.loops[label].havoc_values()

    def exit_locals(self, label, targets=()):
        return self.loops[label].exit_values(targets)
