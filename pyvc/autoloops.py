"""pyvc.autoloops -- loop contracts of two fixed shapes whose inductive invariant is generated mechanically from the
REAL loop body (executed once for the generic index), with the side conditions that make the invariant inductive
checked as obligations.

SumLoop (reduction):   for j in range(lo, hi): ...; acc += f(j)      (several accumulators allowed)
    invariant  acc == acc_entry + Sum_{lo <= t < j} f(t);  f(j) is what the body adds at the generic j.
    side conditions: the increment does not depend on the accumulator nor on any other loop-carried local
    (temporaries are assigned before they are read), no array is written.
    exit: acc == acc_entry + GS(hi, free indices) with GS a ghost function defined by that summand (SUMMARY).

MapLoop (parallel map): for i in prange(lo, hi): ...; out[.., i, ..] = v(i)
    invariant  positions whose looped coordinate is < i hold their final value v, all other positions are untouched.
    side conditions (this is race freedom, C09): every write of iteration i has the loop variable as one coordinate,
    the body reads no array it writes, written values do not depend on loop-carried locals.
    exit: the array's element function becomes ite(lo <= x_d < hi and region, v[i := x_d], old).

Summaries found on the 'iterate' path are stored in SUMMARY and applied on the 'exhausted' path (depth-first
exploration guarantees the order)."""
import z3

from . import sym, loops
from .arr import SymArray
from .sym import SB, SC, SI, SR, PathEnd, Undecided, FreshInt, FreshReal, check

SUMMARY = {}


def reset():
    SUMMARY.clear()


class Region:
    """a set of array positions written with a value: eqs {dim: index term}, ranges {dim: (lo, hi)}, binds [(const, dim)]"""

    def __init__(self, name, ndim, eqs, ranges, val, binds):
        self.name, self.ndim, self.eqs, self.ranges, self.val, self.binds = name, ndim, dict(eqs), dict(ranges), val, list(binds)

    def _sub(self, t, coords):
        if not self.binds:
            return t
        return z3.substitute(t, *[(c, coords[d].e) for (c, d) in self.binds])

    def cond(self, coords):
        cs = []
        for d, t in self.eqs.items():
            cs.append(coords[d].e == self._sub(t, coords))
        for d, (lo, hi) in self.ranges.items():
            cs.append(z3.And(coords[d].e >= self._sub(lo, coords), coords[d].e < self._sub(hi, coords)))
        return z3.And(*cs) if cs else z3.BoolVal(True)

    def value(self, coords):
        v = self.val
        if isinstance(v, SC):
            return SC(SR(self._sub(v.re.e, coords)), SR(self._sub(v.im.e, coords)))
        if isinstance(v, SI):
            return SI(self._sub(v.e, coords))
        return SR(self._sub(SR.lift(v).e, coords))

    def generalise(self, const, lo, hi):
        """summary over const in [lo, hi): needs a coordinate equal to the loop variable"""
        for d, t in self.eqs.items():
            if t.eq(const):
                eqs = {k: v for k, v in self.eqs.items() if k != d}
                ranges = dict(self.ranges)
                ranges[d] = (lo, hi)
                return Region(self.name, self.ndim, eqs, ranges, self.val, self.binds + [(const, d)])
        return None


def apply_region(arr, region):
    old = SymArray(arr.shape, arr._fn, arr.guard)
    old._memo = arr._memo

    def fn(*x):
        return sym.ite(region.cond(x), region.value(x), old.at(*x))
    arr._fn = fn
    arr._memo = {}
    arr._touch()
    sym.ctx().ghost.setdefault("regions", []).append((arr, region))


def _mentions(term, consts):
    names = sym._consts(term)
    return [c for c in consts if c.decl().name() in names]


class _Auto(loops.LoopSpec):
    def __init__(self, label, name=None):
        super().__init__(label, inv=lambda loc, i: [], name=name or label)

    def _arrays(self, loc):
        return {k: v for k, v in loc.items() if isinstance(v, SymArray)}


class SumLoop(_Auto):
    kind = "sum"

    def cut(self, vc, label, it, getters):
        c = sym.ctx()
        self.getters = getters
        lo, hi = self.bounds(it)
        if hi is None:
            raise Undecided(f"{label}: reduction loop without an upper bound")
        entry = self.read(getters)
        self.entry = entry
        accs = [k for k in self.order if k in self.aug and entry[k] is not loops.UNBOUND and isinstance(entry[k], (SR, SC, SI, int, float))]
        temps = [k for k in self.order if k not in accs]
        idx = SI(z3.Int(label + "_j"))       # deterministic name: the same constant on every path
        self.idx = idx
        iterate = bool(SB(sym.FreshBool("iterate_" + label)))
        if iterate:
            hv = dict(entry)
            a0 = {}
            for k in accs:
                a0[k] = loops.fresh_like("acc_" + k, SR.lift(entry[k]) if not isinstance(entry[k], SC) else entry[k])
                hv[k] = a0[k]
            tsyms = []
            for k in temps:
                hv[k] = SR(FreshReal("carried_" + k))
                tsyms.append(hv[k].e)
            self.cur, self.mode = hv, "iter"
            c.pc += [idx.e >= lo.e, idx.e < hi.e]
            nw = len(c.ghost.get("writes", []))
            yield self.elem(it, idx)
            cur = self.read(getters)
            summands = {}
            carried = tsyms + [x for k in accs for x in ([a0[k].e] if not isinstance(a0[k], SC) else [a0[k].re.e, a0[k].im.e])]
            ok = True
            for n_acc, k in enumerate(accs):
                inc = SR.lift(cur[k]) - a0[k] if not isinstance(a0[k], SC) else cur[k] - a0[k]
                term = z3.simplify(SR.lift(inc).e) if not isinstance(inc, SC) else None
                if term is None:
                    raise Undecided("complex accumulators not supported")
                dep = _mentions(term, carried)
                # (named by the position of the accumulator, not by the local's name: renaming a local is not a change of the contract)
                check(f"{self.name}.accumulator{n_acc}.increment_independent_of_loop_carried_state", z3.BoolVal(not dep), kind="invariant",
                      note=f"accumulator {k!r} depends on {dep}")
                ok &= not dep
                summands[k] = term
            check(f"{self.name}.no_array_written_in_reduction", z3.BoolVal(len(c.ghost.get("writes", [])) == nw), kind="invariant")
            if ok:
                SUMMARY[label] = dict(idx=idx.e, summands=summands, lo=lo.e, accs=accs, entry={k: entry[k] for k in accs})
            raise PathEnd
        info = SUMMARY.get(label)
        if info is None:
            raise Undecided(f"{label}: no summary (the iterate path did not establish the reduction shape)")
        hv = dict(entry)
        self.sums = {}
        for k in info["accs"]:
            term = info["summands"][k]
            free = [x for x in _free_index_consts(term) if not x.eq(info["idx"])]
            gs = z3.Function(f"GS_{label}_{k}", *([z3.IntSort()] * (1 + len(free))), z3.RealSort())
            total = SR(gs(hi.e, *free))
            hv[k] = SR.lift(entry[k]) + total
            self.sums[k] = dict(gs=gs, free=free, hi=hi, total=total, summand=term, j=info["idx"], lo=info["lo"], entry=entry[k])
            c.ghost.setdefault("sums", {})[(label, k)] = self.sums[k]
            SUMMARY.setdefault("sums", {})[(label, k)] = self.sums[k]
        for k in self.order:
            if k not in info["accs"]:
                hv[k] = SR(FreshReal("dead_" + k))
        c.pc.append(hi.e >= lo.e)
        self.cur, self.mode, self.idx = hv, "exhausted", hi
        self.last_elem = hi - 1
        return


def _free_index_consts(term):
    out = []
    seen = set()
    todo = [term]
    while todo:
        t = todo.pop()
        if t.get_id() in seen:
            continue
        seen.add(t.get_id())
        if z3.is_app(t):
            if t.num_args() == 0 and t.decl().kind() == z3.Z3_OP_UNINTERPRETED and t.sort().kind() == z3.Z3_INT_SORT:
                out.append(t)
            todo.extend(t.children())
    return sorted(out, key=lambda x: x.decl().name())


class MapLoop(_Auto):
    kind = "map"

    def cut(self, vc, label, it, getters):
        c = sym.ctx()
        self.getters = getters
        lo, hi = self.bounds(it)
        if hi is None:
            raise Undecided(f"{label}: map loop without an upper bound")
        entry = self.read(getters)
        self.entry = entry
        idx = SI(z3.Int(label + "_i"))
        self.idx = idx
        iterate = bool(SB(sym.FreshBool("iterate_" + label)))
        if iterate:
            hv = dict(entry)
            carried = []
            for k in self.order:
                hv[k] = SR(FreshReal("carried_" + k))
                carried.append(hv[k].e)
            self.cur, self.mode = hv, "iter"
            c.pc += [idx.e >= lo.e, idx.e < hi.e]
            nw = len(c.ghost.get("writes", []))
            rlog = c.ghost.setdefault("reads", [])
            r0 = len(rlog)
            yield self.elem(it, idx)
            reads = set(rlog[r0:])
            cur = self.read(getters)
            names = {id(v): k for k, v in cur.items() if isinstance(v, SymArray)}
            regions = []
            ok = True
            for w in c.ghost.get("writes", [])[nw:]:
                arr_, reg = w
                nm = names.get(id(arr_))
                if nm is None:
                    raise Undecided(f"{label}: write to an array not reachable from a local name")
                g = reg.generalise(idx.e, lo.e, hi.e)
                # race freedom: iteration i writes only positions that carry i as a coordinate
                check(f"{self.name}.iteration_writes_only_its_own_slice[{nm}]", z3.BoolVal(g is not None), kind="invariant")
                dep = _mentions(SR.lift(reg.val).e if not isinstance(reg.val, SC) else reg.val.re.e + reg.val.im.e, carried)
                check(f"{self.name}.written_value_independent_of_other_iterations[{nm}]", z3.BoolVal(not dep), kind="invariant")
                check(f"{self.name}.body_does_not_read_what_iterations_write[{nm}]", z3.BoolVal(id(arr_) not in reads), kind="invariant")
                if g is None or dep or id(arr_) in reads:
                    ok = False
                    continue
                g.name = nm
                regions.append(g)
            if ok:
                SUMMARY[label] = dict(regions=regions)
            raise PathEnd
        info = SUMMARY.get(label)
        if info is None:
            raise Undecided(f"{label}: no summary (the iterate path did not establish the map shape)")
        hv = dict(entry)
        for k in self.order:
            hv[k] = SR(FreshReal("dead_" + k))
        for reg in info["regions"]:
            target = entry.get(reg.name)
            if not isinstance(target, SymArray):
                raise Undecided(f"{label}: array {reg.name} not found at loop exit")
            apply_region(target, reg)
            c.ghost.setdefault("writes", []).append((target, reg))
        c.pc.append(hi.e >= lo.e)
        self.cur, self.mode, self.idx = hv, "exhausted", hi
        self.last_elem = hi - 1
        return
