"""native (real solver, real h5py) replay harnesses / bounded stand-ins shared by C01, C08, C19."""
import logging
import os
import tempfile

os.environ.setdefault("TQDM_DISABLE", "1")
import numpy as np


def make_device(length_units="um", scale=1.0, holes=True, n_term=2, max_edge=0.5):
    import tdgl
    from tdgl.geometry import box, circle
    layer = tdgl.Layer(coherence_length=0.5 * scale, london_lambda=2 * scale, thickness=0.1 * scale, gamma=1)
    film = tdgl.Polygon("film", points=box(4 * scale, 2 * scale))
    hs = [tdgl.Polygon("h", points=circle(0.3 * scale))] if holes else None
    src = tdgl.Polygon("source", points=box(0.1 * scale, 2 * scale)).translate(dx=-2 * scale)
    drn = src.scale(xfact=-1).set_name("drain")
    terms = [src, drn]
    if n_term >= 3:
        terms.append(tdgl.Polygon("top", points=box(1.0 * scale, 0.1 * scale)).translate(dy=1.0 * scale))
    dev = tdgl.Device("d", layer=layer, film=film, holes=hs, terminals=terms, probe_points=[(-1 * scale, 0), (1 * scale, 0)], length_units=length_units)
    dev.make_mesh(max_edge_length=max_edge * scale, smooth=5)
    return dev


def conservation_cases(seed=0, reduced=False):
    """per-cell charge conservation on every recorded frame >= 1 and injected current per terminal"""
    import h5py
    import tdgl
    from tdgl.finite_volume.operators import build_divergence
    logging.disable(logging.CRITICAL)
    bad = []
    n = 0
    with tempfile.TemporaryDirectory() as td:
        for ci, (n_term, screening, cur_units) in enumerate(((2, False, "uA"), (3, False, "uA"), (2, True, "uA"), (2, False, "mA"), (3, False, "nA"), (3, False, "switch"), (2, False, "twice"), (3, False, "shared"))):
            if reduced and ci not in (1, 3, 5, 6, 7):
                continue
            switching = cur_units == "switch"
            twice = cur_units == "twice"          # one TDGLSolver instance solved twice (public API): the second run injects the requested current too
            shared = cur_units == "shared"        # currents given as a function of time that hands back ONE dict object at every call (the caller's object)
            cur_units = "uA" if (switching or twice or shared) else cur_units
            dev = make_device(n_term=n_term)
            mesh = dev.mesh
            I = {"source": 3.0, "drain": -3.0} if n_term == 2 else {"source": 2.0, "drain": -0.5, "top": -1.5}
            fac = {"uA": 1.0, "mA": 1e-3, "nA": 1e3}[cur_units]
            Iu = {k: v * fac for k, v in I.items()}
            if switching:
                # time-dependent dict in which a terminal drops out: an unlisted terminal carries zero current
                def Ifun(t):
                    return {"source": 2.0, "top": -2.0} if t < 0.4 else {"source": 2.0, "drain": -2.0}
            opts = tdgl.SolverOptions(solve_time=1.0, save_every=20, include_screening=screening, current_units=cur_units, output_file=os.path.join(td, f"c{ci}.h5"))
            try:
                if twice:
                    solver_ = tdgl.TDGLSolver(dev, opts, applied_vector_potential=0.1, terminal_currents=Iu)
                    solver_.solve()
                    sol = solver_.solve()
                elif shared:
                    mine = dict(Iu)
                    sol = tdgl.solve(dev, opts, applied_vector_potential=0.1, terminal_currents=lambda t: mine)
                    n += 1
                    if mine != Iu:
                        bad.append(dict(what="the dict handed out by the caller's current function was written by the solver", requested=Iu, now={k_: float(v_) for k_, v_ in mine.items()}))
                else:
                    sol = tdgl.solve(dev, opts, applied_vector_potential=0.1, terminal_currents=(Ifun if switching else Iu))
            except Exception as e:  # noqa
                bad.append(dict(what="balanced terminal currents rejected / run failed", currents=Iu, units=cur_units, error=f"{type(e).__name__}: {e}"))
                continue
            D = build_divergence(mesh)
            info = dev.terminal_info()
            em = mesh.edge_mesh
            tcells = {t.name: np.unique(em.edges[t.edge_indices].ravel()) for t in info}     # cells owning a share of terminal t
            tsites = np.concatenate(list(tcells.values()))
            K0 = dev.K0.to(f"{cur_units}/{dev.length_units}").magnitude
            xi = dev.coherence_length.magnitude
            with h5py.File(sol.path, "r") as f:
                for k in sorted(f["data"], key=int):
                    g = f["data"][k]
                    if int(g.attrs["step"]) == 0:
                        continue
                    if switching:
                        Iu = dict(source=0.0, drain=0.0, top=0.0)
                        Iu.update(Ifun(float(g.attrs["time"])))
                    J = np.array(g["supercurrent"]) + np.array(g["normal_current"])
                    div = (D @ J) * mesh.areas
                    n += 1
                    other = np.setdiff1d(np.arange(len(mesh.sites)), tsites)
                    scale = np.abs(div[tsites]).max() + 1e-30
                    if np.abs(div[other]).max() > 1e-8 * scale:
                        bad.append(dict(what="net current leaves a cell that touches no terminal", case=ci, step=int(g.attrs["step"]), max_residual=float(np.abs(div[other]).max()), scale=float(scale)))
                        break
                    for t in info:
                        # total current leaving the cells of terminal t (dimensionless: units of K0 * xi / ... ) vs requested
                        tot = -div[t.site_indices].sum()
                        want = 4 * Iu[t.name] / (K0 * xi) if False else None
                    # requested current: sum over terminal cells of the divergence, converted back to current units
                    for t in info:
                        got = div[tcells[t.name]].sum() * K0 * xi / 4.0
                        if abs(got - Iu[t.name]) > 1e-6 * max(1.0, abs(Iu[t.name])) * 1.0 and abs(got - Iu[t.name]) > 1e-6 * abs(Iu[t.name]):
                            bad.append(dict(what="current entering through a terminal differs from the requested current", terminal=t.name, requested=Iu[t.name], got=float(got), units=cur_units,
                                            case=ci, step=int(g.attrs["step"]), time=float(g.attrs["time"]),
                                            currents=("t<0.4: source=2, top=-2; then source=2, drain=-2 (unlisted terminal = 0)" if switching else Iu),
                                            history=("second solve() of one TDGLSolver instance" if twice else "fresh solver")))
                            break
    logging.disable(logging.NOTSET)
    return bad, n


def units_cases(seed=0, reduced=False):
    """the same physical device / field / currents in different unit systems on ONE shared dimensionless mesh"""
    import tdgl
    logging.disable(logging.CRITICAL)
    bad = []
    n = 0
    ref = None
    base = make_device("um", 1.0)
    with tempfile.TemporaryDirectory() as td:
        from tdgl.sources import ConstantField, LinearRamp
        cfgs = [("um", 1.0, "mT", 1.0, "uA", 1.0, False, False), ("nm", 1e3, "uT", 1e3, "nA", 1e3, False, False), ("mm", 1e-3, "T", 1e-3, "mA", 1e-3, False, False),
                ("nm", 1e3, "mT", 1.0, "uA", 1.0, False, False), ("um", 1.0, "uT", 1e3, "mA", 1e-3, False, False),
                ("um", 1.0, "mT", 1.0, "uA", 1.0, True, False), ("nm", 1e3, "uT", 1e3, "mA", 1e-3, True, False),
                # time-dependent applied field (re-evaluated at every step)
                ("um", 1.0, "mT", 1.0, "uA", 1.0, False, True), ("nm", 1e3, "uT", 1e3, "mA", 1e-3, False, True),
                # time-dependent field with screening
                ("um", 1.0, "mT", 1.0, "uA", 1.0, True, True), ("nm", 1e3, "uT", 1e3, "mA", 1e-3, True, True)]
        if reduced:
            cfgs = [cfgs[0], cfgs[2], cfgs[7], cfgs[8], cfgs[9], cfgs[10]]
        for ci, (lu, ls, fu, fs_, cu, cs, screening, ramp) in enumerate(cfgs):
            dev = make_device(lu, ls)
            dev.mesh = base.mesh          # share the dimensionless mesh (Triangle is not unit-covariant bit-wise)
            opts = tdgl.SolverOptions(solve_time=(0.2 if (screening and ramp) else 0.5), save_every=1000, include_screening=screening, field_units=fu, current_units=cu,
                                      output_file=os.path.join(td, f"u{ci}.h5"), **(dict(screening_tolerance=2e-2, max_iterations_per_step=5000, dt_max=2e-2) if (screening and ramp) else {}))
            field = 0.3 * fs_
            if ramp:
                field = LinearRamp(tmin=0.0, tmax=(0.15 if screening else 0.4)) * ConstantField((0.15 if screening else 0.6) * fs_, field_units=fu, length_units=lu)
            sol = tdgl.solve(dev, opts, applied_vector_potential=field, terminal_currents=dict(source=4.0 * cs, drain=-4.0 * cs))
            d = sol.tdgl_data
            mu = d.mu - d.mu.mean()
            K = sol.current_density.to("uA/um").magnitude
            Bfield = sol.field_at_position(np.array([[0.5, 0.2], [-1.0, 0.4]]) * ls, zs=1.0 * ls, vector=True, units="mT", with_units=False)
            Avec = sol.vector_potential_at_position(np.array([[0.5, 0.2], [-1.0, 0.4], [1.5, -1.0]]) * ls, zs=0.0, units="mT * um", with_units=False)
            Avec2 = sol.vector_potential_at_position(np.array([[0.5, 0.2], [-1.0, 0.4]]) * ls, zs=0.5 * ls, units="mT * um", with_units=False)
            cur = dict(vector_potential_in_the_film_plane=np.asarray(Avec), vector_potential_above_the_film=np.asarray(Avec2), abs_psi=np.abs(d.psi), js=d.supercurrent, jn=d.normal_current, mu=mu, K=K, A=d.induced_vector_potential, field_above_the_film=np.asarray(Bfield))
            n += 1
            key = (screening, ramp)
            if ref is None:
                ref = {}
            if key not in ref:
                ref[key] = cur
                continue
            for nm, a in cur.items():
                r = ref[key][nm]
                err = np.abs(a - r).max() / (np.abs(r).max() + 1e-30)
                if err > 1e-6:
                    bad.append(dict(what=f"{nm} depends on the unit system", units=(lu, fu, cu), screening=screening, time_dependent_field=ramp, relative_difference=float(err)))
    logging.disable(logging.NOTSET)
    return bad, n


def history_cases(seed=0):
    """a device object with a history (scales read, a solve, then its layer changed in place) must simulate exactly like a freshly built equal
    device: same scales, same recorded arrays"""
    import tdgl
    logging.disable(logging.CRITICAL)
    bad, n = [], 0
    with tempfile.TemporaryDirectory() as td:
        d1 = make_device()
        _ = d1.K0, d1.A0, d1.Bc2
        o = lambda nm: tdgl.SolverOptions(solve_time=0.3, save_every=20, output_file=os.path.join(td, nm))
        tdgl.solve(d1, o("h0.h5"), applied_vector_potential=0.2, terminal_currents=dict(source=2.0, drain=-2.0))
        for attr, fac in (("london_lambda", 2.0), ("coherence_length", 1.0), ("thickness", 0.5)):
            setattr(d1.layer, attr, getattr(d1.layer, attr) * fac)
        d2 = make_device()
        for attr in ("london_lambda", "coherence_length", "thickness"):
            setattr(d2.layer, attr, getattr(d1.layer, attr))
        d2.mesh = d1.mesh
        n += 1
        for nm in ("K0", "A0", "Bc2"):
            a, b = getattr(d1, nm).to_base_units().magnitude, getattr(d2, nm).to_base_units().magnitude
            if a != b:
                bad.append(dict(what=f"{nm} of a device whose layer was changed in place differs from {nm} of a fresh equal device", with_history=float(a), fresh=float(b)))
        s1 = tdgl.solve(d1, o("h1.h5"), applied_vector_potential=0.2, terminal_currents=dict(source=2.0, drain=-2.0))
        s2 = tdgl.solve(d2, o("h2.h5"), applied_vector_potential=0.2, terminal_currents=dict(source=2.0, drain=-2.0))
        n += 1
        for nm in ("psi", "mu", "supercurrent", "normal_current"):
            if not np.array_equal(getattr(s1.tdgl_data, nm), getattr(s2.tdgl_data, nm)):
                bad.append(dict(what=f"recorded {nm} of the device with history differs from the fresh equal device", max_abs_diff=float(np.abs(getattr(s1.tdgl_data, nm) - getattr(s2.tdgl_data, nm)).max())))
                break
    logging.disable(logging.NOTSET)
    return bad, n


def reject_cases(seed=0):
    """ill-posed problems must raise before anything is written"""
    import tdgl
    from tdgl.geometry import box, circle
    logging.disable(logging.CRITICAL)
    bad = []
    n = 0
    dev = make_device()
    layer = dev.layer
    with tempfile.TemporaryDirectory() as td:
        def attempt(tag, **kw):
            nonlocal n
            n += 1
            out = os.path.join(td, f"r{n}.h5")
            okw = dict(solve_time=0.2, output_file=out)
            okw.update(kw.pop("options", {}))
            dv = kw.pop("device", dev)
            before = set(os.listdir(td))
            try:
                opts = tdgl.SolverOptions(**okw)
                tdgl.solve(dv, opts, **kw)
                bad.append(dict(what="ill-posed problem accepted", case=tag))
            except Exception:
                pass
            left = set(os.listdir(td)) - before
            if left:
                bad.append(dict(what="rejected problem left files behind", case=tag, files=sorted(left)))
                for f in left:
                    os.remove(os.path.join(td, f))
        for mag in (0.5, 1e-2, 1e-4, 1e-6):
            for I0 in (1.0, 250.0):
                attempt(f"constant imbalance {mag}", terminal_currents=dict(source=I0, drain=-I0 * (1 + mag)))
                attempt(f"callable imbalance {mag}", terminal_currents=lambda t, I0=I0, mag=mag: dict(source=I0, drain=-I0 * (1 + mag)))
        # currents given as a function of time that are balanced when the run starts and unbalanced later: the problem is ill-posed as a whole and must be
        # refused up front (a rejection that only comes while stepping has already created the output).  "later" covers at least half of the
        # solve time, so the sampled validation of the unchanged code meets it with probability 1 - 2^-100.
        for I0 in (1.0, 250.0):
            attempt("callable balanced only at t = 0", terminal_currents=lambda t, I0=I0: dict(source=I0, drain=-I0 * (1 + 0.5 * (t > 0))))
            attempt("callable unbalanced during the second half of the run", terminal_currents=lambda t, I0=I0: dict(source=I0, drain=-I0 * (1 + 0.5 * (t > 0.1))))
        attempt("epsilon above one", disorder_epsilon=1.5)
        attempt("epsilon above one somewhere", disorder_epsilon=lambda r: 1.0 + (r[0] > 0) * 1e-3)
        attempt("dt_init > dt_max", options=dict(dt_init=1.0, dt_max=0.1))
        attempt("terminal_psi > 1", options=dict(terminal_psi=1.5))
        attempt("multiplier out of range", options=dict(adaptive_time_step_multiplier=1.5))
        attempt("screening drag 0", options=dict(screening_step_drag=0.0))
        attempt("vector potential wrong shape", applied_vector_potential=lambda x, y, z: np.zeros((len(x) + 1, 3)))
        far = tdgl.Polygon("far", points=box(0.2, 0.2)).translate(dx=10)
        try:
            d2 = tdgl.Device("d2", layer=layer, film=tdgl.Polygon("film", points=box(4, 2)), terminals=[far], length_units="um")
            d2.make_mesh(max_edge_length=0.6, smooth=2)
            attempt("terminal touching no boundary", device=d2, terminal_currents=None)
        except Exception:
            n += 1
        # seed solution from a different device
        o = tdgl.SolverOptions(solve_time=0.1, output_file=os.path.join(td, "seed.h5"))
        seed_sol = tdgl.solve(dev, o, applied_vector_potential=0.1)
        for tag, other in (("different film", make_device(scale=1.0, holes=False)), ("moved hole", None)):
            if other is None:
                other = make_device()
                other.holes[0].translate(dx=0.2, inplace=True)
                other.make_mesh(max_edge_length=0.5, smooth=5)
            before = set(os.listdir(td))
            n += 1
            try:
                tdgl.solve(other, tdgl.SolverOptions(solve_time=0.1, output_file=os.path.join(td, f"s{n}.h5")), applied_vector_potential=0.1, seed_solution=seed_sol)
                bad.append(dict(what="seed solution from a different device accepted", case=tag))
            except ValueError:
                pass
            except Exception as e:  # noqa
                bad.append(dict(what="seed mismatch not rejected up front", case=tag, error=f"{type(e).__name__}: {e}"))
            left = set(os.listdir(td)) - before
            if left:
                bad.append(dict(what="rejected seed left files behind", case=tag, files=sorted(left)))
        # an options object that was accepted once and then made inconsistent is rejected by the next solve
        for tag, change in (("dt_init > dt_max", dict(dt_init=1.0)), ("terminal_psi > 1", dict(terminal_psi=2.0)), ("multiplier out of range", dict(adaptive_time_step_multiplier=2.0))):
            o_ok = tdgl.SolverOptions(solve_time=0.05, output_file=os.path.join(td, f"reuse_ok_{n}.h5"))
            tdgl.solve(dev, o_ok, applied_vector_potential=0.1)
            for k_, v_ in change.items():
                setattr(o_ok, k_, v_)
            o_ok.output_file = os.path.join(td, f"reuse_bad_{n}.h5")
            before = set(os.listdir(td))
            n += 1
            try:
                tdgl.solve(dev, o_ok, applied_vector_potential=0.1)
                bad.append(dict(what="options that were valid in an earlier solve and inconsistent now were accepted", case=tag))
            except Exception:
                pass
            left = set(os.listdir(td)) - before
            if left:
                bad.append(dict(what="rejected options left files behind", case=tag, files=sorted(left)))
                for f in left:
                    os.remove(os.path.join(td, f))
        # a device that was simulated successfully and whose terminal is then moved off the film (in place) is ill posed for the next run
        d_h = make_device()
        tdgl.solve(d_h, tdgl.SolverOptions(solve_time=0.1, output_file=os.path.join(td, "hist_ok.h5")), applied_vector_potential=0.1, terminal_currents=dict(source=1.0, drain=-1.0))
        d_h.terminals[0].translate(dx=-50.0, inplace=True)
        attempt("terminal moved off the film (in place) after an earlier successful solve on the same device object", device=d_h, applied_vector_potential=0.1,
                terminal_currents=dict(source=1.0, drain=-1.0))
        # validation decides, it does not rewrite: after validate() every option still has the value the user gave (the object is reused for later runs)
        import dataclasses as _dc
        import itertools as _it
        for adaptive_, screening_, tp_ in _it.product((True, False), (True, False), (0.0, None)):
            o_v = tdgl.SolverOptions(solve_time=1.0, adaptive=adaptive_, include_screening=screening_, terminal_psi=tp_, dt_init=1e-4, dt_max=5e-2, save_every=7)
            given = {f_.name: getattr(o_v, f_.name) for f_ in _dc.fields(o_v)}
            n += 1
            o_v.validate()
            now = {f_.name: getattr(o_v, f_.name) for f_ in _dc.fields(o_v)}
            diff = {k_: (given[k_], now[k_]) for k_ in given if k_ != "sparse_solver" and not (given[k_] is now[k_] or given[k_] == now[k_])}
            if diff:
                bad.append(dict(what="SolverOptions.validate() changed options the user had set", options=dict(adaptive=adaptive_, include_screening=screening_, terminal_psi=tp_),
                                changed={k_: [str(a_), str(b_)] for k_, (a_, b_) in diff.items()}))
        # the device a solution was computed on, modified in place afterwards, is a DIFFERENT device: its old solution is no valid seed
        for tag, change in (("layer changed in place", lambda d: setattr(d.layer, "london_lambda", d.layer.london_lambda * 3)),
                            ("hole moved in place", lambda d: (d.holes[0].translate(dx=0.3, inplace=True), d.make_mesh(max_edge_length=0.5, smooth=5)))):
            d3 = make_device()
            s3 = tdgl.solve(d3, tdgl.SolverOptions(solve_time=0.1, output_file=os.path.join(td, f"seed3_{n}.h5")), applied_vector_potential=0.1)
            change(d3)
            before = set(os.listdir(td))
            n += 1
            try:
                tdgl.solve(d3, tdgl.SolverOptions(solve_time=0.1, output_file=os.path.join(td, f"s3_{n}.h5")), applied_vector_potential=0.1, seed_solution=s3)
                bad.append(dict(what="seed solution accepted although the device was modified in place after it was computed", case=tag))
            except ValueError:
                pass
            except Exception as e:  # noqa
                bad.append(dict(what="seed from a modified device not rejected up front", case=tag, error=f"{type(e).__name__}: {str(e)[:100]}"))
            left = set(os.listdir(td)) - before
            if left:
                bad.append(dict(what="rejected seed left files behind", case=tag, files=sorted(left)))
        # a valid polygon edited in place into a self-intersecting outline is an invalid polygon: no device can be built from it
        bow = tdgl.Polygon("film", points=box(3, 2, points=4))
        n += 1
        try:
            pts_ = bow.points
            pts_[[1, 2]] = pts_[[2, 1]]
            if bow.is_valid:
                bad.append(dict(what="invalid definition accepted", case="polygon edited in place into a bow-tie still reports is_valid"))
            try:
                tdgl.Device("x", layer=layer, film=bow)
                bad.append(dict(what="invalid definition accepted", case="device built from a film that was edited in place into a bow-tie"))
            except ValueError:
                pass
        except Exception as e:  # noqa
            bad.append(dict(what=f"bow-tie case raised {type(e).__name__}: {str(e)[:100]}"))
        # invalid polygons / devices
        for tag, fn in (("self-intersecting polygon", lambda: tdgl.Polygon("bow", points=[(0, 0), (1, 1), (1, 0), (0, 1)])),
                        ("duplicate terminal names", lambda: tdgl.Device("x", layer=layer, film=tdgl.Polygon("f", points=box(2, 2)),
                                                                         terminals=[tdgl.Polygon("t", points=box(0.1, 2)), tdgl.Polygon("t", points=box(0.1, 2))])),
                        ("unnamed terminal", lambda: tdgl.Device("x", layer=layer, film=tdgl.Polygon("f", points=box(2, 2)),
                                                                 terminals=[tdgl.Polygon("t", points=box(0.1, 2)).translate(dx=-1), tdgl.Polygon(points=box(0.1, 2)).translate(dx=1)])),
                        ("probe outside film", lambda: tdgl.Device("x", layer=layer, film=tdgl.Polygon("f", points=box(2, 2)), probe_points=[(5, 5), (0, 0)]))):
            n += 1
            try:
                obj = fn()
                if isinstance(obj, tdgl.Polygon) and obj.is_valid:
                    bad.append(dict(what="invalid definition accepted", case=tag))
                elif isinstance(obj, tdgl.Device):
                    bad.append(dict(what="invalid definition accepted", case=tag))
            except Exception:
                pass
    logging.disable(logging.NOTSET)
    return bad, n
