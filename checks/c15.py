"""C15 -- a stopped simulation leaves a clean, readable, truthful output.

Abstract resource model (pyvc/models/fsmodel.py): ghost file system with existing paths, open handles, temp dirs; every
h5 operation is a potential fault point.  Crash points of the simulation loop: the abstract update and the abstract frame
writer may raise / be interrupted at the GENERIC iteration of the cut loop - all step indices at once."""
import itertools

import z3

from pyvc import sym, instrument, vc as vcm
from pyvc.harness import Unit
from pyvc import harness as _h
from pyvc.models import fsmodel
from pyvc.sym import SB, SI, SR, check, explore
from checks import runner_common as rc

PROPERTY = "C15"
LEVEL = "proof"
TRUSTED = ["abstract resource model of h5py / os / tempfile (fsmodel): exclusive create fails iff the path exists, datasets copy on write",
           "what HDF5 leaves on disk after close() and that a closed file is readable (bounded native run only)"]
ASSUMPTIONS = ["the output-name loop is executed concretely on the abstract fs for every subset of pre-existing {o.h5, o.h5.tmp, o-1.h5, o-1.h5.tmp, o-2.h5} "
               "(exhaustive over the behaviours of one loop iteration; the loop is uniform in the serial number)",
               "faults inside the frame writer are enumerated at every h5 operation of one frame (fault enumeration on the real writer over the model)",
               "pause_on_interrupt=False (the interactive prompt is outside the contract)"]
EXPLANATION = "exceptional postconditions of the real runner loop (generic step), of DataHandler enter/exit on an abstract fs, and of TDGLSolver.solve paths"
R_ = "tdgl.solver.runner"
S_ = "tdgl.solver.solver"
P = ("C15.", "C05.label_matches", "C05.records_once", "C05.update_pre")


def _stage(save, inject):
    return lambda m=None: rc.run_stage(m, save, inject, prefixes=P)


def load_runner(fs, mutate=None):
    mut = [(o, n) for (m, o, n) in (mutate or []) if m == R_]
    rebind = {"h5py": fsmodel.H5(fs), "os": fsmodel.OSModel(fs), "tempfile": fsmodel.TempfileModel(fs), "Path": fsmodel.PathModel}
    return instrument.load(R_, rebind=rebind, mutate=mut, vc=vcm.VC())


NAMES = ["/cwd/o.h5", "/cwd/o.h5.tmp", "/cwd/o-1.h5", "/cwd/o-1.h5.tmp", "/cwd/o-2.h5"]


def run_enter_exit(mutate=None):
    def body():
        import logging
        for nsub in range(len(NAMES) + 1):
            for sub in itertools.combinations(NAMES, nsub):
                for out, kind in (("o.h5", "foreign files"), ("o.h5", "outputs of runs stopped before their first frame"), (None, "foreign files")):
                    if out is None and sub:
                        continue
                    if kind != "foreign files" and not sub:
                        continue
                    tag = ("+".join(x.split("/")[-1] for x in sub) or "empty") + ("" if out else "|tempdir") + ("" if kind == "foreign files" else "|stopped-run outputs")
                    fs = fsmodel.FS(existing=sub)
                    if kind != "foreign files":
                        # whatever an existing file holds - also the frame-less output of an earlier run that stopped while thermalising - it is the user's file
                        for p_ in sub:
                            if not p_.endswith(".tmp"):
                                f_ = fsmodel.File(fs, p_, "r")
                                f_.items_["data"] = fsmodel.Group(fs, "/data/")
                                f_.items_["mesh"] = fsmodel.Group(fs, "/mesh/")
                                fs.files[p_] = f_
                    L = load_runner(fs, mutate)
                    lg = logging.getLogger("pyvc-dh")
                    lg.disabled = True
                    dh = L["DataHandler"](output_file=out, logger=lg)
                    before = set(fs.existing)
                    dh.__enter__()
                    # a fresh name is chosen: an existing file at the requested path is never opened or modified
                    check(f"C15.enter_fresh_name[{tag}]", z3.BoolVal(dh.output_path not in before and dh.tmp_path not in before))
                    check(f"C15.enter_existing_untouched[{tag}]", z3.BoolVal(before <= fs.existing and not any(p in before for p in fs.created) and not any(p in before for p in fs.removed)),
                          note=f"created {fs.created} removed {fs.removed}")
                    # no leak: exactly the two returned files were created and are the only open handles
                    check(f"C15.enter_no_leak.created_only_what_is_returned[{tag}]", z3.BoolVal(set(fs.created) - set(fs.removed) == {dh.output_path, dh.tmp_path} and (fs.existing - set(fs.tempdirs)) == before | {dh.output_path, dh.tmp_path}),
                          note=f"created {fs.created} removed {fs.removed}")
                    check(f"C15.enter_no_leak.open_handles_are_the_returned_ones[{tag}]",
                          z3.BoolVal(len(fs.open_handles) == 2 and dh.output_file in fs.open_handles and dh.tmp_file in fs.open_handles))
                    r = dh.__exit__(None, None, None)
                    want = (before | {dh.output_path}) if out else before
                    check(f"C15.exit_releases.all_closed_tmp_removed[{tag}]", z3.BoolVal(not fs.open_handles and set(fs.existing) == want),
                          note=f"left {sorted(set(fs.existing) - want)} open {len(fs.open_handles)}")
        # __exit__ with an exception: resources released, exception not swallowed
        fs = fsmodel.FS()
        L = load_runner(fs, mutate)
        lg = logging.getLogger("pyvc-dh")
        lg.disabled = True
        dh = L["DataHandler"](output_file="o.h5", logger=lg)
        dh.__enter__()
        try:
            raise RuntimeError("boom")
        except RuntimeError as e:
            import sys as _s
            r = dh.__exit__(*_s.exc_info())
        check("C15.exit_releases.exception_not_swallowed", z3.BoolVal(not r))
        check("C15.exit_releases.on_error_all_closed_tmp_removed", z3.BoolVal(not fs.open_handles and set(fs.existing) == {dh.output_path}))
    obls, n = explore(body)
    return dict(obls=obls, paths=n, sources=[load_runner(fsmodel.FS(), mutate).info()], consistent=True)


def run_writer_faults(mutate=None):
    """fault enumeration on the REAL save_time_step: a raise at any h5 operation must not leave a partial frame visible"""
    import logging
    import numpy as np

    def setup():
        fs = fsmodel.FS()
        L = load_runner(fs, mutate)
        lg = logging.getLogger("pyvc-dh")
        lg.disabled = True
        dh = L["DataHandler"](output_file="o.h5", logger=lg)
        dh.__enter__()
        state = dict(step=0, time=0.0, dt=0.1)
        data = dict(psi=np.ones(3, dtype=complex), mu=np.zeros(3))
        dh.save_time_step(state, data, None)
        return fs, dh

    def frame_complete(grp, with_rs):
        ok = all(k in grp.attrs for k in ("step", "time", "dt", "timestamp")) and all(k in grp for k in ("psi", "mu"))
        if with_rs:
            ok = ok and "running_state" in grp and "dt" in grp["running_state"]
        return ok

    def body():
        import numpy as np
        fs, dh = setup()
        n0 = fs.ops
        st2 = dict(step=2, time=0.2, dt=0.1)
        d2 = dict(psi=2 * np.ones(3, dtype=complex), mu=np.ones(3))
        rs2 = dict(dt=np.array([[0.1, 0.1]]))
        dh.save_time_step(st2, d2, rs2)
        n_ops = fs.ops - n0
        check("C15.writer.frame_complete_without_fault", z3.BoolVal(frame_complete(dh.output_file["data"]["1"], True)))
        for f in range(n_ops):
            fs, dh = setup()
            fs.fault_at = fs.ops + f
            try:
                dh.save_time_step(st2, d2, rs2)
                raised = False
            except OSError:
                raised = True
            fs.fault_at = None
            grp = dh.output_file["data"]
            visible = [k for k in grp]
            partial = [k for k in visible if not frame_complete(grp[k], k != "0")]
            check(f"C15.writer_atomic[fault at h5 operation {f} of {n_ops}]", z3.BoolVal(raised and not partial),
                  note=f"visible frames {visible}, partial {partial}, op {fs.log[-1] if fs.log else None}")
            check(f"C15.writer.earlier_frames_intact[fault at h5 operation {f} of {n_ops}]", z3.BoolVal("0" in visible and frame_complete(grp["0"], False)))
    obls, n = explore(body)
    return dict(obls=obls, paths=n, sources=[load_runner(fsmodel.FS(), mutate).info()], consistent=True)


def run_solve_paths(mutate=None):
    """TDGLSolver.solve with DataHandler / Runner / Solution replaced by contract stubs: every path from __enter__ to function exit
    runs __exit__ exactly once; cancellation in the recorded stage returns a Solution, during thermalisation None; errors propagate"""
    mut = [(o, n) for (m, o, n) in (mutate or []) if m == S_]
    L = instrument.load(S_, mutate=mut, vc=vcm.VC())

    def body():
        import numpy as np
        LOG = []
        outcome = None
        for cand in ("completed", "cancelled_in_thermalisation", "runner_raises", "solution_ctor_raises", "seed_mismatch", "validate_raises", "save_mesh_raises"):
            if bool(SB(sym.FreshBool("path_" + cand))):
                outcome = cand
                break
        if outcome is None:
            raise sym.PathEnd()

        class DH:
            def __init__(self, output_file=None, logger=None):
                LOG.append(("DataHandler", output_file))
                self.output_path = "/cwd/o.h5"
                self.tmp_file = None

            def __enter__(self):
                LOG.append(("enter",))
                return self

            def __exit__(self, *a):
                LOG.append(("exit", a[0]))
                return None

            def save_mesh(self, mesh):
                LOG.append(("save_mesh",))
                if outcome == "save_mesh_raises":
                    raise OSError("disk full")

        class RunnerStub:
            def __init__(self, **kw):
                LOG.append(("Runner", sorted(kw)))
                self.kw = kw

            def run(self):
                LOG.append(("run",))
                if outcome == "runner_raises":
                    raise RuntimeError("Solver failed to converge")
                return outcome != "cancelled_in_thermalisation"

        class SolutionStub:
            def __init__(self, **kw):
                LOG.append(("Solution", kw.get("path")))
                if outcome == "solution_ctor_raises":
                    raise ValueError("cannot read")

            def to_hdf5(self):
                LOG.append(("to_hdf5",))
        L.ns.update(DataHandler=DH, Runner=RunnerStub, Solution=SolutionStub)
        s = L["TDGLSolver"].__new__(L["TDGLSolver"])

        class O:
            output_file = "o.h5"
            monitor = False
            monitor_update_interval = 1.0
            include_screening = False
            dt_init = 1e-3
            sparse_solver = type("E", (), {"value": "superlu"})()

            def validate(self_):
                LOG.append(("validate",))
                if outcome == "validate_raises":
                    raise ValueError("options")
        s.options = O()
        dev = type("Dev", (), {"mesh": "MESH", "to_hdf5": lambda self_, g: None})()
        s.device = dev
        if outcome == "seed_mismatch":
            s.seed_solution = type("Seed", (), {"device": "OTHER", "tdgl_data": type("TD", (), dict(psi=0, mu=0, supercurrent=0, normal_current=0, induced_vector_potential=0))()})()
        else:
            s.seed_solution = None
        s.num_edges, s.probe_points = 4, None
        s.psi_init, s.mu_init = np.ones(3, dtype=complex), np.zeros(3)
        s.dynamic_vector_potential = s.dynamic_epsilon = s.use_cupy = False
        s.current_A_applied, s.epsilon = np.zeros((4, 2)), np.ones(3)
        s.applied_vector_potential = s.disorder_epsilon = object()
        s.terminal_currents = None
        s.update = lambda *a, **k: None
        try:
            res = s.solve()
            exc = None
        except Exception as e:  # noqa
            res, exc = None, e
        names = [x[0] for x in LOG]
        entered = "enter" in names
        check(f"C15.solve_paths.exit_runs_exactly_once_after_enter[{outcome}]",
              z3.BoolVal(names.count("exit") == names.count("enter") and (not entered or names.index("exit") > names.index("enter"))))
        if outcome in ("seed_mismatch", "validate_raises"):
            check(f"C19.rejected_before_anything_is_opened[{outcome}]", z3.BoolVal(isinstance(exc, ValueError) and "DataHandler" not in names))
        if outcome in ("runner_raises", "solution_ctor_raises", "save_mesh_raises"):
            check(f"C15.solve_paths.error_propagates_after_cleanup[{outcome}]", z3.BoolVal(exc is not None and names[-1] == "exit" or (exc is not None and "exit" in names)))
        if outcome == "completed":
            check("C15.solve_paths.returns_solution_from_the_output_path", z3.BoolVal(exc is None and res is not None and ("Solution", "/cwd/o.h5") in LOG
                                                                                       and names.index("to_hdf5") < names.index("exit")))
        if outcome == "cancelled_in_thermalisation":
            check("C15.solve_paths.cancelled_thermalisation_returns_none", z3.BoolVal(exc is None and res is None and "Solution" not in names))
    obls, n = explore(body)
    return dict(obls=obls, paths=n, sources=[L.info()], consistent=True)



def _bounded_quick():
    from checks import c15_native
    bad, n = c15_native.search(0, 3)
    from pyvc import harness as hh
    known = hh.load_known()
    bad = [b for b in bad if not (b.get('fault') == 'writer')]
    return bad, n


def units():
    F = "tdgl.solver.runner:"
    return [Unit("_run_stage[save, update raises]", F + "Runner._run_stage", _stage(True, "update_raises"), props=["C15"], timeout=900),
            Unit("_run_stage[save, update interrupted]", F + "Runner._run_stage", _stage(True, "update_interrupt"), props=["C15"], timeout=900),
            Unit("_run_stage[save, writer raises]", F + "Runner._run_stage", _stage(True, "writer_raises"), props=["C15"], timeout=900),
            Unit("_run_stage[thermalisation, update interrupted]", F + "Runner._run_stage", _stage(False, "update_interrupt"), props=["C15"], timeout=900),
            Unit("run[stages]", F + "Runner.run", lambda m=None: rc.run_run(m, prefixes=("C05.thermalisation.cancel", "C05.run")), props=["C15"], timeout=600),
            Unit("DataHandler.enter_exit[abstract fs]", F + "DataHandler._create_output_file / __enter__ / __exit__ / close", run_enter_exit, props=["C15"], timeout=600),
            Unit("DataHandler.save_time_step[fault enumeration]", F + "DataHandler.save_time_step", run_writer_faults, props=["C15"], timeout=600),
            Unit("TDGLSolver.solve[paths]", "tdgl.solver.solver:TDGLSolver.solve", run_solve_paths, props=["C15", "C19"], timeout=600),
            _h.bounded_unit("faults injected into real runs [bounded]", "Runner / DataHandler / tdgl.solve (real h5py)", "C15", _bounded_quick, "stopped_runs_leave_clean_truthful_output[update faults, call index 0..3]", timeout=900)]


def replay_scope(unit, obl):
    """the native replay of this property searches per unit, not per obligation: run it once per unit"""
    return "unit"


def replay(unit, obl):
    from checks import c15_native
    return c15_native.replay(unit, obl)
