"""The integer / adjacency part of the mesh construction under contract (C07; get_edges also serves C09's "sorted unique edges"):

  tdgl.finite_volume.util:get_edges                      which rows are handed to np.unique, what is returned
  tdgl.finite_volume.mesh:Mesh.find_boundary_indices     boundary sites = distinct end points of the flagged edges
  tdgl.finite_volume.util:make_adj_directed_tri_indices  the COO triples of the directed adjacency matrix
  tdgl.finite_volume.util:get_dual_edge_lengths          both loops: grouping of the adjacency entries by unordered site pair (loop 1, contract
                                                         "one append of v - 1 under the key {i, j} per entry"), the per-edge rule (loop 2,
                                                         contract "iteration e writes only position e, with centre-to-midpoint for an edge of
                                                         one triangle and centre-to-centre for an edge of two")

All for a SYMBOLIC number of sites, triangles, edges and adjacency entries.  Assumed contracts (A4): np.sort on two columns = (min, max),
np.unique(axis=0, return_counts) = distinct rows in lexicographic order with multiplicities, sp.find = the stored entries of the matrix,
csc_array((data, (i, j))) = the matrix with those entries (duplicates would be summed: none in a consistently oriented triangulation)."""
import z3

from pyvc import sym, instrument, vc as vcm, loops
from pyvc.arr import SymArray
from pyvc.models.npmodel import NP, BUILTINS
from pyvc.sym import SB, SI, SR, check, assume, explore, FreshInt, Unsupported, Undecided, PathEnd

U_ = "tdgl.finite_volume.util"
M_ = "tdgl.finite_volume.mesh"


def _imin(a, b):
    return sym.ite(a.e <= b.e, a, b)


def _imax(a, b):
    return sym.ite(a.e <= b.e, b, a)


def _rowcat(xs):
    """np.concatenate of 2-d blocks along axis 0 (symbolic row counts): row r lies in the block whose row range contains it"""
    xs = list(xs)
    w = xs[0].shape[1]
    offs, tot = [], SI(0)
    for x in xs:
        offs.append(tot)
        tot = tot + x.shape[0]

    def fn(r, c):
        out = xs[-1].at(r - offs[-1], c)
        for q in range(len(xs) - 2, -1, -1):
            out = sym.ite(r.e < (offs[q] + xs[q].shape[0]).e, xs[q].at(r - offs[q], c), out)
        return out
    a = SymArray((tot, w), fn, kind=xs[0].kind)
    a.row_blocks = xs
    return a


class MaskedRows:
    """rows of a 2-d array selected by a boolean mask (edges[is_boundary])"""

    def __init__(self, src, mask, flat=False):
        self.src, self.mask, self.flat = src, mask, flat

    def flatten(self):
        return MaskedRows(self.src, self.mask, True)
    ravel = flatten


def _patch():
    from checks import c07
    c07._patch_symarray()
    if getattr(SymArray, "_mesh_common_patched", False):
        return
    orig = SymArray.__getitem__

    def getitem(self, key):
        if isinstance(key, SymArray) and self.ndim == 2 and key.ndim == 1 and isinstance(key.at(SI(0)), SB):
            from pyvc.arr import _shape_ob
            _shape_ob(self.shape[:1], key.shape)
            return MaskedRows(self, key)
        return orig(self, key)
    SymArray.__getitem__ = getitem

    def ravel(self):
        if self.ndim == 1:
            return self
        if self.ndim == 2 and self.shape[1].concrete() is not None:
            k = self.shape[1].concrete()
            src = self
            r = SymArray((self.shape[0] * k,), lambda p: src.at(SI(p.e / k), SI(p.e % k)), kind=self.kind)
            r.ravel_of = (src, k)
            return r
        raise Unsupported("ravel")
    SymArray.ravel = ravel
    SymArray.flatten = ravel
    SymArray._mesh_common_patched = True


def _np_model(calls):
    from checks import c07

    class NPM(c07.NPG):
        int64 = "int64"

        @staticmethod
        def concatenate(xs, axis=0, dtype=None):
            xs = list(xs)
            if xs and all(isinstance(x, SymArray) and x.ndim == 2 for x in xs) and axis == 0:
                return _rowcat(xs)
            return NP.concatenate(xs)

        @staticmethod
        def sort(x, axis=-1):
            if isinstance(x, SymArray) and x.ndim == 2 and x.shape[1].concrete() == 2 and axis in (1, -1):
                src = x
                return SymArray(x.shape, lambda r, c: sym.ite(c.e == 0, _imin(src.at(r, SI(0)), src.at(r, SI(1))), _imax(src.at(r, SI(0)), src.at(r, SI(1)))), kind=x.kind)
            raise Unsupported("np.sort other than along the two columns of a pair array")

        @staticmethod
        def unique(x, return_index=False, return_inverse=False, return_counts=False, axis=None):
            if return_index or return_inverse:
                raise Unsupported("np.unique with index outputs")
            n = SI(FreshInt("n_unique"))
            assume(n >= 0)
            if isinstance(x, MaskedRows) or (isinstance(x, SymArray) and x.ndim == 1):
                u = SymArray.fresh("unique_values", (n,), "i")
            elif isinstance(x, SymArray) and x.ndim == 2:
                u = SymArray.fresh("unique_rows", (n, x.shape[1]), x.kind or "i") if axis == 0 else SymArray.fresh("unique_values", (n,), "i")
            else:
                raise Unsupported("np.unique argument")
            cnt = SymArray.fresh("unique_counts", (n,), "i")
            calls.setdefault("unique", []).append(dict(x=x, axis=axis, return_counts=return_counts, u=u, cnt=cnt))
            return (u, cnt) if return_counts else u

        @staticmethod
        def column_stack(xs):
            xs = list(xs)
            if not xs or not all(isinstance(x, SymArray) and x.ndim == 1 for x in xs):
                raise Unsupported("column_stack")
            from pyvc.arr import _shape_ob
            for x in xs[1:]:
                _shape_ob(xs[0].shape, x.shape)

            def fn(r, c):
                out = xs[-1].at(r)
                for q in range(len(xs) - 2, -1, -1):
                    out = sym.ite(c.e == q, xs[q].at(r), out)
                return out
            return SymArray((xs[0].shape[0], SI(len(xs))), fn, kind=xs[0].kind)

        @staticmethod
        def arange(a, b=None, dtype=None):
            lo, hi = (SI(0), SI.lift(a)) if b is None else (SI.lift(a), SI.lift(b))
            return SymArray((hi - lo,), lambda k: k + lo, kind="i")

        @staticmethod
        def repeat(a, k):
            if not (isinstance(a, SymArray) and a.ndim == 1 and isinstance(k, int) and k >= 1):
                raise Unsupported("repeat")
            return SymArray((a.shape[0] * k,), lambda p: a.at(SI(p.e / k)), kind=a.kind)

        @staticmethod
        def zeros(n, dtype=None):
            if isinstance(n, tuple):
                raise Unsupported("zeros of an n-d shape")
            return SymArray((SI.lift(n),), lambda k: SR(0))

        class linalg:
            @staticmethod
            def norm(a, axis=None, ord=None):
                if ord is not None:
                    raise Unsupported("norm ord")
                if isinstance(a, SymArray) and a.ndim == 1 and a.shape[0].concrete() == 2 and axis is None:
                    return sym.real_sqrt(SR.lift(a.at(SI(0))) ** 2 + SR.lift(a.at(SI(1))) ** 2)
                return NP.linalg.norm(a, axis=axis)
    return NPM


# ------------------------------------------------------------------------------------------------------------------ get_edges

def run_get_edges(mutate=None):
    _patch()
    calls = {}
    mut = [(o, n) for (m, o, n) in (mutate or []) if m == U_]
    rb = {"np": _np_model(calls)}
    rb.update(BUILTINS)
    L = instrument.load(U_, rebind=rb, mutate=mut, vc=vcm.VC())

    def body():
        calls.clear()
        T = SI(z3.Int("T"))
        assume(T >= 1)
        el = SymArray.input("elements", (T, 3), "i")
        res = L["get_edges"](el)
        us = calls.get("unique", [])
        check("C07.edges.one_unique_call_over_rows_with_counts", z3.BoolVal(len(us) == 1 and us[0]["axis"] == 0 and us[0]["return_counts"] is True))
        if len(us) != 1:
            return
        x = us[0]["x"]
        ok = isinstance(x, SymArray) and x.ndim == 2 and x.shape[1].concrete() == 2
        check("C07.edges.rows_handed_to_unique_are_site_pairs", z3.BoolVal(ok))
        if not ok:
            return
        check("C07.edges.three_rows_per_triangle", sym.eq(x.shape[0], 3 * T))
        t = SI(FreshInt("t"))
        assume(t >= 0, t < T)
        v = [el.at(t, SI(s)) for s in range(3)]
        sides = [(_imin(v[s], v[(s + 1) % 3]), _imax(v[s], v[(s + 1) % 3])) for s in range(3)]
        rows = [(x.at(T * q + t, SI(0)), x.at(T * q + t, SI(1))) for q in range(3)]

        def same(r_, s_):
            return z3.And(r_[0].e == s_[0].e, r_[1].e == s_[1].e)
        # the three rows that belong to triangle t are its three sides, each as (smaller index, larger index); the order of the blocks is free
        check("C07.edges.every_side_of_every_triangle_is_a_row", z3.And(*[z3.Or(*[same(rows[q], sides[s]) for q in range(3)]) for s in range(3)]))
        check("C07.edges.every_row_is_a_sorted_side_of_its_triangle", z3.And(*[z3.Or(*[same(rows[q], sides[s]) for s in range(3)]) for q in range(3)]))
        check("C07.edges.rows_are_sorted_pairs", z3.And(*[rows[q][0].e <= rows[q][1].e for q in range(3)]))
        okr = isinstance(res, tuple) and len(res) == 2 and all(isinstance(r, SymArray) for r in res)
        check("C07.edges.returns_edges_and_flags", z3.BoolVal(okr))
        if not okr:
            return
        u, cnt = us[0]["u"], us[0]["cnt"]
        e, c = SI(FreshInt("e")), SI(FreshInt("c"))
        assume(e >= 0, e < u.shape[0], c >= 0, c < 2)
        check("C07.edges.edges_are_the_distinct_rows", z3.And(sym.eq(res[0].shape[0], u.shape[0]), sym.eq(res[0].at(e, c), u.at(e, c))) if res[0].ndim == 2 else z3.BoolVal(False))
        fl = res[1].at(e) if res[1].ndim == 1 else None
        check("C07.edges.boundary_flag_iff_the_side_belongs_to_exactly_one_triangle",
              z3.BoolVal(False) if not isinstance(fl, SB) else z3.And(sym.eq(res[1].shape[0], u.shape[0]), fl.e == (cnt.at(e).e == 1)))
    obls, n = explore(body)
    return dict(obls=obls, paths=n, sources=[L.info()], consistent=sym.consistent())


# ------------------------------------------------------------------------------------------------------------------ find_boundary_indices

def run_boundary_indices(mutate=None):
    _patch()
    calls = {}
    mut = [(o, n) for (m, o, n) in (mutate or []) if m == M_]
    rb = {"np": _np_model(calls), "cupy": None}
    rb.update(BUILTINS)
    L = instrument.load(M_, rebind=rb, mutate=mut, vc=vcm.VC())

    def body():
        calls.clear()
        T, E = SI(z3.Int("T")), SI(z3.Int("E"))
        assume(T >= 1, E >= 1)
        el = SymArray.input("elements", (T, 3), "i")
        edges = SymArray.input("edges", (E, 2), "i")
        isb = SymArray.input("is_boundary", (E,), "b")
        seen = []

        def ge(elements):
            seen.append(elements)
            return edges, isb
        L.ns["get_edges"] = ge
        res = L["Mesh"].find_boundary_indices(el)
        check("C07.boundary_sites.edges_taken_from_the_triangulation", z3.BoolVal(len(seen) >= 1 and all(s is el for s in seen)))
        us = calls.get("unique", [])
        ok = len(us) == 1 and isinstance(us[0]["x"], MaskedRows) and us[0]["x"].flat and us[0]["axis"] is None
        check("C07.boundary_sites.distinct_end_points_of_selected_edges", z3.BoolVal(ok))
        if not ok:
            return
        mr = us[0]["x"]
        e, c = SI(FreshInt("e")), SI(FreshInt("c"))
        assume(e >= 0, e < E, c >= 0, c < 2)
        src_ok = isinstance(mr.src, SymArray) and mr.src.ndim == 2
        check("C07.boundary_sites.both_end_points_of_an_edge_are_candidates",
              z3.BoolVal(False) if not src_ok else z3.And(sym.eq(mr.src.shape[0], E), sym.eq(mr.src.shape[1], 2), sym.eq(mr.src.at(e, c), edges.at(e, c))))
        check("C07.boundary_sites.selected_edges_are_exactly_the_boundary_edges", z3.And(sym.eq(mr.mask.shape[0], E), mr.mask.at(e).e == isb.at(e).e))
        check("C07.boundary_sites.returns_the_sorted_distinct_sites", z3.BoolVal(res is us[0]["u"]))
    obls, n = explore(body)
    return dict(obls=obls, paths=n, sources=[L.info()], consistent=sym.consistent())


# ------------------------------------------------------------------------------------------------------------------ adjacency triples

class _Adj:
    """scipy.sparse matrix built from COO triples (recorded)"""

    def __init__(self, data, i, j, shape):
        self.data_, self.i, self.j, self.shape = data, i, j, shape


def _sp_model(calls, env=None):
    class SPM:
        @staticmethod
        def csc_array(arg, shape=None, dtype=None):
            if not (isinstance(arg, tuple) and len(arg) == 2 and isinstance(arg[1], tuple) and len(arg[1]) == 2):
                raise Unsupported("csc_array argument")
            a = _Adj(arg[0], arg[1][0], arg[1][1], shape)
            calls.setdefault("csc", []).append(a)
            return a
        csr_array = csc_array

        @staticmethod
        def find(a):
            calls.setdefault("find", []).append(a)
            n = SI(z3.Int("nnz"))
            assume(n >= 0)
            out = (SymArray.input("adj_row", (n,), "i"), SymArray.input("adj_col", (n,), "i"), SymArray.input("adj_val", (n,), "i"))
            # contract of the matrix the entries come from (make_adj_directed_tri_indices, proved in its own unit): values are triangle index + 1
            out[2].vmax = (env or {}).get("T")
            return out
    return SPM


def run_adjacency(mutate=None):
    _patch()
    calls = {}
    mut = [(o, n) for (m, o, n) in (mutate or []) if m == U_]
    rb = {"np": _np_model(calls), "sp": _sp_model(calls)}
    rb.update(BUILTINS)
    L = instrument.load(U_, rebind=rb, mutate=mut, vc=vcm.VC())

    def body():
        calls.clear()
        T, N = SI(z3.Int("T")), SI(z3.Int("N"))
        assume(T >= 1, N >= 3)
        el = SymArray.input("elements", (T, 3), "i")
        res = L["make_adj_directed_tri_indices"](el, N)
        ok = isinstance(res, _Adj) and all(isinstance(a, SymArray) and a.ndim == 1 for a in (res.data_, res.i, res.j))
        check("C07.adjacency.built_from_coordinate_triples", z3.BoolVal(ok))
        if not ok:
            return
        check("C07.adjacency.shape_is_sites_by_sites", z3.BoolVal(isinstance(res.shape, tuple) and len(res.shape) == 2) if not (isinstance(res.shape, tuple) and len(res.shape) == 2)
              else z3.And(sym.eq(SI.lift(res.shape[0]), N), sym.eq(SI.lift(res.shape[1]), N)))
        check("C07.adjacency.three_entries_per_triangle", z3.And(sym.eq(res.i.shape[0], 3 * T), sym.eq(res.j.shape[0], 3 * T), sym.eq(res.data_.shape[0], 3 * T)))
        t = SI(FreshInt("t"))
        assume(t >= 0, t < T)
        for s in range(3):
            p = t * 3 + s
            # entry (i, j) of the directed side s of triangle t holds t + 1 (zero means "no such directed edge")
            check(f"C07.adjacency.directed_side_of_triangle_holds_triangle_index_plus_one[{s}]",
                  z3.And(sym.eq(res.i.at(p), el.at(t, SI(s))), sym.eq(res.j.at(p), el.at(t, SI((s + 1) % 3))), sym.eq(res.data_.at(p), t + 1)))
    obls, n = explore(body)
    return dict(obls=obls, paths=n, sources=[L.info()], consistent=sym.consistent())


# ------------------------------------------------------------------------------------------------------------------ dual edge lengths

class UPair:
    """frozenset((a, b)) of two site indices: an unordered pair"""

    def __init__(self, a, b):
        self.a, self.b = SI.lift(a), SI.lift(b)

    @property
    def lo(self):
        return _imin(self.a, self.b)

    @property
    def hi(self):
        return _imax(self.a, self.b)

    def same(self, o):
        return z3.And(self.lo.e == o.lo.e, self.hi.e == o.hi.e)


def model_frozenset(it=()):
    if isinstance(it, SymArray) and it.ndim == 1 and it.shape[0].concrete() == 2:
        return UPair(it.at(SI(0)), it.at(SI(1)))
    if isinstance(it, (tuple, list)) and len(it) == 2 and any(isinstance(x, SI) for x in it):
        return UPair(it[0], it[1])
    return frozenset(it)


class _Recorder:
    def __init__(self, owner, key):
        self.owner, self.key = owner, key

    def append(self, v):
        self.owner.log.append((self.key, v))

    def __getattr__(self, nm):
        raise Unsupported(f"list operation {nm!r} on a group of the adjacency dictionary")


class GroupDict:
    """defaultdict(list) filled by the grouping loop.  While the loop body runs for the generic entry every access is recorded; after the
    loop the dictionary is the ghost grouping G: key -> [value of entry p | entries p in order with key(p) == key]"""

    def __init__(self, factory=None):
        if factory is not list:
            raise Unsupported("defaultdict of something else than list")
        self.log, self.mode, self.entries, self.default = [], "fresh", None, True

    def __getitem__(self, key):
        if not isinstance(key, UPair):
            raise Unsupported("adjacency dictionary key that is not a pair of sites")
        if self.mode == "record":
            return _Recorder(self, key)
        if self.mode == "grouped":
            return lookup_group(self, key)
        raise Undecided("adjacency dictionary read before the grouping loop")

    def __setitem__(self, key, v):
        raise Unsupported("store into the adjacency dictionary")


def model_dict(*a, **kw):
    if len(a) == 1 and isinstance(a[0], GroupDict):
        g = GroupDict(list)
        g.log, g.mode, g.entries, g.default = a[0].log, a[0].mode, a[0].entries, False
        return g
    return dict(*a, **kw)


_NADJ = z3.Function("n_adjacent_triangles", z3.IntSort(), z3.IntSort(), z3.IntSort())
_P0 = z3.Function("first_adjacency_entry", z3.IntSort(), z3.IntSort(), z3.IntSort())
_P1 = z3.Function("second_adjacency_entry", z3.IntSort(), z3.IntSort(), z3.IntSort())


class GList:
    """the list G[key]: symbolic length n in {1, 2}, elements = values of the matching entries in entry order"""

    def __init__(self, n, items):
        self.n, self.items = n, items

    def __getitem__(self, k):
        if isinstance(k, SI):
            k = k.concrete()
        if not isinstance(k, int) or isinstance(k, bool):
            raise Unsupported("symbolic position in a group")
        if k < 0:
            raise Unsupported("negative position in a group")
        check(sym._site("group_index_in_range"), z3.BoolVal(k < 2) if k >= 2 else self.n.e > k, kind="safety")
        return self.items[k]


def group_facts(ent, key):
    """ghost facts about the group of `key` among the entries (I, J, V, value): n = number of entries whose unordered pair is key (precondition
    of the mesh: 1 or 2), p0 < p1 the first two such entries"""
    lo, hi = key.lo.e, key.hi.e
    n, p0, p1 = SI(_NADJ(lo, hi)), SI(_P0(lo, hi)), SI(_P1(lo, hi))
    I_, J_ = ent["I"], ent["J"]

    def match(p):
        return UPair(I_.at(p), J_.at(p)).same(key)
    facts = [n.e >= 1, n.e <= 2, p0.e >= 0, p0.e < ent["n"].e, match(p0), z3.Implies(n.e == 2, z3.And(p1.e > p0.e, p1.e < ent["n"].e, match(p1)))]
    vmax = getattr(ent["V"], "vmax", None)
    if vmax is not None:
        V_ = ent["V"]
        facts += [z3.And(V_.at(p0).e >= 1, V_.at(p0).e <= vmax.e), z3.Implies(n.e == 2, z3.And(V_.at(p1).e >= 1, V_.at(p1).e <= vmax.e))]
    return n, p0, p1, facts


def lookup_group(d, key):
    c = sym.ctx()
    cur = c.ghost.get("current_edge")
    # precondition of the lookup (a plain dict raises KeyError otherwise): the key is the site pair of an edge of the mesh.  Every edge of the
    # mesh is a side of one or two triangles (valid triangulation), i.e. its group has one or two members.
    ok = cur is not None and check("C07.dual_length.lookup_key_is_the_site_pair_of_the_current_edge", key.same(cur))
    if not ok:
        raise Undecided("adjacency lookup with a key that is not the current edge")
    n, p0, p1, facts = group_facts(d.entries, key)
    for f in facts:
        sym.axiom(f)
    val = d.entries["value"]
    return GList(n, [val(p0), val(p1)])


def model_len(x):
    if isinstance(x, GList):
        return x.n
    return BUILTINS["len"](x)


class ZipIt:
    def __init__(self, arrays):
        self.arrays = list(arrays)


def model_zip(*a):
    if a and all(isinstance(x, SymArray) and x.ndim == 1 for x in a):
        return ZipIt(a)
    return zip(*a)


class EnumIt:
    def __init__(self, arr):
        self.arr = arr


def model_enumerate(x, start=0):
    if isinstance(x, SymArray) and start == 0:
        return EnumIt(x)
    return enumerate(x, start)


_STATE = {}


class GroupLoop(loops.LoopSpec):
    """contract of the grouping loop: `for i, j, v in zip(*sp.find(adj)): d[frozenset((i, j))].append(v - 1)`.
    Generic entry p: the body appends exactly once, under the unordered pair {row(p), col(p)}, the value val(p) - 1 (the triangle index),
    and assigns no local that survives the iteration.  Exit: d is the grouping of all entries (ghost), in entry order."""

    def __init__(self, label, name):
        super().__init__(label, inv=lambda loc, i: [], name=name)

    def cut(self, vc, label, it, getters):
        c = sym.ctx()
        self.getters = getters
        entry = self.read(getters)
        self.entry = entry
        if not isinstance(it, ZipIt) or len(it.arrays) != 3:
            raise Undecided(f"{label}: the grouping loop does not run over the (row, column, value) triples of the adjacency matrix")
        ds = [v for v in entry.values() if isinstance(v, GroupDict)]
        if len(ds) != 1:
            raise Undecided(f"{label}: adjacency dictionary not found")
        d = ds[0]
        I_, J_, V_ = it.arrays
        n = I_.shape[0]
        hv = dict(entry)
        for k in self.order:
            hv[k] = SR(sym.FreshReal("carried_" + k))
        self.cur = hv
        iterate = bool(SB(sym.FreshBool("iterate_" + label)))
        if iterate:
            p = SI(z3.Int(label + "_p"))
            c.pc += [p.e >= 0, p.e < n.e]
            d.mode, d.log = "record", []
            nw = len(c.ghost.get("writes", []))
            self.mode = "iter"
            yield (I_.at(p), J_.at(p), V_.at(p))
            check(f"{self.name}.one_append_per_adjacency_entry", z3.BoolVal(len(d.log) == 1), kind="invariant")
            check(f"{self.name}.no_array_written", z3.BoolVal(len(c.ghost.get("writes", [])) == nw), kind="invariant")
            if len(d.log) == 1:
                key, val = d.log[0]
                check("C07.dual_length.adjacency_grouped_by_unordered_site_pair", key.same(UPair(I_.at(p), J_.at(p))))
                check("C07.dual_length.group_members_are_triangle_indices", z3.BoolVal(isinstance(val, SI)) if not isinstance(val, SI) else val.e == V_.at(p).e - 1)
            raise PathEnd
        d.mode = "grouped"
        d.entries = dict(I=I_, J=J_, V=V_, n=n, value=lambda p: V_.at(p) - 1)
        self.mode, self.idx, self.last_elem = "exhausted", n, None
        return


def want_dual(ent, edges, centers, dual, e):
    """the dual length rule for edge e (z3 terms): (n, squared length)"""
    key = UPair(edges.at(e, SI(0)), edges.at(e, SI(1)))
    n, p0, p1, facts = group_facts(ent, key)
    t0, t1 = ent["value"](p0), ent["value"](p1)
    d1 = [SR.lift(dual.at(t0, SI(k))) - SR.lift(centers.at(e, SI(k))) for k in range(2)]
    d2 = [SR.lift(dual.at(t0, SI(k))) - SR.lift(dual.at(t1, SI(k))) for k in range(2)]
    sq = sym.ite(n.e == 1, d1[0] ** 2 + d1[1] ** 2, d2[0] ** 2 + d2[1] ** 2)
    return n, sq, facts, key


class DualLoop(loops.LoopSpec):
    """contract of the per-edge loop `for i, edge in enumerate(edges)`: iteration e writes position e of the result only, with
    |circumcentre - edge centre| for an edge of one triangle (boundary) and |circumcentre - circumcentre| for an edge of two; the value does
    not depend on other iterations.  Exit: every position e < E holds that value (positions are written once, by their own iteration)."""

    def __init__(self, label, name, env):
        super().__init__(label, inv=lambda loc, i: [], name=name)
        self.env = env

    def cut(self, vc, label, it, getters):
        c = sym.ctx()
        self.getters = getters
        entry = self.read(getters)
        self.entry = entry
        if not isinstance(it, EnumIt) or not (isinstance(it.arr, SymArray) and it.arr.ndim == 2):
            raise Undecided(f"{label}: the per-edge loop does not enumerate the edge array")
        edges = it.arr
        E = edges.shape[0]
        ds = [v for v in entry.values() if isinstance(v, GroupDict)]
        if len(ds) != 1 or ds[0].mode != "grouped":
            raise Undecided(f"{label}: grouped adjacency dictionary not found")
        ent = ds[0].entries
        env = self.env
        hv = dict(entry)
        for k in self.order:
            hv[k] = SR(sym.FreshReal("carried_" + k))
        self.cur = hv
        iterate = bool(SB(sym.FreshBool("iterate_" + label)))
        if iterate:
            e = SI(z3.Int(label + "_e"))
            c.pc += [e.e >= 0, e.e < E.e]
            c.ghost["current_edge"] = UPair(edges.at(e, SI(0)), edges.at(e, SI(1)))
            nw = len(c.ghost.get("writes", []))
            self.mode = "iter"
            yield (e, edges[e])
            ws = c.ghost.get("writes", [])[nw:]
            names = {id(v): k for k, v in self.read(getters).items() if isinstance(v, SymArray)}
            ok = len(ws) == 1 and id(ws[0][0]) in names and ws[0][0].ndim == 1 and hasattr(ws[0][1], "eqs")
            check(f"{self.name}.iteration_writes_one_position_of_one_result_array", z3.BoolVal(ok), kind="invariant")
            if ok:
                arr, reg = ws[0]
                check(f"{self.name}.iteration_writes_only_its_own_position", reg.eqs[0] == e.e, kind="invariant")
                n, sq, facts, _ = want_dual(ent, edges, env["centers"], env["dual"], e)
                val = SR.lift(reg.val)
                check("C07.dual_length.boundary_edge_centre_to_midpoint_inner_edge_centre_to_centre", z3.And(val.e >= 0, (val * val).e == sq.e),
                      extra=facts, fallback_extra=sym.congruence_axioms)
                _STATE[label] = names[id(arr)]
            raise PathEnd
        nm = _STATE.get(label)
        if nm is None or not isinstance(entry.get(nm), SymArray):
            raise Undecided(f"{label}: no summary (the iterate path did not establish which array the loop fills)")
        arr = entry[nm]
        old = SymArray(arr.shape, arr._fn, arr.guard)
        old._memo = arr._memo
        filled = SymArray.fresh("dual_length_filled", (E,))

        def fn(k):
            return sym.ite(z3.And(k.e >= 0, k.e < E.e), filled.at(k), old.at(k))
        arr._fn = fn
        arr._memo = {}
        arr._touch()
        env["filled"] = (arr, filled)
        self.mode, self.idx, self.last_elem = "exhausted", E, None
        return


def run_dual_edge_lengths(mutate=None):
    _patch()
    calls = {}
    mut = [(o, n) for (m, o, n) in (mutate or []) if m == U_]
    V = vcm.VC()
    spenv = {}
    rb = {"np": _np_model(calls), "sp": _sp_model(calls, spenv), "defaultdict": GroupDict, "frozenset": model_frozenset, "dict": model_dict, "zip": model_zip,
          "enumerate": model_enumerate}
    rb.update(BUILTINS)
    rb["len"] = model_len
    L = instrument.load(U_, rebind=rb, cut_loops={"get_dual_edge_lengths": {1: "dual.L1", 2: "dual.L2"}}, mutate=mut, vc=V)

    def body():
        c = sym.ctx()
        c.uf_math = True
        calls.clear()
        T, N, E = SI(z3.Int("T")), SI(z3.Int("N")), SI(z3.Int("E"))
        assume(T >= 1, N >= 3, E >= 1)
        el = SymArray.input("elements", (T, 3), "i")
        edges = SymArray.input("edges", (E, 2), "i")
        centers = SymArray.input("edge_centers", (E, 2))
        dual = SymArray.input("dual_sites", (T, 2))
        env = dict(centers=centers, dual=dual)
        spenv["T"] = T
        V.loops = {"dual.L1": GroupLoop("dual.L1", "C07.loop.get_dual_edge_lengths.L1"), "dual.L2": DualLoop("dual.L2", "C07.loop.get_dual_edge_lengths.L2", env)}
        seen = []
        adj = _Adj(None, None, None, (N, N))

        def mk(elements, num_sites):
            seen.append((elements, num_sites))
            return adj
        L.ns["make_adj_directed_tri_indices"] = mk
        res = L["get_dual_edge_lengths"](centers, el, dual, edges, N)
        check("C07.dual_length.adjacency_of_the_same_triangulation", z3.BoolVal(len(seen) == 1 and seen[0][0] is el and seen[0][1] is N and calls.get("find") == [adj]))
        got = env.get("filled")
        check("C07.dual_length.returns_the_array_filled_by_the_edge_loop", z3.BoolVal(got is not None and res is got[0]))
        if got is not None and isinstance(res, SymArray):
            check("C07.dual_length.one_length_per_edge", sym.eq(res.shape[0], E))
    obls, n = explore(body)
    return dict(obls=obls, paths=n, sources=[L.info()], consistent=sym.consistent())


# ------------------------------------------------------------------------------------------------------------------ native oracle (bounded, replay)

def native(seed=0):
    """BOUNDED: the real functions on real triangulations against brute-force definitions (replay oracle of the obligations above)"""
    import itertools
    import numpy as np
    import tdgl
    from tdgl.finite_volume import util
    from tdgl.finite_volume.mesh import Mesh
    from tdgl.geometry import box, circle
    rng = np.random.default_rng(seed)
    bad, n = [], 0
    from tdgl.device.meshing import generate_mesh
    geoms = [(box(4, 3), None, 0.6), (circle(2.0, points=50), circle(0.5, points=16), 0.5), (box(1e-3, 2e-3), None, 2.5e-4)]
    for pts, hole, mel in geoms:
        sites, el = generate_mesh(pts, hole_coords=[hole] if hole is not None else None, max_edge_length=mel)
        el = np.asarray(el, dtype=np.int64)
        perm = rng.permutation(len(el))
        for elements in (el, el[perm]):
            sides = {}
            for t, tri in enumerate(elements):
                for s in range(3):
                    sides.setdefault(tuple(sorted((int(tri[s]), int(tri[(s + 1) % 3])))), []).append(t)
            want_edges = sorted(sides)
            edges, isb = util.get_edges(elements)
            n += 1
            if [tuple(map(int, r)) for r in edges] != want_edges:
                bad.append(dict(what="get_edges: not the sorted distinct sides of the triangles", triangles=len(elements)))
            elif [bool(b) for b in isb] != [len(sides[k]) == 1 for k in want_edges]:
                bad.append(dict(what="get_edges: boundary flag is not 'side of exactly one triangle'", triangles=len(elements)))
            wb = sorted({v for k in want_edges if len(sides[k]) == 1 for v in k})
            n += 1
            if [int(v) for v in Mesh.find_boundary_indices(elements)] != wb:
                bad.append(dict(what="find_boundary_indices: not the distinct end points of the boundary edges", triangles=len(elements)))
            adj = util.make_adj_directed_tri_indices(elements, len(sites)).toarray()
            n += 1
            ok = all(adj[tri[s], tri[(s + 1) % 3]] == t + 1 for t, tri in enumerate(elements) for s in range(3)) and np.count_nonzero(adj) == 3 * len(elements)
            if not ok:
                bad.append(dict(what="make_adj_directed_tri_indices: entry of a directed side is not triangle index + 1", triangles=len(elements)))
            polys = util.get_voronoi_polygon_indices(elements, len(sites))
            n += 1
            if len(polys) != len(sites) or any(sorted(int(v) for v in pg) != sorted(t for t, tri in enumerate(elements) if i in tri) for i, pg in enumerate(polys)):
                bad.append(dict(what="get_voronoi_polygon_indices: the polygon of a site is not the list of the triangles that contain it", triangles=len(elements)))
            dualv = util.generate_voronoi_vertices(sites, elements)
            ed = np.array(want_edges)
            centers = sites[ed].mean(axis=1)
            got = util.get_dual_edge_lengths(centers, elements, dualv, ed, len(sites))
            ref = np.array([np.linalg.norm(dualv[ts[0]] - centers[k]) if len(ts) == 1 else np.linalg.norm(dualv[ts[0]] - dualv[ts[1]])
                            for k, ts in enumerate(sides[e_] for e_ in want_edges)])
            n += 1
            if got.shape != ref.shape or not np.allclose(got, ref, rtol=1e-12, atol=0):
                worst = int(np.argmax(np.abs(got - ref))) if got.shape == ref.shape else -1
                bad.append(dict(what="get_dual_edge_lengths: not centre-to-midpoint (edge of one triangle) / centre-to-centre (edge of two)", triangles=len(elements), edge=worst,
                                got=float(got[worst]) if worst >= 0 else None, want=float(ref[worst]) if worst >= 0 else None))
    # Mesh.smooth: interior sites move to the mean of their neighbours, boundary sites stay, the source mesh is untouched
    sites, el = generate_mesh(box(4, 3), max_edge_length=0.7)
    m0 = Mesh.from_triangulation(sites, np.asarray(el, dtype=np.int64))
    keep = m0.sites.copy()
    keep_dual, keep_len = m0.dual_sites.copy(), m0.edge_mesh.edge_lengths.copy()
    for iters in (1, 3):
        m1 = m0.smooth(iters)
        n += 1
        if not np.array_equal(m0.sites, keep) or not np.array_equal(m0.dual_sites, keep_dual) or not np.array_equal(m0.edge_mesh.edge_lengths, keep_len):
            bad.append(dict(what="Mesh.smooth changed the mesh it was called on", iterations=iters))
            m0 = Mesh.from_triangulation(keep.copy(), np.asarray(el, dtype=np.int64))
        ref = keep.copy()
        ed, _ = util.get_edges(m0.elements)
        bset = set(int(b) for b in m0.boundary_indices)
        for _q in range(iters):
            acc, cnt = np.zeros_like(ref), np.zeros(len(ref))
            for a_, b_ in ed:
                acc[a_] += ref[b_]
                acc[b_] += ref[a_]
                cnt[a_] += 1
                cnt[b_] += 1
            nxt = acc / cnt[:, None]
            for b_ in bset:
                nxt[b_] = ref[b_]
            ref = nxt
        n += 1
        if m1.sites.shape != ref.shape or not np.allclose(m1.sites, ref, rtol=1e-12, atol=1e-14):
            bad.append(dict(what="Mesh.smooth: a site is not at the mean of its neighbours (interior) / not where it was (boundary)", iterations=iters))
        n += 1
        if m1.dual_sites is None or not np.allclose(m1.edge_mesh.edge_lengths, np.linalg.norm(m1.sites[m1.edge_mesh.edges[:, 1]] - m1.sites[m1.edge_mesh.edges[:, 0]], axis=1)):
            bad.append(dict(what="Mesh.smooth: the returned mesh has no / a stale edge mesh", iterations=iters))
    return bad, n


MUTANTS = [
    dict(name="third side pairs vertex 2 with vertex 1", units=["get_edges"], edits=[(U_, "for e in [(0, 1), (1, 2), (2, 0)]])\n    edges = np.sort", "for e in [(0, 1), (1, 2), (2, 1)]])\n    edges = np.sort")]),
    dict(name="site pairs not sorted before np.unique", units=["get_edges"], edits=[(U_, "    edges = np.sort(edges, axis=1)\n", "")]),
    dict(name="boundary = side of two triangles", units=["get_edges"], edits=[(U_, "return edges, counts == 1", "return edges, counts == 2")]),
    dict(name="boundary sites from interior edges", units=["Mesh.find_boundary_indices"], edits=[(M_, "boundary_edges = edges[is_boundary]", "boundary_edges = edges[~is_boundary]")]),
    dict(name="boundary sites from the first end point only", units=["Mesh.find_boundary_indices"], edits=[(M_, "return np.unique(boundary_edges.flatten())", "return np.unique(boundary_edges[:, 0])")]),
    dict(name="adjacency stores the triangle index without the offset", units=["make_adj_directed_tri_indices"], edits=[(U_, "np.arange(1, elements.shape[0] + 1)", "np.arange(0, elements.shape[0])")]),
    dict(name="adjacency columns equal rows", units=["make_adj_directed_tri_indices"], edits=[(U_, "j = np.column_stack([t1, t2, t0]).ravel()", "j = np.column_stack([t0, t1, t2]).ravel()")]),
    dict(name="group member keeps the +1 offset", units=["get_dual_edge_lengths"], edits=[(U_, ".append(v - 1)", ".append(v)")]),
    dict(name="grouping by ordered pair", units=["get_dual_edge_lengths"], edits=[(U_, "edge_to_element[frozenset((i, j))]", "edge_to_element[frozenset((i, i))]")]),
    dict(name="boundary edge measured from the other circumcentre", units=["get_dual_edge_lengths"], edits=[(U_, "dual_sites[indices[0]] - edge_centers[i])", "dual_sites[indices[0]] - edge_centers[0])")]),
    dict(name="inner edge measured to the edge centre", units=["get_dual_edge_lengths"], edits=[(U_, "dual_sites[indices[0]] - dual_sites[indices[1]]", "dual_sites[indices[0]] - edge_centers[i]")]),
    dict(name="benign: inner edge measured from the second centre", units=["get_dual_edge_lengths"], edits=[(U_, "dual_sites[indices[0]] - dual_sites[indices[1]]", "dual_sites[indices[1]] - dual_sites[indices[0]]")], expect="pass"),
    dict(name="lengths written to the previous position", units=["get_dual_edge_lengths"], edits=[(U_, "            dual_lengths[i] = np.linalg.norm(\n", "            dual_lengths[i - 1] = np.linalg.norm(\n")]),
]


# ------------------------------------------------------------------------------------------------------------------ Mesh.from_triangulation (wiring)

def run_from_triangulation(mutate=None):
    """Mesh.from_triangulation / Mesh.compute_voronoi_areas_polygons: every derived field of the mesh is the result of the corresponding kernel applied to
    THIS triangulation (and to the fields derived before), nothing else - so the mesh is a function of (sites, elements) alone (C14: a mesh restored from
    the stored arrays equals the one recomputed from its triangulation; C07: dual sites / edge mesh / areas belong to the same triangulation).
    The kernels are stubs that record their arguments (their own contracts are separate units)."""
    _patch()
    calls = {}
    mut = [(o, n) for (m, o, n) in (mutate or []) if m == M_]
    rb = {"np": _np_model(calls), "cupy": None}
    rb.update(BUILTINS)
    L = instrument.load(M_, rebind=rb, mutate=mut, vc=vcm.VC())

    def body():
        calls.clear()
        log = []
        N, T = SI(z3.Int("N")), SI(z3.Int("T"))
        assume(N >= 3, T >= 2)
        sites = SymArray.input("sites", (N, 2))
        el = SymArray.input("elements", (T, 3), "i")
        sub = bool(SB(z3.Bool("create_submesh")))
        R = {k: type(k, (), {})() for k in ("BOUNDARY", "DUAL", "EDGE_MESH", "AREAS", "POLYGONS", "POLY_INDEX")}
        R["EDGE_MESH"].edges, R["EDGE_MESH"].boundary_edge_indices = "EDGES", "BOUNDARY_EDGE_INDICES"
        Mesh = L["Mesh"]

        def rec(name, ret):
            def f(*a, **k):
                log.append((name, a, k))
                return ret
            return f
        L.ns["generate_voronoi_vertices"] = rec("voronoi", R["DUAL"])
        L.ns["get_voronoi_polygon_indices"] = rec("polygon_indices", R["POLY_INDEX"])
        L.ns["compute_voronoi_polygon_areas"] = rec("polygon_areas", (R["AREAS"], R["POLYGONS"]))
        L.ns["EdgeMesh"] = type("EdgeMeshStub", (), {"from_mesh": staticmethod(rec("edge_mesh", R["EDGE_MESH"]))})
        real_fbi = Mesh.find_boundary_indices
        Mesh.find_boundary_indices = staticmethod(rec("boundary", R["BOUNDARY"]))
        got = {}
        real_init = Mesh.__init__

        def init(self_, *a, **kw):
            import inspect
            ba = inspect.signature(real_init).bind(self_, *a, **kw)      # positional or keyword: by parameter name
            got.update({k: v for k, v in ba.arguments.items() if k != "self"})
        Mesh.__init__ = init
        try:
            Mesh.from_triangulation(sites, el, create_submesh=sub)
        finally:
            Mesh.__init__, Mesh.find_boundary_indices = real_init, real_fbi

        def same_arr(a, b):
            return a is b or (isinstance(a, SymArray) and isinstance(b, SymArray) and a.ndim == b.ndim and bool(sym.quick_prove(sym.ctx().hyps(), z3.And(*[x.e == y.e for x, y in zip(a.shape, b.shape)]), 2000))
                              and _elem_equal(a, b))
        byname = {}
        for nm, a, k in log:
            byname.setdefault(nm, []).append((a, k))
        check("C07.mesh_wiring.mesh_keeps_the_triangulation_it_was_given", z3.BoolVal(same_arr(got.get("sites"), sites) and same_arr(got.get("elements"), el)))
        b = byname.get("boundary", [])
        check("C07.mesh_wiring.boundary_sites_of_this_triangulation", z3.BoolVal(len(b) == 1 and len(b[0][0]) == 1 and same_arr(b[0][0][0], el) and got.get("boundary_indices") is R["BOUNDARY"]))
        if not sub:
            check("C07.mesh_wiring.no_submesh_when_not_requested", z3.BoolVal(all(got.get(k) is None for k in ("dual_sites", "edge_mesh", "areas", "voronoi_polygons"))
                                                                               and not any(k in byname for k in ("voronoi", "edge_mesh", "polygon_areas"))))
            return
        v = byname.get("voronoi", [])
        check("C07.mesh_wiring.circumcentres_of_this_triangulation", z3.BoolVal(len(v) == 1 and len(v[0][0]) == 2 and same_arr(v[0][0][0], sites) and same_arr(v[0][0][1], el)
                                                                                 and got.get("dual_sites") is R["DUAL"]))
        e = byname.get("edge_mesh", [])
        check("C07.mesh_wiring.edge_mesh_of_this_triangulation_and_its_circumcentres",
              z3.BoolVal(len(e) == 1 and len(e[0][0]) == 3 and same_arr(e[0][0][0], sites) and same_arr(e[0][0][1], el) and e[0][0][2] is R["DUAL"] and got.get("edge_mesh") is R["EDGE_MESH"]))
        pi = byname.get("polygon_indices", [])
        ok_pi = len(pi) == 1 and len(pi[0][0]) == 2 and same_arr(pi[0][0][0], el)
        check("C07.mesh_wiring.cells_enumerate_the_triangles_around_each_site_of_this_triangulation", z3.BoolVal(ok_pi) if not ok_pi else sym.eq(SI.lift(pi[0][0][1]), N))
        pa = byname.get("polygon_areas", [])
        okpa = len(pa) == 1
        if okpa:
            a, k = pa[0]
            names = ("sites", "dual_sites", "boundary", "edges", "boundary_edge_indices", "polygons")
            kw = dict(zip(names, a))
            kw.update(k)
            okpa = (same_arr(kw.get("sites"), sites) and kw.get("dual_sites") is R["DUAL"] and kw.get("boundary") is R["BOUNDARY"] and kw.get("edges") == "EDGES"
                    and kw.get("boundary_edge_indices") == "BOUNDARY_EDGE_INDICES" and kw.get("polygons") is R["POLY_INDEX"])
        check("C07.mesh_wiring.cell_areas_from_the_derived_fields_of_this_mesh", z3.BoolVal(bool(okpa)))
        check("C07.mesh_wiring.areas_and_polygons_in_their_roles", z3.BoolVal(got.get("areas") is R["AREAS"] and got.get("voronoi_polygons") is R["POLYGONS"]))
    obls, n = explore(body)
    return dict(obls=obls, paths=n, sources=[L.info()], consistent=sym.consistent())


def _elem_equal(a, b):
    idx = [SI(FreshInt("w")) for _ in range(a.ndim)]
    hyp = [z3.And(i.e >= 0, i.e < n.e) for i, n in zip(idx, a.shape)]
    return bool(sym.quick_prove(sym.ctx().hyps() + hyp, sym.eq(a.at(*idx), b.at(*idx)), 3000))


MUTANTS += [
    dict(name="edge mesh built from the circumcentres as sites", units=["Mesh.from_triangulation"], edits=[(M_, "edge_mesh = EdgeMesh.from_mesh(sites, elements, dual_sites)", "edge_mesh = EdgeMesh.from_mesh(dual_sites, elements, dual_sites)")]),
    dict(name="areas and polygons swapped", units=["Mesh.from_triangulation"], edits=[(M_, "            areas, polygons = Mesh.compute_voronoi_areas_polygons(", "            polygons, areas = Mesh.compute_voronoi_areas_polygons(")]),
    dict(name="cell areas from all edges as boundary edges", units=["Mesh.from_triangulation"], edits=[(M_, "boundary_edge_indices=edge_mesh.boundary_edge_indices,", "boundary_edge_indices=edge_mesh.edges,")]),
    dict(name="submesh always created", units=["Mesh.from_triangulation"], edits=[(M_, "        if create_submesh:\n            dual_sites = generate_voronoi_vertices", "        if True:\n            dual_sites = generate_voronoi_vertices")]),
]


# ------------------------------------------------------------------------------------------------------------------ Mesh.smooth

_BND = z3.Function("is_boundary_site", z3.IntSort(), z3.BoolSort())


def _patch_smooth():
    """row gather / row scatter through an index array with a membership predicate; iteration over the rows of a (2, n) array"""
    _patch()
    if getattr(SymArray, "_smooth_patched", False):
        return
    orig_get, orig_set = SymArray.__getitem__, SymArray.__setitem__

    def getitem(self, key):
        r = orig_get(self, key)
        if isinstance(key, SymArray) and key.ndim == 1 and self.ndim == 2 and isinstance(r, SymArray):
            r.gather_of = (self._frozen(), key)
        return r

    def setitem(self, key, val):
        if isinstance(key, SymArray) and key.ndim == 1 and self.ndim == 2 and getattr(key, "member", None) is not None:
            g = getattr(val, "gather_of", None)
            if g is None or g[1] is not key:
                raise Unsupported("row scatter of something else than rows gathered with the same index array")
            src, mem = g[0], key.member
            old = SymArray(self.shape, self._fn, self.guard)
            old._memo = self._memo
            self._fn = lambda i, k: sym.ite(mem(i), src.at(i, k), old.at(i, k))
            self._memo = {}
            self._touch()
            from pyvc.autoloops import Region
            sym.ctx().ghost.setdefault("writes", []).append((self, Region(None, 2, {}, {}, SR(0), [])))
            return
        return orig_set(self, key, val)

    def it(self):
        n = self.shape[0].concrete()
        if n is None:
            raise Unsupported("iteration over an array of symbolic length")
        return iter([self[q] for q in range(n)])
    SymArray.__getitem__, SymArray.__setitem__, SymArray.__iter__ = getitem, setitem, it
    SymArray._smooth_patched = True


def run_smooth(mutate=None):
    """Mesh.smooth: every iteration hands Mesh.from_triangulation a NEW site array in which every interior site is the mean of its edge neighbours in the
    previous mesh and every boundary site is where it was; the triangulation is unchanged; the submesh is built for the last iteration only; the mesh the
    method is called on (its site array included) is not written; zero iterations return the mesh itself.  Stated over the RESULT (how many intermediate
    meshes are built is free): the sites of the returned mesh are the relaxation operator applied `iterations` times.  Iteration counts 0, 1, 2 are
    executed (bounded in the iteration count, unbounded in the mesh); the second iterate is compared with the operator applied to the first."""
    from pyvc import gsum
    _patch_smooth()
    calls = {}
    mut = [(o, n) for (m, o, n) in (mutate or []) if m == M_]
    NPM0 = _np_model(calls)

    class NPM(NPM0):
        @staticmethod
        def bincount(x, weights=None, minlength=0):
            if not (isinstance(x, SymArray) and x.ndim == 1):
                raise Unsupported("bincount argument")
            if weights is not None:
                from pyvc.arr import _shape_ob
                _shape_ob(x.shape, weights.shape)
            nb = SI.lift(minlength)      # every index is a valid site (precondition), so the output has exactly `minlength` bins
            if nb.concrete() == 0:
                raise Unsupported("bincount without minlength")
            xs, ws = x, weights
            rv = getattr(x, "ravel_of", None)
            if rv is not None and weights is None:
                # occurrences in the flattened (E, k) array = sum over its k columns of the occurrences in the column (re-indexing of a finite sum, A4)
                src, kk = rv

                def count(s):
                    parts = [gsum.gsum(src.shape[0], lambda t: SR(1), guard=(lambda cc: (lambda t: src.at(t, SI(cc)).e == s.e))(cc), what="bincount") for cc in range(kk)]
                    tot = parts[0]
                    for p_ in parts[1:]:
                        tot = tot + p_
                    if sym.ctx().ghost.get("every_site_has_an_edge"):
                        # precondition of the mesh (valid triangulation): every site is an end point of at least one edge; counts are non-negative
                        sym.axiom(*[p_.e >= 0 for p_ in parts], tot.e >= 1)
                    return tot
                return SymArray((nb,), count)
            return SymArray((nb,), lambda s: gsum.gsum(xs.shape[0], (lambda t: SR.lift(ws.at(t))) if ws is not None else (lambda t: SR(1)),
                                                       guard=lambda t: xs.at(t).e == s.e, what="bincount"))

        @staticmethod
        def zeros(shape, dtype=None):
            if isinstance(shape, tuple):
                return SymArray(tuple(SI.lift(v) for v in shape), lambda *i: SR(0))
            return NPM0.zeros(shape, dtype)
    rb = {"np": NPM, "cupy": None}
    rb.update(BUILTINS)
    L = instrument.load(M_, rebind=rb, mutate=mut, vc=vcm.VC())

    def body():
        c = sym.ctx()
        c.uf_math = True
        gsum.reset()
        calls.clear()
        c.ghost["every_site_has_an_edge"] = True
        N, T, E = SI(z3.Int("N")), SI(z3.Int("T")), SI(z3.Int("E"))
        assume(N >= 3, T >= 1, E >= 3)
        iters = 0 if bool(SB(z3.Bool("zero_iterations"))) else (1 if bool(SB(z3.Bool("one_iteration"))) else 2)
        sub = bool(SB(z3.Bool("create_submesh")))
        sites0 = SymArray.input("sites", (N, 2))
        pristine = SymArray.input("sites", (N, 2))
        el = SymArray.input("elements", (T, 3), "i")
        edges = SymArray.input("edges", (E, 2), "i")
        bidx = SymArray.input("boundary_indices", (SI(z3.Int("B")),), "i")
        bidx.member = lambda v: _BND(SI.lift(v).e)
        Mesh = L["Mesh"]
        ge_seen = []

        def ge(elements):
            ge_seen.append(elements)
            return edges, SymArray.input("is_boundary", (E,), "b")
        L.ns["get_edges"] = ge
        me = Mesh.__new__(Mesh)
        me.sites, me.elements, me.boundary_indices = sites0, el, bidx
        made = []
        nwrites = len(c.ghost.get("writes", []))
        real_ft = Mesh.from_triangulation

        def ft(sites, elements, create_submesh=True):
            m = Mesh.__new__(Mesh)
            # like the real constructor (np.asarray(...).squeeze()): the mesh keeps the array it is given
            m.sites, m.elements, m.boundary_indices = sites, elements, bidx
            made.append(dict(new=sites, elements=elements, sub=create_submesh, mesh=m))
            return m
        Mesh.from_triangulation = staticmethod(ft)
        try:
            res = me.smooth(iters, create_submesh=sub)
        finally:
            Mesh.from_triangulation = real_ft
        check("C07.smooth.neighbours_taken_from_the_edges_of_this_triangulation", z3.BoolVal(len(ge_seen) >= 1 and all(x is el for x in ge_seen)))
        s_, k_ = SI(FreshInt("site")), SI(FreshInt("k"))
        assume(s_ >= 0, s_ < N, k_ >= 0, k_ < 2)
        # frame: the mesh smooth() was called on is not written (its site array holds what it held)
        check("C07.smooth.source_mesh_not_written", z3.And(sym.eq(sites0.at(s_, k_), pristine.at(s_, k_)), z3.BoolVal(me.sites is sites0 and me.elements is el and me.boundary_indices is bidx)))
        if iters == 0:
            # the mesh itself, or a mesh built from the same positions
            same = res is me
            if not same and made and res is made[-1]["mesh"] and isinstance(made[-1]["new"], SymArray) and made[-1]["new"].ndim == 2 and made[-1]["elements"] is el:
                nw_ = made[-1]["new"]
                check("C07.smooth.zero_iterations_leave_the_sites_where_they_are", z3.And(sym.eq(nw_.shape[0], N), sym.eq(nw_.at(s_, k_), pristine.at(s_, k_))))
            else:
                check("C07.smooth.zero_iterations_leave_the_sites_where_they_are", z3.BoolVal(same))
            return
        ok = bool(made) and res is made[-1]["mesh"] and isinstance(made[-1]["new"], SymArray) and made[-1]["new"].ndim == 2
        check("C07.smooth.returns_a_mesh_built_from_the_relaxed_sites", z3.BoolVal(ok))
        if not ok:
            return
        last = made[-1]
        new = last["new"]
        check("C07.smooth.returned_mesh_keeps_the_triangulation", z3.BoolVal(last["elements"] is el))
        check("C07.smooth.returned_mesh_has_the_requested_submesh", z3.BoolVal(bool(last["sub"]) == sub))
        check("C07.smooth.returned_sites_are_a_new_array", z3.BoolVal(new is not sites0))
        check("C07.smooth.one_position_per_site", z3.And(sym.eq(new.shape[0], N), sym.eq(new.shape[1], 2)))

        def degree(v):
            a0 = gsum.gsum(E, lambda t: SR(1), guard=lambda t: edges.at(t, SI(0)).e == v.e, what="edges starting at v")
            a1 = gsum.gsum(E, lambda t: SR(1), guard=lambda t: edges.at(t, SI(1)).e == v.e, what="edges ending at v")
            sym.axiom(a0.e >= 0, a1.e >= 0, (a0 + a1).e >= 1)      # valid mesh: every site has a neighbour
            return a0, a1

        def relaxed(prev):
            """the specification of one iteration as an array: boundary sites stay, interior sites move to the mean of their edge neighbours"""
            def fn(v, k):
                if k.concrete() is None:
                    # the code relaxes the two coordinates separately: the specification is stated per coordinate as well
                    return sym.ite(k.e == 0, fn(v, SI(0)), fn(v, SI(1)))
                a0, a1 = degree(v)
                up = gsum.gsum(E, lambda t: SR.lift(prev.at(edges.at(t, SI(1)), k)), guard=lambda t: edges.at(t, SI(0)).e == v.e, what="neighbours over edges starting at v")
                dn = gsum.gsum(E, lambda t: SR.lift(prev.at(edges.at(t, SI(0)), k)), guard=lambda t: edges.at(t, SI(1)).e == v.e, what="neighbours over edges ending at v")
                return sym.ite(_BND(v.e), SR.lift(prev.at(v, k)), (up + dn) / (a0 + a1))
            return SymArray((N, SI(2)), fn)
        want = pristine
        for _q in range(iters):
            want = relaxed(want)
        c0, c1 = degree(s_)
        deg = c0 + c1
        prev = pristine if iters == 1 else relaxed(pristine)
        check("C07.smooth.boundary_sites_stay", z3.Implies(_BND(s_.e), sym.eq(new.at(s_, k_), pristine.at(s_, k_))))

        def summand(t):
            return (sym.ite(edges.at(t, SI(0)).e == s_.e, SR.lift(prev.at(edges.at(t, SI(1)), k_)), SR(0))
                    + sym.ite(edges.at(t, SI(1)).e == s_.e, SR.lift(prev.at(edges.at(t, SI(0)), k_)), SR(0))) / deg
        c.pc.append(z3.Not(_BND(s_.e)))
        gsum.value_is_sum("C07.smooth.interior_site_moves_to_the_mean_of_its_neighbours_in_the_previous_iterate", new.at(s_, k_), E, summand, coefficients=[c0, c1])
        c.pc.pop()
    obls, n = explore(body)
    return dict(obls=obls, paths=n, sources=[L.info()], consistent=sym.consistent())


MUTANTS += [
    dict(name="smooth relaxes the site array of the mesh it is called on", units=["Mesh.smooth"], edits=[(M_, "            new_sites = np.zeros(shape)\n", "            new_sites = sites\n            new_sites *= 0\n")]),
    dict(name="smooth moves the boundary sites too", units=["Mesh.smooth"], edits=[(M_, "            new_sites[boundary] = sites[boundary]\n", "")]),
    dict(name="smooth averages over the start points only", units=["Mesh.smooth"], edits=[(M_, "            vals = sites[edges[:, 0]].T\n            new_sites += np.array(\n                [np.bincount(edges[:, 1], val, minlength=n) for val in vals]\n            ).T\n", "")]),
    dict(name="benign: smooth builds the submesh in every iteration", units=["Mesh.smooth"], edits=[(M_, "create_submesh=(create_submesh and (i == (iterations - 1))),", "create_submesh=create_submesh,")], expect="pass"),
    dict(name="smooth never builds the submesh", units=["Mesh.smooth"], edits=[(M_, "create_submesh=(create_submesh and (i == (iterations - 1))),", "create_submesh=False,")]),
    dict(name="smooth always starts from the original sites", units=["Mesh.smooth"], edits=[(M_, "        for i in range(iterations):\n            sites = mesh.sites\n", "        for i in range(iterations):\n            sites = self.sites\n")]),
]


# ------------------------------------------------------------------------------------------------------------------ Device.make_mesh (wiring) and the device's mesh quantities

DV_ = "tdgl.device.device"


def run_make_mesh(mutate=None, prefixes=("C07.", "C08.")):
    """Device.make_mesh / _create_dimensionless_mesh and the mesh quantities of the device in length units:
    the mesher gets the film outline, the outline of EVERY hole (whatever its `mesh` flag), the film outline again as boundary, the requested
    max_edge_length (one coherence length when none is given) and the caller's mesher options; smoothing is applied to that triangulation the requested
    number of times; the device's mesh is built from the resulting points DIVIDED BY the coherence length (same triangles, full submesh); and
    Device.points / edge_lengths / areas give those quantities back multiplied by xi, xi, xi^2 (C08: the mesh is dimensionless, the device's views
    of it are in length units) - symbolic number of sites, symbolic xi."""
    _patch()
    calls = {}
    mut = [(o, n) for (m, o, n) in (mutate or []) if m == DV_]
    NPM = _np_model(calls)
    rb = {"np": NPM}
    rb.update(BUILTINS)
    L = instrument.load(DV_, rebind=rb, mutate=mut, vc=vcm.VC())

    def body():
        c = sym.ctx()
        c.record_prefixes = tuple(prefixes)
        R = z3.Real
        N, T = SI(z3.Int("N")), SI(z3.Int("T"))
        assume(N >= 3, T >= 1)
        xi = SR(R("xi"))
        assume(xi > 0)
        Device = L["Device"]
        film_pts = SymArray.input("film_points", (SI(z3.Int("n_film")), 2))
        hole_pts = [SymArray.input(f"hole{q}_points", (SI(z3.Int(f"n_hole{q}")), 2)) for q in range(2)]
        smooth = 0 if bool(SB(z3.Bool("no_smoothing"))) else 3
        default_len = bool(SB(z3.Bool("default_max_edge_length")))
        mel = None if default_len else SR(R("max_edge_length"))
        mp = SI(z3.Int("min_points"))
        gen = {}
        pts_out = SymArray.input("mesher_points", (N, 2))
        tri_out = SymArray.input("mesher_triangles", (T, 3), "i")

        def generate_mesh(poly, **kw):
            gen.update(poly=poly, kw=kw)
            return pts_out, tri_out
        L.ns["generate_mesh"] = generate_mesh
        log = []
        smoothed = SymArray.input("smoothed_sites", (N, 2))

        class MeshStub:
            def __init__(self, sites, elements, sub, made_by):
                self.sites, self.elements, self.sub, self.made_by = sites, elements, sub, made_by
                self.edge_mesh = type("EM", (), {"edge_lengths": SymArray.input("dimensionless_edge_lengths", (SI(z3.Int("E")),))})()
                self.areas = SymArray.input("dimensionless_areas", (N,))

            @staticmethod
            def from_triangulation(sites, elements, create_submesh=True):
                m = MeshStub(sites, elements, create_submesh, "from_triangulation")
                log.append(("from_triangulation", m))
                return m

            def smooth(self, iterations, create_submesh=True):
                m = MeshStub(smoothed, self.elements, create_submesh, "smooth")
                log.append(("smooth", self, iterations, create_submesh, m))
                return m
        L.ns["Mesh"] = MeshStub
        d = Device.__new__(Device)
        d.name, d._length_units, d.mesh = "d", "LEN", None
        d.layer = type("Layer", (), {"coherence_length": xi})()
        Device.coherence_length = property(lambda self_: type("Qx", (), {"magnitude": xi})())
        d.film = type("Poly", (), {"points": film_pts, "mesh": True})()
        d.holes = [type("Poly", (), {"points": hole_pts[0], "mesh": True})(), type("Poly", (), {"points": hole_pts[1], "mesh": False})()]
        d.terminals = ()
        d.make_mesh(max_edge_length=mel, min_points=mp, smooth=smooth, min_angle=25)
        kw = gen.get("kw", {})
        hc = kw.get("hole_coords")
        check("C07.make_mesh.mesher_gets_the_film_outline_and_every_hole_outline",
              z3.BoolVal(gen.get("poly") is film_pts and isinstance(hc, list) and len(hc) == 2 and hc[0] is hole_pts[0] and hc[1] is hole_pts[1] and kw.get("boundary") is film_pts))
        check("C07.make_mesh.mesher_options_are_the_callers", z3.BoolVal(kw.get("min_points") is mp and kw.get("min_angle") == 25
                                                                          and set(kw) == {"hole_coords", "min_points", "max_edge_length", "boundary", "min_angle"}), note=str(sorted(kw)))
        got_mel = kw.get("max_edge_length")
        check("C07.make_mesh.default_resolution_is_one_coherence_length", z3.BoolVal(got_mel is not None) if got_mel is None else sym.eq(SR.lift(got_mel), xi if default_len else mel))
        final = d.mesh
        okf = isinstance(final, MeshStub) and final.made_by == "from_triangulation" and isinstance(final.sites, SymArray)
        check("C07.make_mesh.device_mesh_built_from_a_triangulation_with_full_submesh", z3.BoolVal(bool(okf) and final.sub is True and final.elements is tri_out))
        if not okf:
            return
        i, k = SI(FreshInt("i")), SI(FreshInt("k"))
        assume(i >= 0, i < N, k >= 0, k < 2)
        src = smoothed if smooth else pts_out
        check("C08.make_mesh.mesh_sites_are_the_points_divided_by_the_coherence_length", z3.And(sym.eq(final.sites.shape[0], N), sym.eq(SR.lift(final.sites.at(i, k)) * xi, src.at(i, k))))
        if smooth:
            sm_ = [e for e in log if e[0] == "smooth"]
            oks = len(sm_) == 1 and sm_[0][1].sites is pts_out and sm_[0][1].elements is tri_out and sm_[0][2] == smooth
            check("C07.make_mesh.requested_smoothing_applied_to_the_meshers_triangulation", z3.BoolVal(bool(oks)))
        else:
            check("C07.make_mesh.no_smoothing_when_not_requested", z3.BoolVal(not any(e[0] == "smooth" for e in log)))
        # the device's views of its mesh, in length units
        e_ = SI(FreshInt("e"))
        assume(e_ >= 0, e_ < final.edge_mesh.edge_lengths.shape[0])
        P = d.points
        check("C08.device_mesh_quantities.points_are_sites_times_xi", z3.BoolVal(isinstance(P, SymArray)) if not isinstance(P, SymArray) else sym.eq(P.at(i, k), SR.lift(final.sites.at(i, k)) * xi))
        EL = d.edge_lengths
        check("C08.device_mesh_quantities.edge_lengths_times_xi", z3.BoolVal(isinstance(EL, SymArray)) if not isinstance(EL, SymArray)
              else sym.eq(EL.at(e_), SR.lift(final.edge_mesh.edge_lengths.at(e_)) * xi))
        AR = d.areas
        check("C08.device_mesh_quantities.areas_times_xi_squared", z3.BoolVal(isinstance(AR, SymArray)) if not isinstance(AR, SymArray) else sym.eq(AR.at(i), SR.lift(final.areas.at(i)) * xi * xi))
        check("C07.device_mesh_quantities.triangles_are_the_mesh_elements", z3.BoolVal(d.triangles is tri_out))
        # voltage probes: looked up on the DIMENSIONLESS mesh, i.e. at the probe positions divided by the coherence length, one site per probe, in order
        asked = []
        final.closest_site = lambda xy: asked.append(xy) or SI(FreshInt("site_index"))
        import numpy as _np
        d.probe_points = _np.array([[0.5, -1.25], [2.0, 0.75], [-3.0, 0.125]])
        idxs = d.probe_point_indices
        okq = isinstance(idxs, list) and len(idxs) == 3 and len(asked) == 3
        check("C08.device_mesh_quantities.one_site_per_probe_point", z3.BoolVal(okq))
        if okq:
            goal = []
            for q in range(3):
                a = asked[q]
                for cc in range(2):
                    goal.append(sym.eq(SR.lift(a[cc]) * xi, float(d.probe_points[q, cc])))
            check("C08.device_mesh_quantities.probes_looked_up_at_their_positions_divided_by_xi", z3.And(*goal))
    obls, n = explore(body)
    return dict(obls=obls, paths=n, sources=[L.info()], consistent=sym.consistent())


MUTANTS += [
    dict(name="make_mesh drops holes flagged mesh=False", units=["Device.make_mesh"], edits=[(DV_, "hole_coords=[hole.points for hole in self.holes],", "hole_coords=[hole.points for hole in self.holes if hole.mesh],")]),
    dict(name="make_mesh: dimensionless mesh multiplied by xi", units=["Device.make_mesh"], edits=[(DV_, "            points / self.coherence_length.magnitude,\n            triangles,", "            points * self.coherence_length.magnitude,\n            triangles,")]),
    dict(name="make_mesh: smoothing result dropped", units=["Device.make_mesh"], edits=[(DV_, "            points = mesh.sites\n            triangles = mesh.elements\n", "            triangles = mesh.elements\n")]),
    dict(name="make_mesh: default resolution of one length unit", units=["Device.make_mesh"], edits=[(DV_, "            max_edge_length = 1.0 * self.coherence_length.magnitude", "            max_edge_length = 1.0")]),
    dict(name="probe points looked up in length units", units=["Device.make_mesh"], edits=[(DV_, "return [self.mesh.closest_site(xy) for xy in self.probe_points / xi]", "return [self.mesh.closest_site(xy) for xy in self.probe_points]")]),
    dict(name="device areas scaled by xi", units=["Device.make_mesh"], edits=[(DV_, "        return self.mesh.areas * self.coherence_length.magnitude**2", "        return self.mesh.areas * self.coherence_length.magnitude")]),
]


# ------------------------------------------------------------------------------------------------------------------ cell areas (fifth session)

def run_voronoi_cell_areas(mutate=None, prefixes=("C07.",)):
    """compute_voronoi_polygon_areas, the per-site rule, on the REAL code with real numpy on object arrays: the combinatorial structure of ONE cell is
    concrete (an interior cell with 4 Voronoi vertices, or a boundary cell with 1, 2 or 3 Voronoi vertices whose site is an end point of exactly two boundary edges, the site at
    different positions of the site list, further sites and boundary edges around it), every coordinate is a symbolic real, and the two geometric
    oracles are abstract: the convex-hull routine (area of the hull of a POINT SET, convexity flag: free answers) and the angular sort (an arbitrary
    permutation of the rows - all permutations are enumerated).  Decided for all coordinates and all oracle answers:
      interior site: area = hull area of its Voronoi vertices; a non-convex interior cell is refused;
      boundary site: the hull routine is asked about exactly {Voronoi vertices} + {midpoints of the TWO boundary edges that end at this site} + {the site};
        area = that hull area, minus the hull area of {the two midpoints, the site} when the completed cell is not convex; in the polygon handed back the
        site sits between the two midpoints whenever the angular sort put them next to each other (cyclically), and the other points keep the sort's order;
      frame: the iteration of site s writes areas[s] only; no input array is written; one area and one polygon per site, in site order."""
    import itertools as _it
    import numpy as np
    mut = [(o, n) for (m, o, n) in (mutate or []) if m == U_]

    class NPO:
        """real numpy, except that freshly allocated float arrays hold objects (symbolic reals)"""
        def __getattr__(self, k):
            return getattr(np, k)

        @staticmethod
        def zeros(shape, dtype=float):
            a = np.empty(shape, dtype=object)
            a[...] = 0
            return a
    warnings_ = []
    logger = type("Log", (), {"warning": staticmethod(lambda *a, **k: warnings_.append(a)), "info": staticmethod(lambda *a, **k: None), "debug": staticmethod(lambda *a, **k: None)})()
    L = instrument.load(U_, rebind={"np": NPO(), "tqdm": (lambda it, **k: it), "logger": logger}, mutate=mut, vc=vcm.VC())

    def key(v):
        return z3.simplify(SR.lift(v).e).sexpr()

    def pkey(row):
        return (key(row[0]), key(row[1]))

    def pick(n, what):
        """an arbitrary element of range(n): the path forks"""
        for i in range(n - 1):
            if bool(SB(sym.FreshBool(f"{what}_is_{i}"))):
                return i
        return n - 1

    CASES = [dict(kind="interior", m=4, pos=1), dict(kind="boundary", m=1, pos=2), dict(kind="boundary", m=2, pos=0, flip=True), dict(kind="boundary", m=3, pos=1)]

    def body(case):
        c = sym.ctx()
        c.record_prefixes = tuple(prefixes)
        del warnings_[:]
        tag = f"{case['kind']} cell, {case['m']} Voronoi vertices, site {case['pos']}"
        NS, T = 5, 7
        sites = np.empty((NS, 2), dtype=object)
        dual = np.empty((T, 2), dtype=object)
        for i in range(NS):
            sites[i] = [SR(z3.Real(f"site{i}_x")), SR(z3.Real(f"site{i}_y"))]
        for t in range(T):
            dual[t] = [SR(z3.Real(f"vor{t}_x")), SR(z3.Real(f"vor{t}_y"))]
        s = case["pos"]
        # the listed sites are 0..2 (one polygon each); the cell under test is entry s; its two boundary neighbours p, q are sites that are not listed,
        # so the other listed cells are interior cells (three Voronoi vertices, fixed oracle answers) whatever happens to the cell under test
        p, q, r = 3, 4, [i for i in range(3) if i != s][0]
        # edges of the mesh (site pairs); the boundary ones are picked by index.  Two boundary edges end at s (written in either orientation), one
        # boundary edge does not touch it, one interior edge touches it.
        e_sp = (p, s) if case.get("flip") else (s, p)
        edges = np.array([(p, q), e_sp, (s, r), (q, s), (r, [i for i in range(3) if i not in (s, r)][0])], dtype=np.int64)
        bidx = np.array([0, 1, 3], dtype=np.int64) if case["kind"] == "boundary" else np.array([0], dtype=np.int64)
        boundary = np.array(sorted({int(v) for k in bidx for v in edges[k]}), dtype=np.int64)
        cell = [4, 0, 3, 6][: case["m"]]
        polygons = [np.array([1, 2, 5]) for _ in range(3)]
        polygons[s] = np.array(cell)
        under_test = frozenset(pkey(dual[t]) for t in cell)
        H, asked, oriented = {}, [], []

        def hull(coords):
            rows = [tuple(x) for x in np.asarray(coords, dtype=object)]
            pts = frozenset(pkey(x) for x in rows)
            asked.append((pts, len(rows)))
            if pts not in H:
                # the convexity answer is free for the sets that involve the cell under test; three points or fewer are always reported convex
                # (a triangle is its own hull; collinear points: area 0, convex - the QhullError branch of the real routine)
                free = (bool(under_test & pts) or pkey(sites[s]) in pts) and len(rows) > 3
                H[pts] = (SR(sym.FreshReal("hull_area")), bool(SB(sym.FreshBool("hull_says_convex"))) if free else True)
            return H[pts]

        def orient_(vertices):
            v = np.asarray(vertices, dtype=object)
            n_ = len(v)
            if not (under_test & frozenset(pkey(x) for x in v)):
                return v.copy()
            left, perm = list(range(n_)), []
            while left:
                perm.append(left.pop(pick(len(left), f"sort_puts_row_{len(perm)}")))
            oriented.append((frozenset(pkey(x) for x in v), [pkey(v[i]) for i in perm]))
            return v[perm]
        L.ns["get_convex_polygon_area"] = hull
        L.ns["orient_convex_polygon"] = orient_
        # neighbouring interior cells must not fork: boundary set excludes them unless the case says boundary
        if case["kind"] == "interior":
            boundary = np.array([v for v in boundary if v != s], dtype=np.int64)
        snap = [a.copy() for a in (sites, dual, boundary, edges, bidx)] + [pg.copy() for pg in polygons]
        # the two midpoints and the site are pairwise different points, and no Voronoi vertex of the cell coincides with them (a cell of positive size)
        mids = [((sites[a][0] + sites[b][0]) / 2, (sites[a][1] + sites[b][1]) / 2) for a, b in (e_sp, (q, s))]
        special = [pkey(m_) for m_ in mids] + [pkey(sites[s])]
        pts_all = [tuple(m_) for m_ in mids] + [tuple(sites[s])] + [tuple(dual[t]) for t in cell]
        # generic position: the points of the cell have pairwise different abscissae (so that equality of two points is decided by the first coordinate;
        # coincident or vertically aligned points are a set of measure zero and stay with the bounded family)
        for a_, b_ in _it.combinations(pts_all, 2):
            assume(SB(SR.lift(a_[0]).e != SR.lift(b_[0]).e))
        try:
            areas, vor = L["compute_voronoi_polygon_areas"](sites, dual, boundary, edges, bidx, polygons)
        except ValueError as ex:
            cv = H.get(under_test, (None, True))[1]
            check(f"C07.cell_area.refused_only_for_a_non_convex_interior_cell[{tag}]", z3.BoolVal(case["kind"] == "interior" and cv is False), note=str(ex)[:120])
            return
        check(f"C07.cell_area.one_area_and_one_polygon_per_site_in_site_order[{tag}]", z3.BoolVal(len(areas) == 3 and len(vor) == 3))
        check(f"C07.cell_area.inputs_not_written[{tag}]", z3.BoolVal(all(np.array_equal(a, b) for a, b in zip([sites, dual, boundary, edges, bidx] + polygons, snap))))
        got = SR.lift(areas[s])
        if case["kind"] == "interior":
            check(f"C07.cell_area.interior_cell_is_the_hull_of_its_voronoi_vertices[{tag}]", z3.And(z3.BoolVal(under_test in H and H[under_test][1] is True), got.e == H[under_test][0].e if under_test in H else z3.BoolVal(False)))
            check(f"C07.cell_area.interior_polygon_is_the_sorted_vertex_list[{tag}]", z3.BoolVal(bool(oriented) and [pkey(x) for x in vor[s]] == oriented[-1][1] and oriented[-1][0] == under_test))
            return
        full = under_test | frozenset(special)
        tri = frozenset(special)
        check(f"C07.cell_area.midpoints_are_those_of_the_two_boundary_edges_at_this_site[{tag}]",
              z3.BoolVal(bool(oriented) and oriented[-1][0] == under_test | frozenset(special[:2])), note=f"sorted set has {len(oriented[-1][0]) if oriented else 0} points")
        check(f"C07.cell_area.hull_asked_about_vertices_midpoints_and_the_site[{tag}]", z3.BoolVal(full in H))
        if full in H:
            a_full, convex = H[full]
            want = a_full if convex else a_full - H[tri][0] if tri in H else None
            check(f"C07.cell_area.boundary_cell_is_the_completed_hull_minus_the_concave_triangle[{tag}]", got.e == want.e if want is not None else z3.BoolVal(False))
        if oriented:
            order = oriented[-1][1]
            n_ = len(order)
            i_, j_ = sorted(order.index(k_) for k_ in special[:2])
            out = [pkey(x) for x in vor[s]]
            adjacent = (j_ == i_ + 1) or (i_ == 0 and j_ == n_ - 1)
            check(f"C07.cell_area.other_points_keep_the_order_of_the_angular_sort[{tag}]", z3.BoolVal([k_ for k_ in out if k_ != special[2]] == order and out.count(special[2]) == 1))
            if adjacent and out.count(special[2]) == 1:
                k = out.index(special[2])
                nb = {out[(k - 1) % len(out)], out[(k + 1) % len(out)]}
                check(f"C07.cell_area.site_sits_between_the_two_midpoints[{tag}]", z3.BoolVal(nb == set(special[:2])))
            # (midpoints that the sort did not put next to each other: a malformed cell, outside the premise of the property - nothing is demanded
            # of the polygon handed back; the area rule above still holds)
        # frame: the other entries were produced by their own iterations (interior neighbours: hull of their own three vertices)
        nb_set = frozenset(pkey(dual[t]) for t in (1, 2, 5))
        check(f"C07.cell_area.iteration_writes_only_its_own_entry[{tag}]",
              z3.And(*[SR.lift(areas[i]).e == H[nb_set][0].e for i in range(3) if i != s]) if nb_set in H else z3.BoolVal(False))
    obls, n = [], 0
    for case in CASES:
        o_, n_ = explore(lambda case=case: body(case), safety=False, max_paths=20000)
        obls += o_
        n += n_
    return dict(obls=obls, paths=n, sources=[L.info()], consistent=sym.consistent())


def run_voronoi_polygon_indices(mutate=None):
    """get_voronoi_polygon_indices: the polygon of site i is, entry by entry, (value stored in row i of the directed adjacency) - 1, one polygon per site
    in site order, for the adjacency of THESE elements and this number of sites.  With the contract of make_adj_directed_tri_indices (value t + 1 at
    (el[t, s], el[t, s + 1 mod 3]): every triangle that contains site i has exactly one directed side starting at i) the polygon of site i is the list of
    the triangles that contain site i.  The row list has a concrete length (3 sites; the function maps over the rows independently), every row has a
    symbolic length and symbolic entries."""
    _patch()
    calls = {}
    mut = [(o, n) for (m, o, n) in (mutate or []) if m == U_]
    rb = {"np": _np_model(calls)}
    rb.update(BUILTINS)
    L = instrument.load(U_, rebind=rb, mutate=mut, vc=vcm.VC())

    def body():
        T, N = SI(z3.Int("T")), SI(z3.Int("N"))
        assume(T >= 1, N >= 3)
        el = SymArray.input("elements", (T, 3), "i")
        rows = [SymArray.input(f"row{i}_stored_values", (SI(z3.Int(f"len_row{i}")),), "i") for i in range(3)]
        for r_ in rows:
            assume(r_.shape[0] >= 0)
        seen = []

        class Lil:
            data = rows

        class Adj:
            def tolil(self):
                seen.append("tolil")
                return Lil()

        def mk(elements, num_sites):
            seen.append((elements, num_sites))
            return Adj()
        L.ns["make_adj_directed_tri_indices"] = mk
        res = L["get_voronoi_polygon_indices"](el, N)
        check("C07.polygon_indices.adjacency_of_these_elements_and_this_number_of_sites", z3.BoolVal(len(seen) >= 1 and seen[0][0] is el and seen[0][1] is N))
        check("C07.polygon_indices.one_polygon_per_site_in_site_order", z3.BoolVal(isinstance(res, list) and len(res) == len(rows)))
        k = SI(sym.FreshInt("k"))
        for i, (got, row) in enumerate(zip(res if isinstance(res, list) else [], rows)):
            ok = isinstance(got, SymArray) and got.ndim == 1
            check(f"C07.polygon_indices.as_many_entries_as_stored_values[site {i}]", sym.eq(got.shape[0], row.shape[0]) if ok else z3.BoolVal(False))
            check(f"C07.polygon_indices.entry_is_the_stored_value_minus_one_in_stored_order[site {i}]",
                  z3.Implies(z3.And(k.e >= 0, k.e < row.shape[0].e), SI.lift(got.at(k)).e == row.at(k).e - 1) if ok else z3.BoolVal(False))
    obls, n = explore(body)
    return dict(obls=obls, paths=n, sources=[L.info()], consistent=sym.consistent())
