"""The REAL DataHandler.save_time_step on the abstract HDF5 store with SYMBOLIC arrays: what a frame looks like on disk.
Closes the link between the runner's proved postcondition (what is handed to the writer: state, data, the record buffer) and the file model
the reader contracts (checks/reader_common.py) start from:
    data/<n>           n = 0, 1, 2, ... in the order of the calls; attrs step / time / dt = the state handed over (plus a timestamp)
    data/<n>/<key>     = the array handed over, for every key of `data`
    data/<n>/running_state/<name>   only when a buffer is handed over; a buffer with ONE row (dt, screening_iterations: shape (1, k)) is stored
                       as its row (shape (k,)) for EVERY k >= 1 (also k = 1); a buffer with P >= 2 rows (mu, theta at the probe points) is
                       stored as it is (shape (P, k)).  No bound on k, P, the array sizes or the frame number."""
import logging

import z3

from pyvc import sym, instrument, vc as vcm
from pyvc.arr import SymArray
from pyvc.models import fsmodel
from pyvc.sym import SB, SI, SR, check, assume, explore, FreshInt

R_ = "tdgl.solver.runner"


def load_runner(fs, mutate=None):
    mut = [(o, n) for (m, o, n) in (mutate or []) if m == R_]
    rebind = {"h5py": fsmodel.H5(fs), "os": fsmodel.OSModel(fs), "tempfile": fsmodel.TempfileModel(fs), "Path": fsmodel.PathModel}
    return instrument.load(R_, rebind=rebind, mutate=mut, vc=vcm.VC())


def run_writer_layout(mutate=None, prefixes=("C05.",)):
    def body():
        c = sym.ctx()
        c.record_prefixes = tuple(prefixes)
        c.squeeze_forks = True
        fs = fsmodel.FS()
        L = load_runner(fs, mutate)
        lg = logging.getLogger("pyvc-dh")
        lg.disabled = True
        dh = L["DataHandler"](output_file="o.h5", logger=lg)
        dh.__enter__()
        N, k, P = SI(z3.Int("n_sites")), SI(z3.Int("buffer_size")), SI(z3.Int("n_probes"))
        assume(N >= 1, k >= 1, P >= 2)
        probes = bool(SB(z3.Bool("has_probes")))
        screening = bool(SB(z3.Bool("records_screening_iterations")))
        frames = []
        for f in range(3):
            state = dict(step=SI(z3.Int(f"step{f}")), time=SR(z3.Real(f"time{f}")), dt=SR(z3.Real(f"dt{f}")))
            data = dict(psi=SymArray.input(f"psi{f}", (N,), "c"), mu=SymArray.input(f"mu{f}", (N,)), supercurrent=SymArray.input(f"js{f}", (SI(z3.Int("n_edges")),)))
            rs = None
            if f >= 1:
                rs = dict(dt=SymArray.input(f"buf_dt{f}", (SI(1), k)))
                if probes:
                    rs["mu"] = SymArray.input(f"buf_mu{f}", (P, k))
                    rs["theta"] = SymArray.input(f"buf_theta{f}", (P, k))
                if screening:
                    rs["screening_iterations"] = SymArray.input(f"buf_it{f}", (SI(1), k))
            dh.save_time_step(state, data, rs)
            frames.append((state, data, rs))
        root = dh.output_file["data"]
        check("C05.writer.frames_are_numbered_in_call_order", z3.BoolVal(sorted(root.keys(), key=int) == ["0", "1", "2"]), note=str(root.keys()))
        col, row = SI(FreshInt("c")), SI(FreshInt("p"))
        site = SI(FreshInt("site"))
        assume(col >= 0, col < k, row >= 0, row < P, site >= 0, site < N)
        for f, (state, data, rs) in enumerate(frames):
            if str(f) not in root:
                continue
            g = root[str(f)]
            for key in ("step", "time", "dt"):
                v = g.attrs.get(key) if key in g.attrs else None
                check(f"C05.writer.frame_label_is_the_state_handed_over[{key}]", z3.BoolVal(False) if v is None else sym.eq(v, state[key]))
            check("C05.writer.frame_has_a_timestamp", z3.BoolVal("timestamp" in g.attrs))
            for key, arr in data.items():
                got = g[key].value if key in g else None
                ok = isinstance(got, SymArray) and got.ndim == 1
                check(f"C05.writer.frame_data_is_the_array_handed_over[{key}]", z3.BoolVal(False) if not ok else z3.And(sym.eq(got.shape[0], arr.shape[0]), sym.eq(got.at(site if key != "supercurrent" else SI(0)), arr.at(site if key != "supercurrent" else SI(0)))))
            if rs is None:
                check("C05.writer.no_record_group_without_a_buffer", z3.BoolVal("running_state" not in g))
                continue
            has = "running_state" in g
            check("C05.writer.record_group_written_with_the_buffer", z3.BoolVal(has))
            if not has:
                continue
            rg = g["running_state"]
            check("C05.writer.record_group_holds_exactly_the_recorded_quantities", z3.BoolVal(sorted(rg.keys()) == sorted(rs)), note=str(rg.keys()))
            for name, buf in rs.items():
                if name not in rg:
                    continue
                got = rg[name].value
                if buf.shape[0].concrete() == 1:
                    ok = isinstance(got, SymArray) and got.ndim == 1
                    # one value per step: stored as a vector of the buffer length for every buffer size (also a buffer of one step)
                    check(f"C05.writer.single_valued_record_stored_as_vector_over_the_buffer[{name}]",
                          z3.BoolVal(False) if not ok else z3.And(sym.eq(got.shape[0], k), sym.eq(got.at(col), buf.at(SI(0), col))))
                else:
                    ok = isinstance(got, SymArray) and got.ndim == 2
                    check(f"C05.writer.probe_record_stored_as_probes_by_buffer[{name}]",
                          z3.BoolVal(False) if not ok else z3.And(sym.eq(got.shape[0], P), sym.eq(got.shape[1], k), sym.eq(got.at(row, col), buf.at(row, col))))
        # the running copy of the latest frame (tmp file, read by the monitor): label of the last call
        tg = dh.tmp_file["data/-1"]
        for key in ("step", "time", "dt"):
            v = tg[key].value if key in tg else None
            last = frames[-1][0][key]
            import numpy as np
            ok = isinstance(v, np.ndarray) and v.shape == (1,)
            check(f"C05.writer.live_copy_carries_the_latest_label[{key}]", z3.BoolVal(False) if not ok else sym.eq(v[0], last))
    obls, n = explore(body)
    return dict(obls=obls, paths=n, sources=[load_runner(fsmodel.FS(), mutate).info()], consistent=sym.consistent())


def native(seed=0):
    """BOUNDED replay oracle: the real DataHandler with real h5py, buffers of 1..4 steps, 0 / 2 / 3 probes"""
    import os
    import tempfile
    import h5py
    import numpy as np
    from tdgl.solver.runner import DataHandler
    rng = np.random.default_rng(seed)
    bad, n = [], 0
    lg = logging.getLogger("pyvc-dh-native")
    lg.disabled = True
    with tempfile.TemporaryDirectory() as td:
        for k in (1, 2, 4):
            for P in (0, 2, 3):
                path = os.path.join(td, f"w{k}_{P}.h5")
                frames = []
                with DataHandler(output_file=path, logger=lg) as dh:
                    for f in range(3):
                        state = dict(step=f * k, time=float(f) * 0.5, dt=0.1 * (f + 1))
                        data = dict(psi=rng.normal(size=5) + 1j * rng.normal(size=5), mu=rng.normal(size=5))
                        rs = None
                        if f:
                            rs = dict(dt=rng.uniform(0.1, 1, size=(1, k)), screening_iterations=rng.integers(1, 5, size=(1, k)).astype(float))
                            if P:
                                rs["mu"], rs["theta"] = rng.normal(size=(P, k)), rng.normal(size=(P, k))
                        dh.save_time_step(state, data, rs)
                        frames.append((state, data, rs))
                    out = dh.output_path
                with h5py.File(out, "r") as h:
                    n += 1
                    if sorted(h["data"], key=int) != ["0", "1", "2"]:
                        bad.append(dict(what="frames are not numbered 0, 1, 2 in call order", got=list(h["data"]), buffer=k, probes=P))
                        continue
                    for f, (state, data, rs) in enumerate(frames):
                        g = h["data"][str(f)]
                        n += 1
                        if any(g.attrs[q] != state[q] for q in ("step", "time", "dt")):
                            bad.append(dict(what="frame label differs from the state handed to the writer", frame=f, buffer=k, probes=P))
                        if any(not np.array_equal(np.array(g[q]), data[q]) for q in data):
                            bad.append(dict(what="frame data differs from the arrays handed to the writer", frame=f, buffer=k, probes=P))
                        if rs is None:
                            if "running_state" in g:
                                bad.append(dict(what="record group written without a buffer", frame=f))
                            continue
                        for name, buf in rs.items():
                            got = np.array(g["running_state"][name])
                            want = buf[0] if buf.shape[0] == 1 else buf
                            if got.shape != want.shape or not np.array_equal(got, want):
                                bad.append(dict(what=f"record {name!r}: stored shape {got.shape}, buffer shape {buf.shape} (single-valued records must be vectors over the buffer, "
                                                     "probe records probes x buffer)", frame=f, buffer=k, probes=P))
    return bad, n


MUTANTS = [
    dict(name="numpy squeeze of the record buffer (a buffer of one step becomes 0-d)", units=["DataHandler.save_time_step[layout]"],
         edits=[(R_, "                if value.ndim > 1 and value.shape[0] == 1:\n                    value = value[0]\n", "                value = value.squeeze()\n")], expect="killed"),
    dict(name="record buffers stored without dropping the single row", units=["DataHandler.save_time_step[layout]"],
         edits=[(R_, "                if value.ndim > 1 and value.shape[0] == 1:\n                    value = value[0]\n", "")]),
    dict(name="frame number advanced before the group is named", units=["DataHandler.save_time_step[layout]"],
         edits=[(R_, "        group = self.time_step_group.create_group(f\"{self.save_number}\")\n        group.attrs[\"timestamp\"] = datetime.now().isoformat()\n        self.save_number += 1",
                 "        self.save_number += 1\n        group = self.time_step_group.create_group(f\"{self.save_number}\")\n        group.attrs[\"timestamp\"] = datetime.now().isoformat()")]),
    dict(name="probe potentials written under the name of the phases", units=["DataHandler.save_time_step[layout]"],
         edits=[(R_, "                running_grp[key] = value\n", "                running_grp[\"theta\" if key == \"mu\" else key] = value\n")]),
]


# ------------------------------------------------------------------------------------------------------------------ frame round trip

DATA_ = "tdgl.solution.data"


def run_frame_round_trip(mutate=None, prefixes=("C14.", "C05.")):
    """The real writer (DataHandler.save_fixed_values / save_time_step) followed by the real reader of a frame (TDGLData.from_hdf5 with load_state_data)
    over the abstract store, symbolic arrays: the frame read back for step f holds exactly what was handed to the writer with the f-th call - psi, mu,
    currents, induced potential, and the applied potential / epsilon whether they are fixed (written once) or written with every frame - and its state is
    that frame's label.  Whatever frame is asked for, no other frame's data is returned."""
    def body():
        c = sym.ctx()
        c.record_prefixes = tuple(prefixes)
        fs = fsmodel.FS()
        L = load_runner(fs, mutate)
        mut = [(o, n) for (m, o, n) in (mutate or []) if m == DATA_]
        from pyvc.models.npmodel import NP, BUILTINS

        class NPD(NP):
            @staticmethod
            def array(x, dtype=None):
                return x.value if isinstance(x, fsmodel.Dataset) else NP.array(x, dtype)

            @staticmethod
            def asarray(x, dtype=None):
                return x.value if isinstance(x, fsmodel.Dataset) else NP.asarray(x, dtype)
        rb = {"h5py": fsmodel.H5(fs), "np": NPD}
        rb.update(BUILTINS)
        LD = instrument.load(DATA_, rebind=rb, mutate=mut, vc=vcm.VC())
        lg = logging.getLogger("pyvc-dh")
        lg.disabled = True
        dh = L["DataHandler"](output_file="o.h5", logger=lg)
        dh.__enter__()
        N, Ne = SI(z3.Int("n_sites")), SI(z3.Int("n_edges"))
        assume(N >= 1, Ne >= 1)
        dyn_A = bool(SB(z3.Bool("applied_potential_written_with_every_frame")))
        dyn_eps = bool(SB(z3.Bool("epsilon_written_with_every_frame")))
        fixed = {}
        if not dyn_A:
            fixed["applied_vector_potential"] = SymArray.input("A_fixed", (Ne, 2))
        if not dyn_eps:
            fixed["epsilon"] = SymArray.input("eps_fixed", (N,))
        dh.save_fixed_values(fixed)
        frames = []
        for f in range(3):
            state = dict(step=SI(z3.Int(f"step{f}")), time=SR(z3.Real(f"time{f}")), dt=SR(z3.Real(f"dt{f}")))
            data = dict(psi=SymArray.input(f"psi{f}", (N,), "c"), mu=SymArray.input(f"mu{f}", (N,)), supercurrent=SymArray.input(f"js{f}", (Ne,)),
                        normal_current=SymArray.input(f"jn{f}", (Ne,)), induced_vector_potential=SymArray.input(f"Aind{f}", (Ne, 2)))
            if dyn_A:
                data["applied_vector_potential"] = SymArray.input(f"A{f}", (Ne, 2))
            if dyn_eps:
                data["epsilon"] = SymArray.input(f"eps{f}", (N,))
            rs = None if f == 0 else dict(dt=SymArray.input(f"buf_dt{f}", (SI(1), SI(z3.Int("buffer_size")))))
            dh.save_time_step(state, data, rs)
            frames.append((state, data))
        TD = LD["TDGLData"]
        i, k = SI(FreshInt("i")), SI(FreshInt("k"))
        assume(i >= 0, k >= 0, k < 2)
        for f, (state, data) in enumerate(frames):
            td = TD.from_hdf5(dh.output_file, f)
            check("C14.frame.step_is_the_frame_asked_for", z3.BoolVal(td.step == f))
            want = dict(fixed)
            want.update(data)
            for key, arr in want.items():
                got = getattr(td, key, None)
                ok = isinstance(got, SymArray) and got.ndim == arr.ndim
                idx = (i, k) if arr.ndim == 2 else (i,)
                hyp = [i.e < arr.shape[0].e]
                check(f"C14.frame.data_read_back_is_what_was_written_for_that_frame[{key}]",
                      z3.BoolVal(False) if not ok else z3.And(*[sym.eq(a, b) for a, b in zip(got.shape, arr.shape)], sym.eq(got.at(*idx), arr.at(*idx))), extra=hyp)
            st = td.state if isinstance(td.state, dict) else {}
            for key in ("step", "time", "dt"):
                check(f"C05.frame.state_read_back_is_the_label_written_for_that_frame[{key}]", z3.BoolVal(False) if key not in st else sym.eq(st[key], state[key]))
        # history: ONE Solution object moved from frame to frame (Solution.load_tdgl_data, the code behind `solution.solve_step = k`): after every move its
        # raw data are those recorded for the frame it is at now - also the applied potential / epsilon when they are written with every frame
        SOL_ = "tdgl.solution.solution"
        muts = [(o, n) for (m, o, n) in (mutate or []) if m == SOL_]
        LS = instrument.load(SOL_, rebind=rb, mutate=muts, vc=vcm.VC())
        import numpy as _np
        LS.ns["TDGLData"] = TD
        LS.ns["get_data_range"] = lambda f: (0, len(frames) - 1)
        LS.ns["DynamicsData"] = type("Dyn", (), {"from_hdf5": staticmethod(lambda f, a, b: "DYNAMICS")})
        LS.ns["get_edge_quantity_data"] = lambda q, mesh: (SymArray.fresh("norm", (Ne,)), SymArray.fresh("direction", (Ne, 2)), None)
        from checks import solution_common as _sc

        class K0:
            def to(self, u):
                return 1.0
        dev = type("Dev", (), {"mesh": "MESH", "K0": K0(), "length_units": "um"})()
        sol = _sc.new_solution(LS["Solution"], dev, "mT", "uA")
        st0_ = instrument.module_state(LS)
        for f in (0, 2, 1, 2):
            sol.load_tdgl_data(f, h5file=dh.output_file)
            # frame condition: what a solution holds is a function of the file it reads NOW - loading a frame leaves nothing behind at module level
            # (memo tables keyed by path / frame range ...) that a later load, of this or of another file at the same path, could pick up.  Candidate.
            ch_ = instrument.module_state_changes(st0_, instrument.module_state(LS))
            for pf_ in ("C14", "C05"):
                check(f"{pf_}.solution_reader.loading_a_frame_leaves_no_module_state_behind", z3.BoolVal(not ch_), note=f"module-level state of tdgl.solution.solution changed: {ch_}", weak=True)
            state, data = frames[f]
            want = dict(fixed)
            want.update(data)
            td = sol.tdgl_data
            for key, arr in want.items():
                got = getattr(td, key, None)
                ok = isinstance(got, SymArray) and got.ndim == arr.ndim
                idx = (i, k) if arr.ndim == 2 else (i,)
                check(f"C14.solution_moved_between_frames.raw_data_are_those_of_the_frame_it_is_at[{key}]",
                      z3.BoolVal(False) if not ok else z3.And(*[sym.eq(a, b) for a, b in zip(got.shape, arr.shape)], sym.eq(got.at(*idx), arr.at(*idx))), extra=[i.e < arr.shape[0].e])
    obls, n = explore(body)
    return dict(obls=obls, paths=n, sources=[load_runner(fsmodel.FS(), mutate).info()], consistent=sym.consistent())


MUTANTS_FRAME = [
    dict(name="frame reader prefers the live copy of the last frame", units=["save_time_step -> TDGLData.from_hdf5"],
         edits=[(DATA_, "            if key in h5file[\"data\"][step]:\n                dset = h5file[\"data\"][step][key]", "            if key in h5file[\"data\"][step]:\n                dset = h5file[\"data\"][sorted(h5file[\"data\"].keys(), key=int)[-1]][key]")]),
    dict(name="frame reader returns the potential for the supercurrent", units=["save_time_step -> TDGLData.from_hdf5"],
         edits=[(DATA_, "            **{field.name: get(field.name) for field in dataclasses.fields(TDGLData)}", "            **{field.name: get(\"mu\" if field.name == \"supercurrent\" else field.name) for field in dataclasses.fields(TDGLData)}")]),
    dict(name="fixed values written to the live copy only", units=["save_time_step -> TDGLData.from_hdf5"],
         edits=[(R_, "            self.output_file[key] = value\n            self.tmp_file[key] = value", "            self.tmp_file[key] = value")]),
    dict(name="state of the first frame for every frame", units=["save_time_step -> TDGLData.from_hdf5"],
         edits=[(DATA_, "    return dict(h5file[\"data\"][str(step)].attrs)", "    return dict(h5file[\"data\"][\"0\"].attrs)")]),
]
