"""C05, reader side: the REAL DynamicsData.from_hdf5 and Solution.times executed symbolically on the file the runner writes.

File model (assumed; it is the POSTCONDITION proved for the writer in checks/runner_common.py: frames at steps 0, k, 2k, ... and the final step;
frame 0 carries no per-step record; the buffer written with frame f >= 1 holds the steps (f-1)k ... in order and is zero-padded):
    k = save_every >= 1, frames 0..F, N recorded steps with F = 0 and N = 0, or (F-1) k < N <= F k;
    data/<f>/running_state/dt[c]                  = dts((f-1)k + c) if (f-1)k + c < N else 0           (shape (k,))
    data/<f>/running_state/mu[p, c], theta[p, c]   likewise from MU(p, j), TH(p, j)                     (shape (P, k), present iff probes)
    data/<f>/running_state/screening_iterations[c] likewise from IT(j)                                  (shape (k,))
    dts(j) > 0 (C12.positive).  No bound on k, F, N, P.

The frame loop is cut at an invariant (the lists hold exactly the datasets of frames 1..i-1, in order); the lists the code builds have a symbolic
length (instrumentation T8).  numpy on such lists is modelled below (assumed contracts, A4): concatenate of equal-shaped blocks, comparison,
boolean-mask selection, cumsum.  A boolean-mask selection is resolved by the lemma 'a mask that is exactly the prefix [0, n) selects a[:n]', whose
premise is an obligation (C05.reader.mask_selects_exactly_the_recorded_steps)."""
import z3

from pyvc import sym, instrument, vc as vcm, loops, gsum
from pyvc.arr import SymArray
from pyvc.models.npmodel import NP, BUILTINS
from pyvc.sym import SB, SI, SR, check, assume, explore, FreshInt

DATA = "tdgl.solution.data"
SOL = "tdgl.solution.solution"
DTS = z3.Function("dts", z3.IntSort(), z3.RealSort())
TT = z3.Function("T", z3.IntSort(), z3.RealSort())
MU = z3.Function("MU", z3.IntSort(), z3.IntSort(), z3.RealSort())
TH = z3.Function("TH", z3.IntSort(), z3.IntSort(), z3.RealSort())
IT = z3.Function("IT", z3.IntSort(), z3.RealSort())


def unfoldT(j):
    j = j.e if isinstance(j, SI) else j
    return [TT(0) == 0, DTS(j) > 0, TT(j + 1) == TT(j) + DTS(j), z3.Implies(j >= 1, z3.And(DTS(j - 1) > 0, TT(j) == TT(j - 1) + DTS(j - 1)))]


# ------------------------------------------------------------------------------------------------ models of lists of arrays


class BlockList:
    """a Python list of equal-shaped arrays whose length is symbolic: length L, blk(b) -> SymArray for 0 <= b < L"""

    def __init__(self, name):
        self.name = name
        self.length = SI(0)
        self.blk = lambda b: None
        self.shape = None

    def append(self, v):
        if not isinstance(v, SymArray):
            raise sym.Unsupported(f"{self.name}.append of {type(v).__name__}")
        if self.shape is not None:
            from pyvc.arr import _shape_ob
            _shape_ob(self.shape, v.shape)
        else:
            self.shape = v.shape
        old, n = self.blk, self.length
        vv = v._frozen()

        def blk(b, old=old, n=n, vv=vv):
            o = old(b)
            if o is None:
                return vv
            return SymArray(vv.shape, lambda *ix: sym.ite(b.e == n.e, vv.at(*ix), o.at(*ix)))
        self.blk = blk
        self.length = n + 1

    def set_to(self, length, blk, shape):
        self.length, self.blk, self.shape = SI.lift(length), blk, shape

    def __bool__(self):
        return bool(SB(self.length.e > 0))

    def __len__(self):
        raise TypeError("len() of a symbolic list")


class Flat:
    """np.concatenate(list of (k,) blocks) / np.concatenate(list of (P, k) blocks, axis=1): indexed by the flat position q = b * k + c.
    at(q) introduces the quotient and remainder of q by k as fresh integers with their defining property (division algorithm)."""

    def __init__(self, lst, k, lead=None, elem=None, total=None):
        self.lst, self.k, self.lead = lst, k, lead          # lead: leading shape (P,) for axis=1 concatenation
        self.elem = elem                                    # optional elementwise map applied after the read
        self._qr = {}

    @property
    def total_blocks(self):
        return self.lst.length

    def qr(self, q):
        key = q.e.get_id()
        if key not in self._qr:
            b, c = SI(FreshInt("quot")), SI(FreshInt("rem"))
            sym.axiom(z3.Implies(q.e >= 0, z3.And(q.e == b.e * self.k.e + c.e, c.e >= 0, c.e < self.k.e, b.e >= 0)))
            self._qr[key] = (b, c)
        return self._qr[key]

    def at_bc(self, b, c, *lead):
        v = self.lst.blk(b).at(*lead, c)
        return self.elem(v) if self.elem else v

    def at(self, *ix):
        *lead, q = ix
        b, c = self.qr(SI.lift(q))
        return self.at_bc(b, c, *lead)

    def __gt__(self, o):
        return Flat(self.lst, self.k, self.lead, elem=lambda v: SB(SR.lift(v).e > SR.lift(o).e))

    def __getitem__(self, key):
        if isinstance(key, Flat):
            return Selected(self, key)
        if isinstance(key, tuple) and len(key) == 2 and key[0] is Ellipsis and isinstance(key[1], Flat):
            return Selected(self, key[1])
        raise sym.Unsupported(f"index of a concatenation by {type(key).__name__}")


class Selected:
    """a[mask] (a[..., mask]) for a concatenation a and an elementwise mask over the same flat positions: order-preserving selection.
    Resolved by the contract through as_prefix(n): obligation 'mask(q) <=> q < n for every flat position', then the selection is a[:n]."""

    def __init__(self, src, mask):
        self.src, self.mask = src, mask
        if src.lst.length is not mask.lst.length and not z3.is_true(z3.simplify(src.lst.length.e == mask.lst.length.e)):
            from pyvc.arr import _shape_ob
            _shape_ob((src.lst.length,), (mask.lst.length,))
        self.resolved = None

    def as_prefix(self, n, name, facts=None):
        n = SI.lift(n)
        b, c = SI(FreshInt("b")), SI(FreshInt("c"))
        rng = [b.e >= 0, b.e < self.mask.lst.length.e, c.e >= 0, c.e < self.mask.k.e] + (facts(b, c) if facts else [])
        m = self.mask.at_bc(b, c)
        ok = check(name, z3.And(m.e == (b.e * self.mask.k.e + c.e < n.e), n.e >= 0, n.e <= self.mask.lst.length.e * self.mask.k.e), extra=rng)
        src = self.src
        lead = src.lead or ()
        arr = SymArray(tuple(lead) + (n,), lambda *ix: src.at(*ix))
        self.resolved = arr if ok else None
        return arr if ok else None


class CumSum:
    def __init__(self, x):
        self.x = x


class NPR(NP):
    """numpy as used by the reader (assumed contracts)"""

    @staticmethod
    def array(x, dtype=None):
        if isinstance(x, DS):
            return x.value
        import numpy as _np
        if dtype is BUILTINS["float"]:
            dtype = float          # T4 rebinds the builtin name `float`
        return _np.array(x, dtype=dtype)

    @staticmethod
    def concatenate(xs, axis=0, dtype=None):
        if isinstance(xs, BlockList):
            if xs.shape is None:
                raise ValueError("need at least one array to concatenate")
            nd = len(xs.shape)
            if (axis == 0 and nd == 1) or (axis == 1 and nd == 2):
                return Flat(xs, xs.shape[-1], lead=tuple(xs.shape[:-1]))
            raise sym.Unsupported(f"concatenate of rank-{nd} blocks along axis {axis}")
        return NP.concatenate(xs)

    @staticmethod
    def cumsum(x):
        return CumSum(x)


class DS:
    """h5py dataset"""

    def __init__(self, value):
        self.value = value


# ------------------------------------------------------------------------------------------------ the file the runner writes


class FileModel:
    def __init__(self, has_probes, has_iters=True):
        R = z3.Real
        self.k, self.F, self.N, self.P = SI(z3.Int("save_every")), SI(z3.Int("last_frame")), SI(z3.Int("n_steps")), SI(z3.Int("n_probes"))
        k, F, N = self.k, self.F, self.N
        assume(k >= 1, F >= 0, N >= 0, self.P >= 1)
        assume(SB(z3.Or(z3.And(F.e == 0, N.e == 0), z3.And(F.e >= 1, (F.e - 1) * k.e < N.e, N.e <= F.e * k.e))))
        self.has_probes, self.has_iters = has_probes, has_iters

    def step_of(self, f, c):
        return (f - 1) * self.k + c

    def dataset(self, f, name):
        k, N, P = self.k, self.N, self.P
        if name == "dt":
            return SymArray((k,), lambda c: sym.ite(self.step_of(f, c).e < N.e, SR(DTS(self.step_of(f, c).e)), SR(0)))
        if name == "screening_iterations":
            return SymArray((k,), lambda c: sym.ite(self.step_of(f, c).e < N.e, SR(IT(self.step_of(f, c).e)), SR(0)))
        fn = MU if name == "mu" else TH
        return SymArray((P, k), lambda p, c: sym.ite(self.step_of(f, c).e < N.e, SR(fn(p.e, self.step_of(f, c).e)), SR(0)))

    def names(self):
        return ["dt"] + (["mu", "theta"] if self.has_probes else []) + (["screening_iterations"] if self.has_iters else [])


class RSGroup:
    def __init__(self, fm, f):
        self.fm, self.f = fm, f

    def __contains__(self, name):
        return name in self.fm.names()

    def __getitem__(self, name):
        if name not in self.fm.names():
            raise KeyError(name)
        return DS(self.fm.dataset(self.f, name))


class FrameGroup:
    def __init__(self, fm, f):
        self.fm, self.f = fm, f

    def __contains__(self, name):
        if name == "running_state":
            return bool(SB(self.f.e >= 1))
        return name in ("psi", "mu", "supercurrent", "normal_current")

    def __getitem__(self, name):
        if name == "running_state":
            check("C05.reader.model.record_group_read_only_where_it_exists", self.f.e >= 1, kind="safety")
            return RSGroup(self.fm, self.f)
        raise sym.Unsupported(f"frame dataset {name}")


class H5Stub:
    filename = "/cwd/o.h5"
    name = "/"
    mode = "r"

    def __init__(self, fm):
        self.fm = fm
        self.read = []
        self.file = self

    def __contains__(self, name):
        return False          # not a DynamicsData.to_hdf5 group

    def __getitem__(self, key):
        if not key.startswith("data/"):
            raise sym.Unsupported(f"h5 key {key!r}")
        tok = key[len("data/"):]
        f = sym.unformat(tok)
        if f is None:
            f = SI(int(tok))
        check("C05.reader.model.frame_exists", z3.And(f.e >= 0, f.e <= self.fm.F.e), kind="safety")
        self.read.append(f)
        return FrameGroup(self.fm, f)


def discover_lists(mut):
    """which local list collects which per-step dataset: read off the real source (`<list>.append(np.array(<group>["<dataset>"]))` inside
    DynamicsData.from_hdf5), so that the contract does not depend on how the locals are called.  -> {list name: dataset name}"""
    import ast
    import re
    _, src = instrument.read_source(DATA, mut)
    tree = ast.parse(src)
    out = {}
    for cls in [n for n in tree.body if isinstance(n, ast.ClassDef) and n.name == "DynamicsData"]:
        for fn in [n for n in cls.body if isinstance(n, ast.FunctionDef) and n.name == "from_hdf5"]:
            for node in ast.walk(fn):
                if isinstance(node, ast.Call) and isinstance(node.func, ast.Attribute) and node.func.attr == "append" and isinstance(node.func.value, ast.Name) and node.args:
                    m = re.search(r"\[['\"](\w+)['\"]\]", ast.unparse(node.args[0]))
                    if m:
                        out[node.func.value.id] = m.group(1)
    return out


def run_reader(mutate=None, prefixes=("C05.",)):
    mut = [(o, n) for (m, o, n) in (mutate or []) if m == DATA]
    V = vcm.VC()
    made = {}
    OF = discover_lists(mut)
    LISTS = sorted(OF)
    if "dt" not in OF.values():
        raise sym.Undecided("DynamicsData.from_hdf5: no list collecting the 'dt' records found (reader restructured?)")

    def newlist(name):
        made[name] = BlockList(name)
        return made[name]
    V.newlist = newlist
    rb = {"np": NPR, "range": loops.model_range}
    rb.update(BUILTINS)
    L = instrument.load(DATA, rebind=rb, cut_loops={"DynamicsData.from_hdf5": {1: "FRAMES"}}, sym_lists={"DynamicsData.from_hdf5": LISTS}, mutate=mut, vc=V)

    def body():
        c = sym.ctx()
        c.record_prefixes = tuple(prefixes)
        made.clear()
        has_probes = bool(SB(z3.Bool("probes_recorded")))
        fm = FileModel(has_probes)
        k, F, N, P = fm.k, fm.F, fm.N, fm.P
        c.ax += [TT(0) == 0]
        h5 = H5Stub(fm)

        def present(nm):
            return OF[nm] in fm.names()

        def determined(i):
            """the state of the four lists at the head of iteration i, as fixed by the invariant: the datasets of frames 1 .. i-1, in order"""
            Lw = sym.ite(i.e >= 1, i - 1, SI(0))
            out = {}
            for nm in LISTS:
                ds = OF[nm]
                if present(nm):
                    out[nm] = (Lw, (lambda ds_: (lambda b: fm.dataset(b + 1, ds_)))(ds), fm.dataset(SI(1), ds).shape)
                else:
                    out[nm] = (SI(0), (lambda b: None), None)
            return out

        def inv(loc, i):
            g = [i.e >= 0]
            want = determined(i)
            for nm in LISTS:
                lst = loc.get(nm, made.get(nm))
                if not isinstance(lst, BlockList):
                    g.append(z3.BoolVal(False))
                    continue
                Lw, blk, shp = want[nm]
                g.append(lst.length.e == Lw.e)
                if shp is not None:
                    b = SI(FreshInt("b"))
                    ix = [SI(FreshInt("x")) for _ in shp]
                    have = lst.blk(b)
                    if have is None:
                        g.append(z3.Implies(z3.And(b.e >= 0, b.e < Lw.e), z3.BoolVal(False)))
                        continue
                    rng = z3.And(b.e >= 0, b.e < Lw.e, *[z3.And(x.e >= 0, x.e < n.e) for x, n in zip(ix, shp)])
                    g.append(z3.Implies(rng, SR.lift(have.at(*ix)).e == SR.lift(blk(b).at(*ix)).e))
            return g

        def havoc_heap(hv, i):
            want = determined(i)
            for nm in LISTS:
                lst = hv.get(nm, made.get(nm))
                if isinstance(lst, BlockList):
                    lst.set_to(*want[nm])
        spec = loops.LoopSpec("FRAMES", inv, havoc_heap=havoc_heap, name="C05.reader.frame_loop")
        V.loops = {"FRAMES": spec}
        Dyn = L["DynamicsData"]
        st0 = instrument.module_state(L)
        res = Dyn.from_hdf5(h5, SI(0), F)
        # frame condition: reading a file leaves no state behind in the module (a result remembered across calls is keyed by something - a path, a
        # range - that does not determine the contents of a file)
        ch = instrument.module_state_changes(st0, instrument.module_state(L))
        # (a candidate only: a correctly keyed cache would be harmless, so a failure counts only when the native replay - a path used again for another
        # run - shows wrong records)
        check("C05.reader.result_is_a_function_of_the_file_contents.no_module_state_written", z3.BoolVal(not ch), note=f"module-level state changed by the call: {ch}", weak=True)

        def facts(b, c):
            return unfoldT(b * k + c)
        # ---- the loop ran over all frames: the lists hold frames 1..F
        dt = res.dt
        if isinstance(dt, Selected):
            dt_arr = dt.as_prefix(N, "C05.reader.mask_selects_exactly_the_recorded_steps", facts)
        elif hasattr(dt, "shape") and not isinstance(dt, SymArray):
            import numpy as _np
            dt_arr = None
            check("C05.reader.one_record_per_step.count", z3.And(z3.BoolVal(_np.asarray(dt).size == 0), N.e == 0))
            return
        else:
            dt_arr = dt if isinstance(dt, SymArray) else None
        if dt_arr is None:
            check("C05.reader.one_record_per_step.count", False, note=f"dt of the loaded dynamics is {type(dt).__name__}")
            return
        j = SI(FreshInt("j"))
        assume(j >= 0, j < N)
        check("C05.reader.one_record_per_step.count", dt_arr.shape[0].e == N.e)
        check("C05.reader.records_in_step_order.dt", SR.lift(dt_arr.at(j)).e == DTS(j.e))
        p = SI(FreshInt("p"))
        assume(p >= 0, p < P)
        for nm, fn in (("mu", MU), ("theta", TH)):
            v = getattr(res, nm)
            if has_probes:
                arr = v.as_prefix(N, f"C05.reader.mask_selects_exactly_the_recorded_steps[{nm}]", facts) if isinstance(v, Selected) else (v if isinstance(v, SymArray) else None)
                check(f"C05.reader.records_in_step_order.{nm}", z3.BoolVal(False) if arr is None else z3.And(arr.shape[-1].e == N.e, SR.lift(arr.at(p, j)).e == fn(p.e, j.e)))
            else:
                check(f"C05.reader.no_probe_records_without_probes.{nm}", z3.BoolVal(v is None))
        v = res.screening_iterations
        arr = v.as_prefix(N, "C05.reader.mask_selects_exactly_the_recorded_steps[screening_iterations]", facts) if isinstance(v, Selected) else (v if isinstance(v, SymArray) else None)
        check("C05.reader.records_in_step_order.screening_iterations", z3.BoolVal(False) if arr is None else z3.And(arr.shape[0].e == N.e, SR.lift(arr.at(j)).e == IT(j.e)))
        # ---- time = cumulative sum of the per-step records: time[j] = T(j+1)
        tm = res.time
        okc = isinstance(tm, CumSum) and (tm.x is dt)
        check("C05.reader.time_is_cumulative_sum_of_the_recorded_steps", z3.BoolVal(okc))
        if okc:
            PS, unfoldPS = gsum.prefix_sum(lambda t: SR.lift(dt_arr.at(t)), "cumsum")
            # lemma (induction on j, both VCs discharged here): PS(j) = T(j) for 0 <= j <= N
            a = SI(FreshInt("ind"))
            assume(a >= 0, a < N)
            check("C05.reader.lemma.cumsum_equals_T.base", PS(SI(0)).e == TT(0), extra=unfoldPS(SI(0)))
            check("C05.reader.records_in_step_order.dt[at the induction index]", SR.lift(dt_arr.at(a)).e == DTS(a.e))
            check("C05.reader.lemma.cumsum_equals_T.step", z3.Implies(PS(a).e == TT(a.e), PS(a + 1).e == TT(a.e + 1)), extra=unfoldPS(a) + unfoldT(a))
    obls, n = explore(body)
    return dict(obls=obls, paths=n, sources=[L.info()], consistent=sym.consistent())


# ------------------------------------------------------------------------------------------------ Solution.times


class A1:
    """1-d array of reals with a symbolic length (the numpy operations Solution.times uses; assumed contracts):
    a[::s] has the length n' with (n'-1) s < len <= n' s (division algorithm) and a[::s][m] = a[m s]; a[-1], a[-1:], copy, concatenate"""

    def __init__(self, n, fn):
        self.n, self.fn = SI.lift(n), fn

    def at(self, q):
        return self.fn(SI.lift(q))

    def copy(self):
        return A1(self.n, self.fn)

    def __getitem__(self, key):
        if isinstance(key, slice):
            if key.start is None and key.stop is None and key.step is not None:
                s = SI.lift(key.step)
                check(sym._site("slice_step_positive"), s.e >= 1, kind="safety")
                ns = sym.ctx().ghost.get("strided_length")
                if ns is None:
                    ns = SI(FreshInt("n_strided"))
                sym.axiom(z3.Implies(self.n.e >= 1, z3.And(ns.e >= 1, (ns.e - 1) * s.e < self.n.e, self.n.e <= ns.e * s.e)), z3.Implies(self.n.e <= 0, ns.e == 0))
                return A1(ns, lambda m, s=s: self.at(m * s))
            if key.step is None and key.stop is None and isinstance(key.start, int) and key.start == -1:
                return A1(sym.ite(self.n.e >= 1, SI(1), SI(0)), lambda m: self.at(self.n - 1 + m))
            raise sym.Unsupported(f"slice {key}")
        if isinstance(key, int) and key == -1:
            check(sym._site("index_in_range"), self.n.e >= 1, kind="safety")
            return self.at(self.n - 1)
        raise sym.Unsupported(f"index {key!r}")


class NPT(NP):
    @staticmethod
    def concatenate(xs, axis=0, dtype=None):
        parts = []
        for x in xs:
            if isinstance(x, A1):
                parts.append(x)
            elif isinstance(x, (list, tuple)) and all(isinstance(v, (int, float)) for v in x):
                parts.append(A1(len(x), (lambda vals: (lambda q: _pick(vals, q)))(list(x))))
            elif isinstance(x, SymArray) and x.ndim == 1:
                parts.append(A1(x.shape[0], (lambda a: (lambda q: a.at(q)))(x)))
            else:
                raise sym.Unsupported(f"concatenate of {type(x).__name__}")

        def fn(q):
            off = SI(0)
            out = None
            chain = []
            for p_ in parts:
                chain.append((off, p_))
                off = off + p_.n
            out = chain[-1][1].at(q - chain[-1][0])
            for o, p_ in reversed(chain[:-1]):
                out = sym.ite(q.e < (o + p_.n).e, p_.at(q - o), out)
            return out
        tot = SI(0)
        for p_ in parts:
            tot = tot + p_.n
        return A1(tot, fn)


def _pick(vals, q):
    out = SR(vals[-1])
    for i_ in range(len(vals) - 2, -1, -1):
        out = sym.ite(q.e == i_, SR(vals[i_]), out)
    return out


def mul_mono(k, terms):
    """instances of the arithmetic fact  x <= y and k >= 0  =>  x k <= y k  (and the strict version for k >= 1) for the given index terms"""
    out = []
    ts = [t.e if isinstance(t, SI) else t for t in terms]
    ke = k.e if isinstance(k, SI) else k
    for x in ts:
        for y in ts:
            if x.eq(y):
                continue
            out.append(z3.Implies(z3.And(x <= y, ke >= 0), x * ke <= y * ke))
            out.append(z3.Implies(z3.And(x < y, ke >= 1), x * ke + ke <= y * ke))
    return out


def run_times(mutate=None, prefixes=("C05.",)):
    """Solution.times on the dynamics the reader returns (time[j] = T(j+1), j < N): one time per frame, equal to the frame's time label"""
    mut = [(o, n) for (m, o, n) in (mutate or []) if m == SOL]
    rb = {"np": NPT}
    rb.update(BUILTINS)
    L = instrument.load(SOL, rebind=rb, mutate=mut, vc=vcm.VC())

    def body():
        c = sym.ctx()
        c.record_prefixes = tuple(prefixes)
        fm = FileModel(False)
        k, F, N = fm.k, fm.F, fm.N
        c.ax += [TT(0) == 0]
        ns = SI(z3.Int("n_strided"))
        c.ghost["strided_length"] = ns
        # lemma (induction on b): T is strictly increasing.  Both VCs are discharged here; instances are used below.
        a, b = SI(FreshInt("a")), SI(FreshInt("b"))
        ok = check("C05.times.lemma.T_strictly_increasing.base", z3.Implies(a.e >= 0, TT(a.e) < TT(a.e + 1)), extra=unfoldT(a))
        ok &= check("C05.times.lemma.T_strictly_increasing.step", z3.Implies(z3.And(a.e >= 0, a.e < b.e, TT(a.e) < TT(b.e)), TT(a.e) < TT(b.e + 1)), extra=unfoldT(b))
        if ok:
            for (x, y) in (((ns - 1) * k, N), (N, (ns - 1) * k)):
                sym.axiom(z3.Implies(z3.And(x.e >= 0, x.e < y.e), TT(x.e) < TT(y.e)))
        sym.axiom(*mul_mono(k, [ns - 1, ns, F - 1, F, F + 1, SI(0), SI(1)]))
        Real = L["Solution"]
        s = Real.__new__(Real)
        s.dynamics = type("Dyn", (), {})()
        s.dynamics.time = SymArray((N,), lambda j: SR(TT(j.e + 1)))
        s.options = type("O", (), {"save_every": k})()
        res = s.times
        if not isinstance(res, A1):
            check("C05.times.one_time_per_frame", False, note=f"times is {type(res).__name__}")
            return
        check("C05.times.one_time_per_frame", res.n.e == F.e + 1)
        m = SI(FreshInt("frame"))
        assume(m >= 0, m <= F)
        sym.axiom(*mul_mono(k, [m, F, ns - 1, ns, F - 1]))
        # frame m < F was written at step m k, the last frame at the final step N
        want = sym.ite(m.e < F.e, SR(TT((m * k).e)), SR(TT(N.e)))
        check("C05.times.are_the_frame_times", SR.lift(res.at(m)).e == want.e)
        none_case = Real.__new__(Real)
        none_case.dynamics = None
        check("C05.times.none_without_dynamics", z3.BoolVal(none_case.times is None))
    obls, n = explore(body)
    return dict(obls=obls, paths=n, sources=[L.info()], consistent=sym.consistent())
