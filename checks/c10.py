"""C10 -- refreshing link variables in place equals rebuilding the operators.

Class invariant Inv(ops) of the REAL MeshOperators (after the first set_link_exponents):
  psi_gradient == G_spec(mesh, link_exponents), psi_laplacian == L_spec(mesh, link_exponents, pinned rows iff fix_psi).
Proved: the first call establishes Inv; a call with an arbitrary new vector potential preserves it (so by induction it
holds after every finite history of vector potentials, any length, for every mesh and every pinned set)."""
import z3

from pyvc import sym, arr
from pyvc.arr import check_same
from pyvc.harness import Unit
from pyvc import harness
from pyvc.meshmodel import compare_blocks
from pyvc.sym import SI, SR, check, explore
from checks import ops_common as oc

PROPERTY = "C10"
LEVEL = "proof"
TRUSTED = ["numpy / scipy.sparse models; scipy `M[rows, cols] = vals` contract: positions pairwise distinct, all other entries unchanged "
           "(the sole-contributor and alignment side conditions are proved obligations)"]
ASSUMPTIONS = ["valid_mesh (see C03)", "fixed_sites lists each pinned site once",
               "C10.solver_triggers (the solver refreshes when A changes) is decided in the TDGLSolver.update unit"]
EXPLANATION = "class invariant of MeshOperators preserved by set_link_exponents for arbitrary vector potentials (induction over the call sequence)"
F = "tdgl.finite_volume.operators:"


def _scenario(L, fix_psi, ncalls=3):
    M = oc.setup_mesh()
    arr.COO.mesh_axioms = staticmethod(lambda idxs: oc.edge_ax(M)(idxs))
    ops = oc.make_operators(L, M, fix_psi=fix_psi)
    names = ["first_call_establishes", "refresh_preserves", "second_refresh_preserves"]
    for n in range(ncalls):
        A = M.A_field(f"A{n}")
        ops.set_link_exponents(A)
        tag = names[n]
        check_same(f"C10.{tag}.link_exponents_recorded", [(ops.link_exponents, A)])
        compare_blocks(f"C10.{tag}.gradient", ops.psi_gradient.blocks, oc.gradient_spec(M, A), [], oc.edge_ax(M))
        compare_blocks(f"C10.{tag}.laplacian", ops.psi_laplacian.blocks, oc.laplacian_spec(M, A, pinned=fix_psi), [], oc.edge_ax(M))


def run_pinned(mutate=None):
    L = oc.load_ops(mutate)
    obls, n = explore(lambda: _scenario(L, True))
    return dict(obls=obls, paths=n, sources=[L.info()], consistent=sym.consistent())


def run_free(mutate=None):
    L = oc.load_ops(mutate)
    obls, n = explore(lambda: _scenario(L, False))
    return dict(obls=obls, paths=n, sources=[L.info()], consistent=sym.consistent())


def _upd(screening, dynamic):
    from checks import update_common as uc
    return lambda m=None: uc.run_update(m, screening, dynamic, prefixes=("C10.",))


def _bounded_quick():
    r = replay_trigger("bounded", {}, reduced=True)
    return ([r.get("failing_input")] if r.get("confirmed") else []), r.get("evaluations", 0)


def _solve_unit(m=None):
    from checks import c11
    r = c11.run_seed(m)
    r["obls"] = [o for o in r["obls"] if o.name.startswith("C10.") or not o.name.startswith("C")]
    return r


def units():
    U = "tdgl.solver.solver:TDGLSolver.update"
    return [Unit("update[no screening, static A]", U, _upd(False, False), props=["C10"], timeout=900),
            Unit("update[no screening, dynamic A]", U, _upd(False, True), props=["C10"], timeout=900),
            Unit("update[screening, static A]", U, _upd(True, False), props=["C10"], timeout=900),
            Unit("update[screening, dynamic A]", U, _upd(True, True), props=["C10"], timeout=900),
            Unit("TDGLSolver.__init__[solvers on one mesh]", "tdgl.solver.solver:TDGLSolver.__init__",
                 lambda m=None: __import__("checks.init_common", fromlist=["x"]).run_init(m, prefixes=("C10.",), again=True, narrow=dict(adaptive=True, include_screening=False)),
                 props=["C10", "C06"], timeout=900),
            Unit("solve[hands over the state]", "tdgl.solver.solver:TDGLSolver.solve", _solve_unit, props=["C10", "C11"], timeout=300),
            harness.bounded_unit("operators in use vs rebuilt at every step of real runs [bounded]", "tdgl.solver.solver:TDGLSolver.update (real runs, time-dependent field)", "C10",
                                 _bounded_quick, "operators_equal_a_rebuild_for_the_potential_of_every_step[3 ramps, one solver solved twice]", timeout=900),
            Unit("set_link_exponents[fix_psi=True]", F + "MeshOperators.set_link_exponents", run_pinned, props=["C10", "C06"], timeout=900),
            Unit("set_link_exponents[fix_psi=False]", F + "MeshOperators.set_link_exponents", run_free, props=["C10"], timeout=900)]


M_ = "tdgl.finite_volume.operators"
S_ = "tdgl.solver.solver"
MUTANTS = [
    dict(name="screening refresh uses applied potential only", edits=[(S_, "operators.set_link_exponents(current_A_applied + A_induced)", "operators.set_link_exponents(current_A_applied)")]),
    dict(name="screening refresh only in first iteration", edits=[(S_, "            if options.include_screening:\n                # Update the link variables", "            if options.include_screening and screening_iteration == 0:\n                # Update the link variables")]),
    dict(name="conjugate dropped in the refresh only", edits=[(M_, "weights * link_variables.conjugate() / areas[edges[:, 1]],", "weights * link_variables / areas[edges[:, 1]],")]),
    dict(name="laplacian_link_cols in the wrong order", edits=[(M_, "self.laplacian_link_cols = np.concatenate(\n            [edge_mesh.edges[:, 1], edge_mesh.edges[:, 0]]", "self.laplacian_link_cols = np.concatenate(\n            [edge_mesh.edges[:, 0], edge_mesh.edges[:, 1]]")]),
    dict(name="free_rows not applied to values", edits=[(M_, "                values = values[free_rows]\n", "")]),
    dict(name="gradient refresh writes column edges[:,0]", edits=[(M_, "self.gradient_link_cols = edge_mesh.edges[:, 1]", "self.gradient_link_cols = edge_mesh.edges[:, 0]")]),
    dict(name="refresh uses stale exponents (argument ignored after first call)", edits=[(M_, "        self.link_exponents = xp.asarray(link_exponents)\n        if self.psi_gradient is None:", "        if self.psi_gradient is None:\n            self.link_exponents = xp.asarray(link_exponents)")]),
    dict(name="refresh areas swapped", edits=[(M_, "weights * link_variables / areas[edges[:, 0]],", "weights * link_variables / areas[edges[:, 1]],")]),
    dict(name="refresh skips the gradient", edits=[(M_, "            _spmatrix_set_many(self.psi_gradient, rows, cols, values)\n", "")]),
    dict(name="refresh sign exp(+i)", edits=[(M_, "            link_variables = xp.exp(\n                -1j * xp.einsum(\"ij, ij -> i\", self.link_exponents, directions)", "            link_variables = xp.exp(\n                1j * xp.einsum(\"ij, ij -> i\", self.link_exponents, directions)")]),
]


def replay_scope(unit, obl):
    """the native replay of this property searches per unit, not per obligation: run it once per unit"""
    return "unit"


def replay(unit, obl):
    if unit.startswith("update[") or unit.startswith("solve[") or unit.startswith("TDGLSolver.__init__"):
        return replay_trigger(unit, obl)
    from checks import ops_native
    return ops_native.replay_any(unit, obl)


def replay_trigger(unit, obl, reduced=False):
    """native: drive the REAL solver with slowly and quickly ramped time-dependent fields (with / without screening) and compare,
    at every step, the operators in use with operators rebuilt from scratch for the latest total vector potential"""
    import logging
    import os
    import numpy as np
    os.environ.setdefault("TQDM_DISABLE", "1")
    logging.disable(logging.CRITICAL)
    import tdgl
    from tdgl.geometry import box
    from tdgl.solver.solver import TDGLSolver
    from tdgl.solver.runner import RunningState
    from tdgl.finite_volume.operators import MeshOperators
    from tdgl.sources import LinearRamp, ConstantField
    layer = tdgl.Layer(coherence_length=0.5, london_lambda=2, thickness=0.1, gamma=1)
    dev = tdgl.Device("d", layer=layer, film=tdgl.Polygon("film", points=box(3, 2)), length_units="um")
    dev.make_mesh(max_edge_length=0.5, smooth=5)
    bad = []
    n = 0
    for screening in ((False,) if reduced else (False, True)):
        for tmin, tmax in ((0.0, 5.0), (-1000.0, 2000.0), (-1000.0, 20000.0)):          # fast ramp from zero; slow ramps around a non-zero field
            field = LinearRamp(tmin=tmin, tmax=tmax) * ConstantField(1.0, field_units="mT", length_units="um")
            opts = tdgl.SolverOptions(solve_time=1, include_screening=screening, adaptive=False, dt_init=1e-2, field_units="mT")
            s = TDGLSolver(dev, opts, applied_vector_potential=field)
            state = dict(step=0, time=0.0, dt=opts.dt_init)
            vals = dict(psi=s.psi_init, mu=s.mu_init, supercurrent=np.zeros(s.num_edges), normal_current=np.zeros(s.num_edges),
                        induced_vector_potential=np.zeros((s.num_edges, 2)), applied_vector_potential=s.current_A_applied)
            dt = opts.dt_init
            for step in range(60):
                state.update(step=step)
                res = s.update(state, RunningState({"dt": 1, "screening_iterations": 1}, 1), dt, **vals)
                n += 1
                total = res.A_applied if not screening else None
                if not screening:
                    fresh = MeshOperators(dev.mesh, None, fixed_sites=np.array([], dtype=np.int64), fix_psi=False)
                    fresh.set_link_exponents(res.A_applied)
                    err = abs(s.operators.psi_laplacian - fresh.psi_laplacian).max()
                    if err > 1e-12:
                        bad.append(dict(screening=screening, ramp=(tmin, tmax), step=step, max_abs_diff_laplacian_vs_rebuild=float(err)))
                        break
                vals = dict(psi=res.psi, mu=res.mu, supercurrent=res.supercurrent, normal_current=res.normal_current,
                            induced_vector_potential=res.A_induced, applied_vector_potential=res.A_applied)
                dt = res.dt
                state["time"] += dt
    # one solver object solved twice with a time-dependent field: at every update of BOTH runs the operators hold the potential of that step
    try:
        import tempfile as _tf
        with _tf.TemporaryDirectory() as td_:
            field2 = LinearRamp(tmin=0.5, tmax=1.5) * ConstantField(1.0, field_units="mT", length_units="um") + ConstantField(0.2, field_units="mT", length_units="um")
            o2 = tdgl.SolverOptions(solve_time=1.0, adaptive=False, dt_init=2e-2, field_units="mT", output_file=os.path.join(td_, "twice.h5"), save_every=1000)
            s2 = TDGLSolver(dev, o2, applied_vector_potential=field2)
            real_update = s2.update
            stale = []

            def spy_update(*a, **kw):
                res = real_update(*a, **kw)
                fresh = MeshOperators(dev.mesh, None, fixed_sites=np.array([], dtype=np.int64), fix_psi=False)
                fresh.set_link_exponents(res.A_applied)
                err = abs(s2.operators.psi_laplacian - fresh.psi_laplacian).max()
                if err > 1e-12:
                    stale.append(float(err))
                return res
            s2.update = spy_update
            for run_no in (1, 2):
                del stale[:]
                s2.solve()
                n += 1
                if stale:
                    bad.append(dict(what="operators in use differ from operators rebuilt for the potential of the step", run_on_the_same_solver_object=run_no,
                                    steps_with_stale_operators=len(stale), max_abs_diff_laplacian=max(stale)))
                    break
    except Exception as e:  # noqa
        bad.append(dict(what=f"solving twice on one solver object raised {type(e).__name__}: {str(e)[:120]}"))
    # two live solvers on one device (a sweep whose solvers are built first and solved later): running one does not touch the other's operators
    try:
        import tempfile as _tf2
        with _tf2.TemporaryDirectory() as td_:
            oa = tdgl.SolverOptions(solve_time=0.3, adaptive=False, dt_init=2e-2, field_units="mT", output_file=os.path.join(td_, "a.h5"), save_every=1000)
            ob = tdgl.SolverOptions(solve_time=0.3, adaptive=False, dt_init=2e-2, field_units="mT", output_file=os.path.join(td_, "b.h5"), save_every=1000)
            sa = TDGLSolver(dev, oa, applied_vector_potential=0.4)
            sb = TDGLSolver(dev, ob, applied_vector_potential=LinearRamp(tmin=0.0, tmax=0.2) * ConstantField(1.5, field_units="mT", length_units="um"))
            sb.solve()
            n += 1
            fresh = MeshOperators(dev.mesh, None, fixed_sites=np.array([], dtype=np.int64), fix_psi=False)
            fresh.set_link_exponents(np.asarray(sa.current_A_applied))
            err = abs(sa.operators.psi_laplacian - fresh.psi_laplacian).max()
            if sa.operators is sb.operators or err > 1e-12:
                bad.append(dict(what="two solvers built on one device share their operators: after the second solver ran, the first solver's Laplacian is not the one of ITS potential",
                                same_object=bool(sa.operators is sb.operators), max_abs_diff_laplacian_vs_rebuild=float(err)))
    except Exception as e:  # noqa
        bad.append(dict(what=f"two solvers on one device raised {type(e).__name__}: {str(e)[:120]}"))
    # screening: at EVERY Euler step inside the self-consistency loop the operators must hold applied + induced potential of that
    # iteration.  The real update() is driven; adaptive_euler_step is wrapped (on the instance) and reads the caller's locals.
    import sys as _sys
    for offset in (() if reduced else ((0.0, 0.0), (-2.5, 1.5), (-12.5, 7.5), "ramp")):
        def field(x, y, z, offset=offset):
            return np.stack([-0.5 * y + offset[0], 0.5 * x + offset[1], 0 * x], axis=1)
        if offset == "ramp":
            # screening AND a time-dependent applied field: the operators hold applied(t) + induced at every Euler step of every screening iteration
            field = LinearRamp(tmin=0.0, tmax=0.3) * ConstantField(0.6, field_units="mT", length_units="um")
        opts = tdgl.SolverOptions(solve_time=1, include_screening=True, adaptive=False, dt_init=1e-2, field_units="mT")
        s = TDGLSolver(dev, opts, applied_vector_potential=field)
        real_step = s.adaptive_euler_step
        seen = []

        def spy(*a, **kw):
            fr = _sys._getframe(1).f_locals
            if "A_induced" in fr:
                cur = fr.get("current_A_applied", s.current_A_applied)
                seen.append(float(np.abs(np.asarray(s.operators.link_exponents) - (np.asarray(cur) + np.asarray(fr["A_induced"]))).max()))
            return real_step(*a, **kw)
        s.adaptive_euler_step = spy
        state = dict(step=0, time=0.0, dt=opts.dt_init)
        vals = dict(psi=s.psi_init, mu=s.mu_init, supercurrent=np.zeros(s.num_edges), normal_current=np.zeros(s.num_edges),
                    induced_vector_potential=np.zeros((s.num_edges, 2)))
        if s.dynamic_vector_potential:
            vals["applied_vector_potential"] = s.current_A_applied
        dt = opts.dt_init
        for step in range(40):
            state.update(step=step)
            del seen[:]
            try:
                res = s.update(state, RunningState({"dt": 1, "screening_iterations": 1}, 1), dt, **vals)
            except RuntimeError:        # screening did not converge for this start state: not what is being replayed
                break
            n += 1
            if seen and max(seen) > 0:
                bad.append(dict(screening=True, constant_offset_of_A=offset, step=step, euler_steps_in_this_update=len(seen),
                                max_abs_difference_between_operator_potential_and_applied_plus_induced=max(seen)))
                break
            vals = dict(psi=res.psi, mu=res.mu, supercurrent=res.supercurrent, normal_current=res.normal_current,
                        induced_vector_potential=res.A_induced)
            if s.dynamic_vector_potential:
                vals["applied_vector_potential"] = res.A_applied
            dt = res.dt
            state["time"] += dt
    logging.disable(logging.NOTSET)
    if bad:
        return dict(confirmed=True, failing_input=bad[0], n_failing=len(bad), evaluations=n, tdgl_file=tdgl.__file__,
                    note="operators in use differ from operators rebuilt for the latest applied vector potential (refresh skipped)")
    return dict(confirmed=False, evaluations=n, tdgl_file=tdgl.__file__)


def thorough(seed=0):
    from pyvc import harness
    from checks import ops_native
    summary, broken = harness.run_mutants("checks.c10", units(), MUTANTS)
    bnd = ops_native.bounded(seed)
    broken = broken + bnd.get("broken", [])
    return dict(coverage=dict(mutants=summary, bounded=bnd, mutants_killed=sum(1 for m in summary if m["verdict"] in ("killed", "not-proved") and m["expect"] == "killed"),
                              mutants_total=sum(1 for m in summary if m["expect"] == "killed")), broken=broken)
