"""C10 -- refreshing link variables in place equals rebuilding the operators.

Class invariant Inv(ops) of the REAL MeshOperators (after the first set_link_exponents):
  psi_gradient == G_spec(mesh, link_exponents), psi_laplacian == L_spec(mesh, link_exponents, pinned rows iff fix_psi).
Proved: the first call establishes Inv; a call with an arbitrary new vector potential preserves it (so by induction it
holds after every finite history of vector potentials, any length, for every mesh and every pinned set)."""
import z3

from pyvc import sym, arr
from pyvc.harness import Unit
from pyvc.meshmodel import compare_blocks
from pyvc.sym import SI, SR, check, explore
from checks import ops_common as oc

PROPERTY = "C10"
LEVEL = "proof"
TRUSTED = ["numpy / scipy.sparse models; scipy `M[rows, cols] = vals` contract: positions pairwise distinct, all other entries unchanged "
           "(the sole-contributor and alignment side conditions are proved obligations)"]
ASSUMPTIONS = ["valid_mesh (see C03)", "fixed_sites lists each pinned site once",
               "C10.solver_triggers (the solver refreshes when A changes) is decided in the TDGLSolver.update unit"]
EXPLANATION = "class invariant of MeshOperators preserved by set_link_exponents for arbitrary vector potentials (induction over the call sequence)"
F = "tdgl.finite_volume.operators:"


def _scenario(L, fix_psi, ncalls=3):
    M = oc.setup_mesh()
    arr.COO.mesh_axioms = staticmethod(lambda idxs: oc.edge_ax(M)(idxs))
    ops = oc.make_operators(L, M, fix_psi=fix_psi)
    names = ["first_call_establishes", "refresh_preserves", "second_refresh_preserves"]
    for n in range(ncalls):
        A = M.A_field(f"A{n}")
        ops.set_link_exponents(A)
        tag = names[n]
        check(f"C10.{tag}.link_exponents_recorded", z3.BoolVal(ops.link_exponents is A))
        compare_blocks(f"C10.{tag}.gradient", ops.psi_gradient.blocks, oc.gradient_spec(M, A), [], oc.edge_ax(M))
        compare_blocks(f"C10.{tag}.laplacian", ops.psi_laplacian.blocks, oc.laplacian_spec(M, A, pinned=fix_psi), [], oc.edge_ax(M))


def run_pinned(mutate=None):
    L = oc.load_ops(mutate)
    obls, n = explore(lambda: _scenario(L, True))
    return dict(obls=obls, paths=n, sources=[L.info()], consistent=sym.consistent())


def run_free(mutate=None):
    L = oc.load_ops(mutate)
    obls, n = explore(lambda: _scenario(L, False))
    return dict(obls=obls, paths=n, sources=[L.info()], consistent=sym.consistent())


def units():
    return [Unit("set_link_exponents[fix_psi=True]", F + "MeshOperators.set_link_exponents", run_pinned, props=["C10", "C06"], timeout=900),
            Unit("set_link_exponents[fix_psi=False]", F + "MeshOperators.set_link_exponents", run_free, props=["C10"], timeout=900)]


M_ = "tdgl.finite_volume.operators"
MUTANTS = [
    dict(name="conjugate dropped in the refresh only", edits=[(M_, "weights * link_variables.conjugate() / areas[edges[:, 1]],", "weights * link_variables / areas[edges[:, 1]],")]),
    dict(name="laplacian_link_cols in the wrong order", edits=[(M_, "self.laplacian_link_cols = np.concatenate(\n            [edge_mesh.edges[:, 1], edge_mesh.edges[:, 0]]", "self.laplacian_link_cols = np.concatenate(\n            [edge_mesh.edges[:, 0], edge_mesh.edges[:, 1]]")]),
    dict(name="free_rows not applied to values", edits=[(M_, "                values = values[free_rows]\n", "")]),
    dict(name="gradient refresh writes column edges[:,0]", edits=[(M_, "self.gradient_link_cols = edge_mesh.edges[:, 1]", "self.gradient_link_cols = edge_mesh.edges[:, 0]")]),
    dict(name="refresh uses stale exponents (argument ignored after first call)", edits=[(M_, "        self.link_exponents = xp.asarray(link_exponents)\n        if self.psi_gradient is None:", "        if self.psi_gradient is None:\n            self.link_exponents = xp.asarray(link_exponents)")]),
    dict(name="refresh areas swapped", edits=[(M_, "weights * link_variables / areas[edges[:, 0]],", "weights * link_variables / areas[edges[:, 1]],")]),
    dict(name="refresh skips the gradient", edits=[(M_, "            _spmatrix_set_many(self.psi_gradient, rows, cols, values)\n", "")]),
    dict(name="refresh sign exp(+i)", edits=[(M_, "            link_variables = xp.exp(\n                -1j * xp.einsum(\"ij, ij -> i\", self.link_exponents, directions)", "            link_variables = xp.exp(\n                1j * xp.einsum(\"ij, ij -> i\", self.link_exponents, directions)")]),
]


def replay(unit, obl):
    from checks import ops_native
    return ops_native.replay_any(unit, obl)


def thorough(seed=0):
    from pyvc import harness
    from checks import ops_native
    summary, broken = harness.run_mutants("checks.c10", units(), MUTANTS)
    bnd = ops_native.bounded(seed)
    broken = broken + bnd.get("broken", [])
    return dict(coverage=dict(mutants=summary, bounded=bnd, mutants_killed=sum(1 for m in summary if m["verdict"] in ("killed", "not-proved") and m["expect"] == "killed"),
                              mutants_total=sum(1 for m in summary if m["expect"] == "killed")), broken=broken)
