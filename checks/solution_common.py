"""The REAL post-processing code of tdgl.solution.solution executed symbolically with the pint model (unit scale factors of the user's
length / field / current units are SYMBOLIC positive reals) and the reduction models of pyvc.gsum (einsum / bincount as finite sums over a
symbolic range).  Serves C08 (physical outputs do not depend on the unit system), C20 (vector potential = (mu0/4pi) sum K a / |r - r'| in SI
units; total = applied + supercurrent + normal parts; linear in the currents) and C13 (site average of edge quantities)."""
import math

import z3

from pyvc import sym, instrument, vc as vcm, gsum
from pyvc.arr import SymArray
from pyvc.models import pintmodel
from pyvc.models.npmodel import NP, BUILTINS
from pyvc.sym import SB, SI, SR, check, assume, explore, FreshInt

SOL = "tdgl.solution.solution"
D_ = "tdgl.device.device"
MESH = "tdgl.finite_volume.mesh"


def _concat_axis1(xs):
    """np.concatenate([...], axis=1) of 2-d symbolic arrays with concrete column counts"""
    xs = list(xs)
    rows = xs[0].shape[0]
    widths = []
    for x in xs:
        if not isinstance(x, SymArray) or x.ndim != 2 or x.shape[1].concrete() is None:
            raise sym.Unsupported("concatenate(axis=1) of arrays without a concrete column count")
        widths.append(x.shape[1].concrete())
    tot = sum(widths)

    def fn(i, k):
        kc = k.concrete()
        off = 0
        if kc is not None:
            for x, w in zip(xs, widths):
                if kc < off + w:
                    return x.at(i, SI(kc - off))
                off += w
            raise IndexError(kc)
        out = None
        offs = [sum(widths[:q]) for q in range(len(xs))]
        for x, w, o in reversed(list(zip(xs, widths, offs))):
            v = x.at(i, sym.ite(z3.And(k.e >= o, k.e < o + w), k - o, SI(0)))
            out = v if out is None else sym.ite(k.e < o + w, v, out)
        return out
    return SymArray((rows, SI(tot)), fn)


class NPSol(NP):
    """numpy model for the post-processing code (A4): what is not listed here or in NP is Unsupported (undecided)"""

    @staticmethod
    def atleast_2d(x):
        if isinstance(x, SymArray) and x.ndim == 2:
            return x
        raise sym.Unsupported("atleast_2d of a non 2-d symbolic array")

    @staticmethod
    def concatenate(xs, axis=0, dtype=None):
        if axis == 1:
            return _concat_axis1(xs)
        return NP.concatenate(xs)

    @staticmethod
    def einsum(spec, a, b):
        sp = spec.replace(" ", "")
        if sp == "ijk,j->ik":
            if not (isinstance(a, SymArray) and a.ndim == 3 and isinstance(b, SymArray) and b.ndim == 1):
                raise sym.Unsupported("einsum operands")
            from pyvc.arr import _shape_ob
            _shape_ob((a.shape[1],), (b.shape[0],))
            n = a.shape[1]
            return SymArray((a.shape[0], a.shape[2]), lambda i, k: gsum.gsum(n, lambda t: SR.lift(a.at(i, t, k)) * SR.lift(b.at(t)), what=f"einsum {sp}"))
        return NP.einsum(spec, a, b)

    @staticmethod
    def bincount(x, weights=None, minlength=0):
        """np.bincount over a concatenation of index blocks: out[s] = sum over the positions t with x[t] == s of weights[t] (1 without weights).
        The output length is max(x) + 1: taken as the symbolic `nbins` the caller registered for the index family (every site has an edge)."""
        from pyvc.arr import blocks_of
        xb = blocks_of(x)
        wb = blocks_of(weights) if weights is not None else [None] * len(xb)
        if len(xb) != len(wb):
            raise sym.Unsupported("bincount: index and weight blocks differ")
        nb = None
        for b in xb:
            nb = nb or getattr(b, "nbins", None) or getattr(getattr(b, "defn_src", None), "nbins", None)
        if nb is None:
            nb = sym.ctx().ghost.get("bincount_nbins")
        if nb is None:
            raise sym.Unsupported("bincount: number of bins unknown")

        def fn(s):
            tot = SR(0)
            for ib, wv in zip(xb, wb):
                if wv is not None:
                    from pyvc.arr import _shape_ob
                    _shape_ob(ib.shape, wv.shape)
                tot = tot + gsum.gsum(ib.shape[0], (lambda wv_: (lambda t: SR.lift(wv_.at(t)) if wv_ is not None else SR(1)))(wv),
                                      guard=(lambda ib_: (lambda t: ib_.at(t).e == s.e))(ib), what="bincount")
            return tot
        return SymArray((SI.lift(nb),), fn)

    @staticmethod
    def array(x, dtype=None):
        if isinstance(x, list) and x and all(isinstance(a, SymArray) and a.ndim == 1 for a in x):
            rows = list(x)
            from pyvc.arr import _shape_ob
            for r in rows[1:]:
                _shape_ob(rows[0].shape, r.shape)

            def fn(i, k):
                ic = i.concrete()
                if ic is not None:
                    return rows[ic].at(k)
                out = rows[-1].at(k)
                for q in range(len(rows) - 2, -1, -1):
                    out = sym.ite(i.e == q, rows[q].at(k), out)
                return out
            return _T(SymArray((SI(len(rows)), rows[0].shape[0]), fn))
        return NP.array(x, dtype)


class _T(SymArray):
    """2-d array with the .T attribute"""

    def __init__(self, a):
        super().__init__(a.shape, a._fn, a.guard, a.kind)

    @property
    def T(self):
        src = self
        return SymArray((self.shape[1], self.shape[0]), lambda i, k: src.at(k, i))


def _registry():
    ureg = pintmodel.make_registry()
    ell = ureg.user_unit("LEN", pintmodel.LENGTH, "ell")
    phi = ureg.user_unit("FIELD", pintmodel.FIELD, "phi")
    iota = ureg.user_unit("CUR", pintmodel.CURRENT, "iota")
    # a second, unrelated set of units in which stored quantities / requested outputs may be expressed
    ell2 = ureg.user_unit("LEN2", pintmodel.LENGTH, "ell2")
    phi2 = ureg.user_unit("FIELD2", pintmodel.FIELD, "phi2")
    iota2 = ureg.user_unit("CUR2", pintmodel.CURRENT, "iota2")
    return ureg, dict(ell=ell, phi=phi, iota=iota, ell2=ell2, phi2=phi2, iota2=iota2)


def new_solution(cls, device, field_units="FIELD", current_units="CUR", path="/cwd/s.h5"):
    """a Solution object for a harness: the REAL constructor runs (so every attribute it initialises exists, whatever helpers / caches the class
    keeps), with the data loading switched off; falls back to __new__ when the constructor cannot run on the stand-in device"""
    class _Quiet(cls):
        def load_tdgl_data(self, *a, **k):
            pass
    if not hasattr(device, "copy"):
        device.copy = lambda *a, **k: device
    if not hasattr(device, "mesh"):
        device.mesh = None
    opts = type("Opts", (), {"field_units": field_units, "current_units": current_units})()
    try:
        s = _Quiet(device=device, options=opts, path=path, applied_vector_potential=None, terminal_currents=None, disorder_epsilon=None, total_seconds=0.0)
        s.__class__ = cls
        s.device = device
    except Exception:
        s = cls.__new__(cls)
        s.device = device
        s._field_units, s._current_units = field_units, current_units
    return s


def _si(q, *idx):
    """SI value of an element of a quantity-valued array / scalar"""
    m = q.mag
    v = m.at(*idx) if isinstance(m, SymArray) else m
    return SR.lift(v) * SR.lift(q.scale)


def run_vector_potential(mutate=None, prefixes=("C20.", "C08.")):
    """Solution.vector_potential_at_position on symbolic arrays: every part in SI units, the total, the parts dictionary"""
    mut = [(o, n) for (m, o, n) in (mutate or []) if m == SOL]
    rb = {"np": NPSol}
    rb.update(BUILTINS)
    L = instrument.load(SOL, rebind=rb, mutate=mut, vc=vcm.VC())

    def body():
        c = sym.ctx()
        c.record_prefixes = tuple(prefixes)
        c.uf_math = True
        gsum.reset()
        R = z3.Real
        ureg, U = _registry()
        ell, phi, iota = U["ell"], U["phi"], U["iota"]
        N, m = SI(z3.Int("n_sites")), SI(z3.Int("n_points"))
        assume(N >= 1, m >= 1)
        xi, z0 = SR(R("xi_num")), SR(R("z0"))
        assume(xi > 0)
        pts = SymArray.input("site_xy", (N, 2))
        areas = SymArray.input("area_num", (N,))
        pos = SymArray.input("pos_xy", (m, 2))
        zs = SymArray.input("pos_z", (m,))
        Ks = SymArray.input("Ks_num", (N, 2))
        Kn = SymArray.input("Kn_num", (N, 2))
        time_dep = bool(SB(z3.Bool("applied_potential_is_time_dependent")))
        three = bool(SB(z3.Bool("applied_potential_has_three_components")))
        A_app = SymArray.input("A_applied_num", (m, 3 if three else 2))
        seen = {}

        class Applied:
            time_dependent = time_dep

            def __call__(self_, x, y, z, **kw):
                seen.update(x=x, y=y, z=z, kw=kw)
                return A_app

        def cdist(a, b, metric="euclidean"):
            seen["cdist"] = (a, b, metric)
            if metric != "sqeuclidean":
                raise sym.Unsupported("cdist metric")
            return SymArray((a.shape[0], b.shape[0]), lambda i, j: (SR.lift(a.at(i, SI(0))) - SR.lift(b.at(j, SI(0)))) ** 2
                            + (SR.lift(a.at(i, SI(1))) - SR.lift(b.at(j, SI(1)))) ** 2)
        L.ns["distance"] = type("Dist", (), {"cdist": staticmethod(cdist)})
        Real = L["Solution"]
        times = SymArray.input("frame_times", (SI(z3.Int("n_frames")),))
        step = SI(z3.Int("loaded_step"))
        assume(step >= 0, step < times.shape[0])

        class S2(Real):
            pass
        S2.times = times
        S2.solve_step = step
        dev = type("Dev", (), {})()
        dev.ureg, dev.points, dev.length_units = ureg, pts, "LEN"
        dev.mesh = type("M", (), {"areas": areas})()
        dev.coherence_length = pintmodel.Q(xi, pintmodel.LENGTH, ell)
        dev.layer = type("Lay", (), {"z0": z0})()
        s = new_solution(S2, dev, "FIELD", "CUR")
        # the stored sheet current densities may be expressed in ANY current / length units (scale factor kappa)
        kdims = tuple(a - b for a, b in zip(pintmodel.CURRENT, pintmodel.LENGTH))
        kappa = U["iota2"] / U["ell2"]
        s.supercurrent_density = pintmodel.Q(Ks, kdims, kappa)
        s.normal_current_density = pintmodel.Q(Kn, kdims, kappa)
        s.applied_vector_potential = Applied()
        out_units = None if bool(SB(z3.Bool("default_output_units"))) else "FIELD2 * LEN2"
        tot = s.vector_potential_at_position(pos, zs=zs, units=out_units)
        parts = s.vector_potential_at_position(pos, zs=zs, units=out_units, return_sum=False)
        i, k = SI(FreshInt("i")), SI(FreshInt("k"))
        assume(i >= 0, i < m, k >= 0, k < 2)
        pi = SR(math.pi)
        mu0 = ureg.mu0

        def dist2(t):
            return (SR.lift(pos.at(i, SI(0))) - SR.lift(pts.at(t, SI(0)))) ** 2 + (SR.lift(pos.at(i, SI(1))) - SR.lift(pts.at(t, SI(1)))) ** 2 \
                + (SR.lift(zs.at(i)) - z0) ** 2

        def pre(t):
            # precondition: the evaluation point is not a source site (the kernel is singular there)
            return [dist2(t).e > 0]

        def spec(K):
            # (mu0 / 4 pi) * K_SI(t) * area_SI(t) / distance_SI(i, t)
            return lambda t: mu0 / (4 * pi) * (SR.lift(K.at(t, k)) * kappa) * (SR.lift(areas.at(t)) * xi * xi * ell * ell) / (NP.sqrt(dist2(t)) * ell)
        ok_keys = isinstance(parts, dict) and set(parts) == {"applied", "supercurrent_density", "normal_current_density"}
        check("C20.vector_potential.parts_are_applied_supercurrent_normal", z3.BoolVal(ok_keys))
        if not ok_keys:
            return
        want_dims = tuple(a + b for a, b in zip(pintmodel.FIELD, pintmodel.LENGTH))
        for nm, K in (("supercurrent_density", Ks), ("normal_current_density", Kn)):
            q = parts[nm]
            check(f"C20.vector_potential.part_has_units_of_field_times_length[{nm}]", z3.BoolVal(isinstance(q, pintmodel.Q) and q.dims == want_dims))
            gsum.value_is_sum(f"C20.vector_potential.part_is_mu0_over_4pi_sum_K_area_over_distance_in_SI[{nm}]", _si(q, i, k), N, spec(K), pre=pre)
            check(f"C20.vector_potential.z_component_of_sheet_current_part_is_zero[{nm}]", sym.eq(_si(q, i, SI(2)), 0))
        qa = parts["applied"]
        kk = SI(FreshInt("kk"))
        assume(kk >= 0, kk < 3)
        a_want = sym.ite(z3.And(kk.e == 2, z3.BoolVal(not three)), SR(0), SR.lift(A_app.at(i, sym.ite(z3.And(kk.e == 2, z3.BoolVal(not three)), SI(0), kk))))
        check("C20.vector_potential.applied_part_is_the_applied_potential_in_field_times_length_units", sym.eq(_si(qa, i, kk), a_want * phi * ell))
        check("C20.vector_potential.applied_potential_evaluated_at_the_requested_points",
              z3.And(sym.eq(seen["x"].at(i), pos.at(i, SI(0))), sym.eq(seen["y"].at(i), pos.at(i, SI(1))), sym.eq(seen["z"].at(i), zs.at(i))))
        if time_dep:
            tk = seen["kw"].get("t")
            check("C20.vector_potential.time_dependent_potential_evaluated_at_the_time_of_the_loaded_frame",
                  z3.BoolVal(tk is not None) if tk is None else sym.eq(tk, times.at(step)))
        else:
            check("C20.vector_potential.static_potential_called_without_time", z3.BoolVal("t" not in seen["kw"]))
        check("C20.total_is_sum_of_applied_supercurrent_and_normal_parts",
              sym.eq(_si(tot, i, kk), _si(qa, i, kk) + _si(parts["supercurrent_density"], i, kk) + _si(parts["normal_current_density"], i, kk)))
        # C08: the output is a physical quantity: its SI value does not mention the unit scale factors beyond the inputs' own
        uw = ureg("FIELD * LEN") if out_units is None else ureg(out_units)
        check("C08.physical_outputs.vector_potential_expressed_in_the_requested_units",
              z3.BoolVal(isinstance(tot, pintmodel.Q) and tot.dims == want_dims) if not isinstance(tot, pintmodel.Q) else sym.eq(tot.scale, SR.lift(uw.scale) * SR.lift(uw.mag)))
        # with_units=False returns the bare magnitudes of the same quantities
        bare = s.vector_potential_at_position(pos, zs=zs, units=out_units, with_units=False)
        check("C20.vector_potential.without_units_returns_the_magnitudes", z3.BoolVal(isinstance(bare, SymArray)) if not isinstance(bare, SymArray)
              else sym.eq(bare.at(i, kk), tot.mag.at(i, kk)))
        # history: the SAME solution object after its sheet currents changed (another frame loaded, currents reassigned): the potential is that of the
        # currents the solution holds NOW, not of those it held at an earlier call
        Ks2, Kn2 = SymArray.input("Ks_num_later", (N, 2)), SymArray.input("Kn_num_later", (N, 2))
        s.supercurrent_density = pintmodel.Q(Ks2, kdims, kappa)
        s.normal_current_density = pintmodel.Q(Kn2, kdims, kappa)
        if hasattr(s, "_vorticity"):
            s._vorticity = None           # what load_tdgl_data resets when another frame is loaded
        later = s.vector_potential_at_position(pos, zs=zs, units=out_units, return_sum=False)
        if isinstance(later, dict):
            for nm, K in (("supercurrent_density", Ks2), ("normal_current_density", Kn2)):
                if isinstance(later.get(nm), pintmodel.Q):
                    gsum.value_is_sum(f"C20.vector_potential.follows_the_currents_the_solution_holds_now[{nm}]", _si(later[nm], i, k), N, spec(K), pre=pre)
    obls, n = explore(body)
    return dict(obls=obls, paths=n, sources=[L.info()], consistent=sym.consistent())


def run_current_density(mutate=None, prefixes=("C08.", "C20.")):
    """Solution.load_tdgl_data: the physical sheet current density is K0 (real Device.K0, SI) times the dimensionless site current, expressed in
    the solution's current units per device length unit; current_density is the sum of the two parts"""
    mut = [(o, n) for (m, o, n) in (mutate or []) if m == SOL]
    mutd = [(o, n) for (m, o, n) in (mutate or []) if m == D_]
    rb = {"np": NPSol}
    rb.update(BUILTINS)
    L = instrument.load(SOL, rebind=rb, mutate=mut, vc=vcm.VC())
    LD = instrument.load(D_, rebind={"np": NPSol}, mutate=mutd, vc=vcm.VC())

    def body():
        c = sym.ctx()
        c.record_prefixes = tuple(prefixes)
        R = z3.Real
        ureg, U = _registry()
        ell, iota = U["ell"], U["iota"]
        LD.ns["ureg"] = ureg
        Device = LD["Device"]
        Device.ureg = ureg
        N = SI(z3.Int("n_sites"))
        assume(N >= 1)
        xi, lam, d = SR(R("xi_num")), SR(R("lambda_num")), SR(R("thickness_num"))
        assume(xi > 0, lam > 0, d > 0)
        layer = type("Layer", (), {})()
        layer.coherence_length, layer.london_lambda, layer.thickness = xi, lam, d
        dev = Device.__new__(Device)
        dev.layer, dev._length_units, dev.mesh = layer, "LEN", "MESH"
        norm = {"JS": SymArray.input("js_norm", (N,)), "JN": SymArray.input("jn_norm", (N,))}
        direc = {"JS": SymArray.input("js_dir", (N, 2)), "JN": SymArray.input("jn_dir", (N, 2))}
        asked = []

        def geq(q, mesh):
            asked.append((q, mesh))
            return norm[q], direc[q], None
        L.ns["get_edge_quantity_data"] = geq
        L.ns["get_data_range"] = lambda h: (SI(0), SI(z3.Int("step_max")))
        L.ns["TDGLData"] = type("T", (), {"from_hdf5": staticmethod(lambda h, step: type("TD", (), {"supercurrent": "JS", "normal_current": "JN"})())})
        L.ns["DynamicsData"] = type("Dy", (), {"from_hdf5": staticmethod(lambda h, a, b: "DYN")})
        Real = L["Solution"]
        s = Real.__new__(Real)
        s.path = "/cwd/s.h5"
        s.device = dev
        s._current_units = "CUR"
        s.load_tdgl_data(-1, h5file="H5")
        pi = SR(math.pi)
        xi_si = xi * ell
        Bc2 = ureg.phi0 / (2 * pi * xi_si * xi_si)
        Lam = (lam * ell) * (lam * ell) / (d * ell)
        K0 = 4 * xi_si * Bc2 / (ureg.mu0 * Lam)
        i, k = SI(FreshInt("i")), SI(FreshInt("k"))
        assume(i >= 0, i < N, k >= 0, k < 2)
        cong = sym.congruence_axioms
        kdims = tuple(a - b for a, b in zip(pintmodel.CURRENT, pintmodel.LENGTH))
        check("C20.current_density.site_quantities_come_from_the_loaded_edge_currents_on_the_device_mesh",
              z3.BoolVal(asked == [("JS", "MESH"), ("JN", "MESH")]))
        for nm, key in (("supercurrent_density", "JS"), ("normal_current_density", "JN")):
            q = getattr(s, nm)
            isq = isinstance(q, pintmodel.Q)
            check(f"C08.physical_outputs.current_density_has_units_of_current_per_length[{nm}]", z3.BoolVal(isq and q.dims == kdims))
            if isq:
                check(f"C08.physical_outputs.current_density_is_K0_times_dimensionless_site_current_in_SI[{nm}]",
                      sym.eq(_si(q, i, k), K0 * SR.lift(norm[key].at(i)) * SR.lift(direc[key].at(i, k))), fallback_extra=cong)
                check(f"C08.physical_outputs.current_density_expressed_in_current_units_per_length_unit[{nm}]", sym.eq(q.scale, iota / ell), fallback_extra=cong)
        tot = s.current_density
        if isinstance(tot, pintmodel.Q):
            check("C20.current_density.total_is_sum_of_supercurrent_and_normal_parts",
                  sym.eq(_si(tot, i, k), _si(s.supercurrent_density, i, k) + _si(s.normal_current_density, i, k)), fallback_extra=cong)
        else:
            check("C20.current_density.total_is_sum_of_supercurrent_and_normal_parts", False, note=f"current_density is {type(tot).__name__}")
    obls, n = explore(body)
    return dict(obls=obls, paths=n, sources=[L.info(), LD.info()], consistent=sym.consistent())


def run_site_average(mutate=None, prefixes=("C13.", "C20.", "C08.")):
    """Mesh.get_quantity_on_site: at every site the average over its incident edges of q_e * unit direction, halved (vector case) /
    of q_e halved (scalar case); linear in q"""
    mut = [(o, n) for (m, o, n) in (mutate or []) if m == MESH]
    rb = {"np": NPSol, "cupy": None}
    rb.update(BUILTINS)
    L = instrument.load(MESH, rebind=rb, mutate=mut, vc=vcm.VC())

    def body():
        c = sym.ctx()
        c.record_prefixes = tuple(prefixes)
        c.uf_math = True
        gsum.reset()
        N, E = SI(z3.Int("n_sites")), SI(z3.Int("n_edges"))
        assume(N >= 1, E >= 1)
        edges = SymArray.input("edge_site", (E, 2), "i")
        nd = SymArray.input("unit_direction", (E, 2))
        q = SymArray.input("q_edge", (E,))
        vector = bool(SB(z3.Bool("vector")))
        c.ghost["bincount_nbins"] = N          # every site has an incident edge: the largest site index occurring in `edges` is N - 1
        Mesh = L["Mesh"]
        msh = Mesh.__new__(Mesh)
        msh.edge_mesh = type("EM", (), {"normalized_directions": nd, "edges": edges})()
        out = msh.get_quantity_on_site(q, vector=vector)
        s_, k = SI(FreshInt("site")), SI(FreshInt("k"))
        assume(s_ >= 0, s_ < N, k >= 0, k < 2)
        # precondition (valid mesh): every site is an end of at least one edge.  The numbers of edges starting / ending at s are the finite sums
        # below; a reduction with the same range, guard and summand computed by the code is the same real (pyvc.gsum memo).
        c0 = gsum.gsum(E, lambda t: SR(1), guard=lambda t: edges.at(t, SI(0)).e == s_.e, what="edges starting at s")
        c1 = gsum.gsum(E, lambda t: SR(1), guard=lambda t: edges.at(t, SI(1)).e == s_.e, what="edges ending at s")
        deg = c0 + c1
        assume(c0 >= 0, c1 >= 0, deg >= 1)
        check("C13.site_average.shape", z3.BoolVal(isinstance(out, SymArray) and out.ndim == (2 if vector else 1)) if not isinstance(out, SymArray) else sym.eq(out.shape[0], N))
        val = out.at(s_, k) if vector else out.at(s_)

        def f_edge(t):
            return SR.lift(q.at(t)) * (SR.lift(nd.at(t, k)) if vector else SR(1))

        def summand(t):
            return (sym.ite(edges.at(t, SI(0)).e == s_.e, f_edge(t), SR(0)) + sym.ite(edges.at(t, SI(1)).e == s_.e, f_edge(t), SR(0))) / (2 * deg)
        gsum.value_is_sum("C13.site_average.is_half_the_mean_over_incident_edges", val, E, summand, coefficients=[c0, c1])
        # linear in the edge quantity (C20: fields computed from currents are linear in the currents)
        lam_ = SR(z3.Real("lin_c"))
        out2 = msh.get_quantity_on_site(q * lam_, vector=vector)
        val2 = out2.at(s_, k) if vector else out2.at(s_)
        gsum.value_is_sum("C20.site_average.linear_in_the_edge_quantity", val2, E, lambda t: lam_ * summand(t), coefficients=[c0, c1])
    obls, n = explore(body)
    return dict(obls=obls, paths=n, sources=[L.info()], consistent=sym.consistent())


def native_site_average(seed=0):
    """BOUNDED native oracle (replay): the real Mesh.get_quantity_on_site on real meshes against a direct loop over the edges"""
    import numpy as np
    import tdgl
    from tdgl.geometry import box, circle
    rng = np.random.default_rng(seed)
    bad, n = [], 0
    layer = tdgl.Layer(coherence_length=0.5, london_lambda=2, thickness=0.1)
    for pts, hole in ((box(3, 2), None), (circle(1.5, points=40), circle(0.4, points=12))):
        dev = tdgl.Device("d", layer=layer, film=tdgl.Polygon("film", points=pts), holes=[tdgl.Polygon("hole", points=hole)] if hole is not None else None)
        dev.make_mesh(max_edge_length=0.45, smooth=2)
        msh = dev.mesh
        qe = rng.normal(size=len(msh.edge_mesh.edges))
        for vec in (True, False):
            got = msh.get_quantity_on_site(qe, vector=vec)
            acc = np.zeros((len(msh.sites), 2))
            cnt = np.zeros(len(msh.sites))
            for e_, (a_, b_) in enumerate(msh.edge_mesh.edges):
                v_ = qe[e_] * msh.edge_mesh.normalized_directions[e_] if vec else np.array([qe[e_], qe[e_]])
                for s_ in (a_, b_):
                    acc[s_] += v_
                    cnt[s_] += 1
            ref = acc / cnt[:, None] / 2
            n += 1
            if not np.allclose(got, ref if vec else ref[:, 0], rtol=1e-12, atol=1e-30):
                bad.append(dict(what="Mesh.get_quantity_on_site is not half the mean of q_e * unit direction over the incident edges", vector=vec, sites=len(msh.sites)))
            got2 = msh.get_quantity_on_site(2.5 * qe, vector=vec)
            n += 1
            if not np.allclose(got2, 2.5 * got, rtol=1e-12, atol=1e-30):
                bad.append(dict(what="Mesh.get_quantity_on_site is not linear in the edge quantity", vector=vec))
    return bad, n


def run_convert_field(mutate=None, prefixes=("C20.",)):
    """tdgl.em.convert_field with the pint model: between magnetic field H (current / length) and flux density B (mass / (current time^2)),
    in ANY units of either kind (symbolic scale factors): B = mu0 H; same-kind conversions keep the physical value; conversions round-trip"""
    EM = "tdgl.em"
    mut = [(o, n) for (m, o, n) in (mutate or []) if m == EM]
    rb = {"np": NPSol}
    rb.update(BUILTINS)
    L = instrument.load(EM, rebind=rb, mutate=mut, vc=vcm.VC())

    def body():
        c = sym.ctx()
        c.record_prefixes = tuple(prefixes)
        R = z3.Real
        ureg, U = _registry()
        hd = tuple(a - b for a, b in zip(pintmodel.CURRENT, pintmodel.LENGTH))
        for nm in ("H1", "H2"):
            ureg.user_unit(nm, hd, "scale_" + nm)
        for nm in ("B1", "B2"):
            ureg.user_unit(nm, pintmodel.FIELD, "scale_" + nm)
        L.ns["pint"] = type("PintModule", (), {"Quantity": pintmodel.Q, "UnitRegistry": lambda *a, **k: ureg, "Unit": pintmodel.Q})
        cf = L["convert_field"]
        n = SI(z3.Int("n_values"))
        assume(n >= 1)
        arr = SymArray.input("field_values", (n,))
        j = SI(FreshInt("j"))
        assume(j >= 0, j < n)
        mu0 = ureg.mu0
        for old, new in (("H1", "H2"), ("H1", "B1"), ("B1", "H1"), ("B1", "B2")):
            fac = SR(1) if old[0] == new[0] else (mu0 if old[0] == "H" else 1 / mu0)
            so, sn = ureg.user[old], ureg.user[new]
            for form in ("array with old_units", "quantity"):
                val = arr if form == "array with old_units" else pintmodel.Q(arr, ureg(old).dims, so)
                kw = dict(old_units=old) if form == "array with old_units" else {}
                q = cf(val, new, ureg=ureg, **kw)
                tag = f"{old}->{new},{form}"
                isq = isinstance(q, pintmodel.Q)
                check(f"C20.convert_field.result_is_in_the_requested_units[{tag}]", z3.BoolVal(isq and q.dims == ureg(new).dims) if not isq else sym.eq(q.scale, sn))
                if isq:
                    check(f"C20.convert_field.B_equals_mu0_H_in_SI[{tag}]", sym.eq(_si(q, j), SR.lift(arr.at(j)) * so * fac))
                bare = cf(val, new, ureg=ureg, with_units=False, **kw)
                check(f"C20.convert_field.without_units_returns_the_magnitude[{tag}]", z3.BoolVal(isinstance(bare, SymArray)) if not isinstance(bare, SymArray) or not isq
                      else sym.eq(bare.at(j), q.mag.at(j)))
                if isq:
                    back = cf(q, old, ureg=ureg)
                    check(f"C20.convert_field.round_trip[{tag}]", z3.BoolVal(isinstance(back, pintmodel.Q)) if not isinstance(back, pintmodel.Q)
                          else z3.And(sym.eq(back.scale, so), sym.eq(back.mag.at(j), arr.at(j))))
        try:
            cf(arr, "B1", ureg=ureg)
            check("C20.convert_field.bare_numbers_need_old_units", False, note="no error without old_units")
        except ValueError:
            check("C20.convert_field.bare_numbers_need_old_units", True)
    obls, n_ = explore(body)
    return dict(obls=obls, paths=n_, sources=[L.info()], consistent=sym.consistent())
