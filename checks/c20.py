"""C20 -- fields and potentials computed from currents are linear and correct (kernel level)."""
import math

import z3

from pyvc import sym, autoloops
from pyvc.arr import SymArray
from pyvc.harness import Unit
from pyvc import harness as _h
from pyvc.sym import SB, SC, SI, SR, check, assume
from checks import kernels_common as kc

PROPERTY = "C20"
LEVEL = "proof"
TRUSTED = ["numba compiles the kernels with the semantics of their Python source (A6)", "numpy model",
           "finite-sum meta-lemma: a sum whose summand is linear in the current densities is linear in them"]
ASSUMPTIONS = ["evaluation points are off the current sheet (r != 0) - precondition of the division",
               "convert_field, Solution.vector_potential_at_position, Solution.load_tdgl_data (current density) and Mesh.get_quantity_on_site are executed with the "
               "pint model (symbolic unit factors) and the reduction models of pyvc.gsum; Solution.field_at_position and biot_savart_2d only under call contracts "
               "(which units / arrays are handed to the kernels); the pint library itself is an assumed contract (A4), cross-checked by the bounded native run",
               "current_loop_vector_potential: sin/cos/arccos/arctan2/sqrt/ellipk/ellipe uninterpreted, generic evaluation point; proved: the result is the "
               "documented closed form evaluated at the position relative to the loop centre in SI units, linear in the current (off axis / off wire), "
               "unchanged when loop and points are translated together.  That the closed form equals the Biot-Savart line integral is analysis (A3): "
               "bounded native quadrature (also the replay oracle; a counter-model over the uninterpreted functions is only a candidate until it replays)"]
EXPLANATION = "Biot-Savart kernels equal the direct sums of the docstring formulas with prefactor mu0/4pi; scalar = z of vector; distance kernels"
EM = "tdgl.em"
DM = "tdgl.distance"
MU0_4PI = None


def bs_args():
    n, m = SI(z3.Int("n_eval")), SI(z3.Int("m_src"))
    assume(n >= 0, m >= 0)
    ev = SymArray.input("eval_positions", (n, 3))
    pos = SymArray.input("positions", (m, 3))
    J = SymArray.input("current_densities", (m, 2))
    a = SymArray.input("areas", (m,))
    i, k = z3.Ints("pi pk")
    r2 = lambda i_, k_: sum((ev.at(SI(i_), SI(d)) - pos.at(SI(k_), SI(d))) ** 2 for d in range(3))
    sym.ctx().pc.append(z3.ForAll([i, k], SR.lift(r2(i, k)).e > 0))
    return (ev, pos, J, a)


def _spec_terms(ev, pos, J, a, i, k):
    """docstring of biot_savart_2d: mu0 H = mu0/4pi * sum a_k (J x r)/|r|^3, r = eval - source"""
    from scipy.constants import mu_0
    dx, dy, dz = [ev.at(i, SI(d)) - pos.at(k, SI(d)) for d in range(3)]
    r2 = dx * dx + dy * dy + dz * dz
    s = sym.real_sqrt(r2, label="spec.sqrt")
    pref = SR(mu_0 / (4 * math.pi)) * a.at(k) / (s * s * s)
    return dict(Jx_dy=pref * J.at(k, SI(0)) * dy, Jy_dx=pref * J.at(k, SI(1)) * dx, Jx_dz=pref * J.at(k, SI(0)) * dz, Jy_dz=pref * J.at(k, SI(1)) * dz)


def _gs(info, **sub):
    free_names = [x.decl().name() for x in info["free"]]
    return info["gs"](info["hi"].e, *[sub.get(nm, x) for nm, x in zip(free_names, info["free"])])


def bs_post(fname, vector):
    def post(args, res, specs):
        ev, pos, J, a = args
        n, m = ev.shape[0], pos.shape[0]
        i, k = SI(sym.FreshInt("i")), SI(sym.FreshInt("k"))
        assume(i >= 0, i < n, k >= 0, k < m)
        want = _spec_terms(ev, pos, J, a, i, k)
        sums = autoloops.SUMMARY.get("sums", {})
        names = ["Jx_dy", "Jy_dx"] + (["Jx_dz", "Jy_dz"] if vector else [])
        tot = {}
        for nm in names:
            info = sums.get((f"{fname}.L2", nm))
            if info is None:
                raise sym.Undecided(f"no reduction summary for accumulator {nm}")
            got = kc.summand_at(info, **{f"{fname}.L1_i": i.e, f"{fname}.L2_j": k.e})
            check(f"C20.{fname}.summand[{nm}]", got == want[nm].e, extra=sym.uf_axioms([got, want[nm].e]))
            check(f"C20.{fname}.sum_over_all_sources_from_zero[{nm}]", z3.And(info["lo"] == 0, sym.eq(info["entry"], 0), info["hi"].e == m.e))
            # linear in the current densities: summand(alpha J + beta J') = alpha summand(J) + beta summand(J')
            al, be = z3.Reals("alpha beta")
            Jf = z3.Function("current_densities", z3.IntSort(), z3.IntSort(), z3.RealSort())
            J2 = z3.Function("current_densities_2", z3.IntSort(), z3.IntSort(), z3.RealSort())
            apps = [Jf(k.e, z3.IntVal(0)), Jf(k.e, z3.IntVal(1))]
            comb = z3.substitute(got, *[(ap, al * ap + be * J2(*ap.children())) for ap in apps])
            second = z3.substitute(got, *[(ap, J2(*ap.children())) for ap in apps])
            check(f"C20.{fname}.linear[{nm}]", comb == al * got + be * second, extra=sym.uf_axioms([got]))
            tot[nm] = _gs(info, **{f"{fname}.L1_i": i.e})
        if vector:
            check(f"C20.{fname}.output", z3.And(SR.lift(res.at(i, SI(0))).e == tot["Jy_dz"], SR.lift(res.at(i, SI(1))).e == -tot["Jx_dz"],
                                                SR.lift(res.at(i, SI(2))).e == tot["Jx_dy"] - tot["Jy_dx"]))
            check(f"C20.{fname}.shape", z3.And(sym.eq(res.shape[0], n), sym.eq(res.shape[1], 3)))
        else:
            check(f"C20.{fname}.output", SR.lift(res.at(i)).e == tot["Jx_dy"] - tot["Jy_dx"])
            check(f"C20.{fname}.shape", sym.eq(res.shape[0], n))
        # every element assigned (np.empty buffer fully overwritten)
        el = res.at(i, SI(0)) if vector else res.at(i)
        check(f"{sym.ctx().kernel_prefix}.{fname}.no_uninitialised_value", kc.independent_of_uninitialised(SR.lift(el).e))
    return post


def run_bs_z(mutate=None, prefix="C20", record=None):
    return kc.run_kernel(EM, "_biot_savart_2d_z", ["map", "sum"], bs_args, bs_post("_biot_savart_2d_z", False), mutate, prefix=prefix, record=record)


def run_bs_vec(mutate=None, prefix="C20", record=None):
    return kc.run_kernel(EM, "_biot_savart_2d_vector", ["map", "sum"], bs_args, bs_post("_biot_savart_2d_vector", True), mutate, prefix=prefix, record=record)


def dist_args(dim):
    def mk():
        na, nb = SI(z3.Int("nA")), SI(z3.Int("nB"))
        assume(na >= 0, nb >= 0)
        return (SymArray.input("XA", (na, dim)), SymArray.input("XB", (nb, dim)))
    return mk


def dist_post(fname, dim, root):
    def post(args, res, specs):
        XA, XB = args
        i, j = SI(sym.FreshInt("i")), SI(sym.FreshInt("j"))
        assume(i >= 0, i < XA.shape[0], j >= 0, j < XB.shape[0])
        d2 = None
        for d in range(dim):
            t = (XA.at(i, SI(d)) - XB.at(j, SI(d)))
            d2 = t * t if d2 is None else d2 + t * t
        want = sym.real_sqrt(d2, label="spec.sqrt") if root else d2
        check(f"C20.{fname}.element", SR.lift(res.at(i, j)).e == want.e, extra=sym.uf_axioms([SR.lift(res.at(i, j)).e, want.e]))
        check(f"C20.{fname}.shape", z3.And(sym.eq(res.shape[0], XA.shape[0]), sym.eq(res.shape[1], XB.shape[0])))
        check(f"{sym.ctx().kernel_prefix}.{fname}.no_uninitialised_value", kc.independent_of_uninitialised(SR.lift(res.at(i, j)).e))
    return post


def run_dist(fname, dim, root):
    return lambda mutate=None, prefix="C20", record=None: kc.run_kernel(DM, fname, ["map", "map"], dist_args(dim), dist_post(fname, dim, root), mutate, prefix=prefix, record=record)


def run_cdist(mutate=None):
    """dispatcher: metric/dimension select the kernel with that metric and dimension; anything else raises ValueError"""
    from pyvc import vc as vcm
    L = kc.load(DM, {}, mutate, vcm.VC())

    def body():
        called = []
        for nm in ("euclidean_distance_2d", "sqeuclidean_distance_2d", "euclidean_distance_3d", "sqeuclidean_distance_3d"):
            L.ns[nm] = (lambda nm_: (lambda a, b: called.append(nm_) or nm_))(nm)
        for dim in (2, 3):
            for metric, pre in (("euclidean", "euclidean"), ("sqeuclidean", "sqeuclidean")):
                XA, XB = SymArray.input("XA", (SI(z3.Int("nA")), dim)), SymArray.input("XB", (SI(z3.Int("nB")), dim))
                r = L["cdist"](XA, XB, metric=metric)
                check(f"C20.cdist.dispatch[{metric},{dim}]", z3.BoolVal(r == f"{pre}_distance_{dim}d"))
        for bad in (dict(metric="cityblock"),):
            try:
                L["cdist"](SymArray.input("XA", (SI(3), 2)), SymArray.input("XB", (SI(3), 2)), **bad)
                check("C20.cdist.rejects_unknown_metric", False)
            except ValueError:
                check("C20.cdist.rejects_unknown_metric", True)
        try:
            L["cdist"](SymArray.input("XA", (SI(3), 2)), SymArray.input("XB", (SI(3), 3)))
            check("C20.cdist.rejects_dimension_mismatch", False)
        except ValueError:
            check("C20.cdist.rejects_dimension_mismatch", True)
    obls, n = sym.explore(body)
    return dict(obls=obls, paths=n, sources=[L.info()], consistent=sym.consistent())


def run_field_at_position(mutate=None, prefixes=("C20.", "C08.")):
    """Solution.field_at_position: call contract towards biot_savart_2d (units of the DEVICE, not defaults) and total = sum of parts"""
    from pyvc import instrument, vc as vcm
    SOL = "tdgl.solution.solution"
    mut = [(o, n) for (m, o, n) in (mutate or []) if m == SOL]
    L = instrument.load(SOL, mutate=mut, vc=vcm.VC())

    def body():
        import numpy as np
        c = sym.ctx()
        c.record_prefixes = tuple(prefixes)
        calls = []

        class H:
            def __init__(self, tag):
                self.tag = tag

            def __add__(self, o):
                return H(("sum", self.tag, getattr(o, "tag", o)))
            __radd__ = lambda self, o: self if o == 0 else H(("sum", o, self.tag))

        def bs(x, y, z, **kw):
            calls.append(dict(x=x, y=y, z=z, **kw))
            return H(("H", len(calls)))
        conv = []

        def convert_field(Hv, units, old_units=None, ureg=None, with_units=True):
            conv.append(dict(H=Hv, units=units, old_units=old_units, ureg=ureg))
            return H(("B", Hv.tag))
        L.ns["biot_savart_2d"] = bs
        L.ns["convert_field"] = convert_field

        class Dens:
            def __init__(self, name):
                self.name = name
                self.asked = None

            def to(self, u):
                self.asked = u
                return type("M", (), {"magnitude": ("J", self.name, u)})()
        for lu, cu in (("um", "uA"), ("nm", "mA"), ("mm", "nA")):
            for vector in (False, True):
                del calls[:], conv[:]
                Real = L["Solution"]
                areas = np.array([0.5, 0.25, 0.125])
                xi = 0.4
                dev = type("Dev", (), {})()
                dev.ureg = "UREG"
                dev.points = np.array([[0.0, 0.0], [1.0, 0.0], [0.0, 1.0]])
                dev.mesh = type("M", (), {"areas": areas})()
                dev.coherence_length = type("Qx", (), {"magnitude": xi})()
                dev.length_units = lu
                dev.layer = type("Lay", (), {"z0": 0.125})()
                dev.film = type("F", (), {"contains_points": lambda self_, p: np.zeros(len(p), dtype=bool)})()
                from checks import solution_common as _sc
                s = _sc.new_solution(Real, dev, "mT", cu)
                s.supercurrent_density, s.normal_current_density = Dens("Ks"), Dens("Kn")
                pos = np.array([[0.3, 0.2], [1.5, -0.5]])
                tot = s.field_at_position(pos, zs=0.75, vector=vector)
                parts = s.field_at_position(pos, zs=0.75, vector=vector, return_sum=False)
                tag = f"{lu},{cu},{'vector' if vector else 'z'}"
                first = calls[:2]
                ok_units = all(k.get("length_units", "um") == lu and k.get("current_units", "uA") == cu for k in calls)
                check(f"C08.physical_outputs.field_uses_device_length_and_current_units[{tag}]", z3.BoolVal(ok_units), note=str([(k.get("length_units"), k.get("current_units")) for k in calls]))
                check(f"C20.field_at_position.sources_are_mesh_sites_areas_sheet_z0[{tag}]",
                      z3.BoolVal(all(k["positions"] is dev.points and np.array_equal(k["areas"], areas * xi ** 2) and k["z0"] == 0.125 and k["vector"] is vector for k in calls)))
                check(f"C20.field_at_position.current_densities_converted_to_current_per_length_units[{tag}]",
                      z3.BoolVal(first[0]["current_densities"] == ("J", "Ks", f"{cu} / {lu}") and first[1]["current_densities"] == ("J", "Kn", f"{cu} / {lu}")))
                check(f"C20.field_at_position.evaluation_points_passed_through[{tag}]", z3.BoolVal(all(np.array_equal(k["x"], pos[:, 0]) and np.array_equal(k["y"], pos[:, 1])
                                                                                                       and np.array_equal(k["z"], np.array([0.75, 0.75])) for k in calls)))
                check(f"C20.field_at_position.converted_from_tesla[{tag}]", z3.BoolVal(all(cv["old_units"] == "tesla" and cv["units"] == "mT" and cv["ureg"] == "UREG" for cv in conv)))
                check(f"C20.total_is_sum_of_supercurrent_and_normal_parts[{tag}]", z3.BoolVal(tot.tag == ("sum", ("B", ("H", 1)), ("B", ("H", 2)))
                                                                                             and parts.supercurrent.tag == ("B", ("H", 3)) and parts.normal_current.tag == ("B", ("H", 4))))
                # history: the same solution object after its sheet currents changed (another frame loaded / currents reassigned)
                n0 = len(calls)
                s.supercurrent_density, s.normal_current_density = Dens("Ks_later"), Dens("Kn_later")
                if hasattr(s, "_vorticity"):
                    s._vorticity = None
                s.field_at_position(pos, zs=0.75, vector=vector)
                later = calls[n0:]
                check(f"C20.field_at_position.follows_the_currents_the_solution_holds_now[{tag}]",
                      z3.BoolVal(len(later) == 2 and later[0]["current_densities"] == ("J", "Ks_later", f"{cu} / {lu}") and later[1]["current_densities"] == ("J", "Kn_later", f"{cu} / {lu}")),
                      note=str([k.get("current_densities") for k in later]))
    obls, n = sym.explore(body)
    return dict(obls=obls, paths=n, sources=[L.info()], consistent=True)


# ---------------------------------------------------------------------------------------------------------------------------------
# current_loop_vector_potential: the real function is executed at a generic evaluation point (generic-row reading of the (n, 3)
# arrays).  sin, cos, arccos, arctan2, sqrt, ellipk, ellipe are UNINTERPRETED; the contract is the documented closed form
#     A(p) = I * F(p - c; a) ,  F = -mu0 a /(pi m) ((m - 2) K(m) + 2 E(m)) / sqrt(D) * e_phi ,
# every geometric quantity taken from the position RELATIVE to the loop centre, in SI units; plus linearity in the current and
# translation covariance.  That the closed form equals the Biot-Savart line integral is analysis (A3): bounded native quadrature.
DENOMS = []


class Col:
    """one real per row (generic row)"""
    def __init__(self, v):
        self.v = v if isinstance(v, SR) else SR(v)

    def _c(self, o):
        return o.v if isinstance(o, Col) else (o if isinstance(o, SR) else SR(o))

    def __add__(self, o): return Col(self.v + self._c(o))
    __radd__ = __add__
    def __sub__(self, o): return Col(self.v - self._c(o))
    def __rsub__(self, o): return Col(self._c(o) - self.v)

    def __mul__(self, o):
        if isinstance(o, (Rows, _U)):
            return NotImplemented
        return Col(self.v * self._c(o))
    __rmul__ = __mul__
    def __truediv__(self, o):
        d = self._c(o).e
        DENOMS.append(d)
        return Col(SR(self.v.e / d))      # z3's total division: congruent, x/0 unspecified

    def __rtruediv__(self, o):
        DENOMS.append(self.v.e)
        return Col(SR(self._c(o).e / self.v.e))
    def __neg__(self): return Col(-self.v)

    def __pow__(self, k):
        assert k == 2
        return Col(self.v * self.v)

    def __getitem__(self, key):
        if key == (slice(None), None):
            return self
        raise sym.Unsupported(f"Col[{key!r}]")


class Rows:
    """(n, k) array, generic row"""
    def __init__(self, cols, unit=None):
        self.cols, self.unit = list(cols), unit

    def _z(self, o, f):
        if isinstance(o, Rows):
            if len(o.cols) != len(self.cols):
                raise sym.Unsupported("broadcast of different widths")
            return Rows([Col(f(a.v, b.v)) for a, b in zip(self.cols, o.cols)])
        oc = o.v if isinstance(o, Col) else (o if isinstance(o, SR) else SR(o))
        return Rows([Col(f(a.v, oc)) for a in self.cols])

    def __sub__(self, o): return self._z(o, lambda a, b: a - b)
    def __add__(self, o): return self._z(o, lambda a, b: a + b)

    def __mul__(self, o):
        if isinstance(o, _U):
            return Rows(self.cols, unit=o.name)
        return self._z(o, lambda a, b: a * b)
    __rmul__ = __mul__

    def __getitem__(self, key):
        if isinstance(key, tuple) and key[0] == slice(None) and isinstance(key[1], int):
            return self.cols[key[1]]
        raise sym.Unsupported(f"Rows[{key!r}]")

    @property
    def T(self):
        return self

    def __len__(self):
        return 5        # number of rows: any positive number (only handed on to np.ones)


class _U:
    def __init__(self, name):
        self.name = name

    def to(self, other):
        fac = {("um", "m"): "to_meter", ("uA", "A"): "to_amp"}.get((self.name, other))
        if fac is None:
            raise sym.Unsupported(f"unit conversion {self.name} -> {other}")
        v = SR(z3.Real(fac))
        assume(v > 0)
        return type("Q", (), {"magnitude": v})()


def _uf(name, n=1):
    f = z3.Function(name, *([z3.RealSort()] * (n + 1)))
    return lambda *a: Col(SR(f(*[(x.v if isinstance(x, Col) else SR.lift(x)).e for x in a])))


class _LoopNP:
    pi = math.pi
    newaxis = None
    arccos, sin, cos, sqrt = _uf("arccos"), _uf("sin"), _uf("cos"), _uf("sqrt")
    arctan2 = _uf("arctan2", 2)

    class linalg:
        @staticmethod
        def norm(r, axis=None):
            assert axis == 1 and len(r.cols) == 3
            return _LoopNP.sqrt(r.cols[0] * r.cols[0] + r.cols[1] * r.cols[1] + r.cols[2] * r.cols[2])

    @staticmethod
    def atleast_2d(x):
        if isinstance(x, Rows):
            return x
        return Rows([Col(v) for v in x])

    @staticmethod
    def zeros_like(c):
        return Col(SR(0))

    @staticmethod
    def array(xs):
        return Rows(list(xs))


class _LoopSpecial:
    ellipk, ellipe = _uf("ellipk"), _uf("ellipe")


def run_loop_potential(mutate=None):
    from scipy.constants import mu_0
    from pyvc import instrument, vc as vcm
    mut = [(o, n) for (m, o, n) in (mutate or []) if m == EM]
    L = instrument.load(EM, rebind={"np": _LoopNP, "special": _LoopSpecial, "ureg": _U}, mutate=mut, vc=vcm.VC())
    fn = L["current_loop_vector_potential"]
    R = z3.Real

    def spec(p, c, a, cur):
        tm, ta = SR(R("to_meter")), SR(R("to_amp"))
        N = _LoopNP
        r = [Col(p[i] * tm - c[i] * tm) for i in range(3)]
        a_, I_ = Col(a * tm), Col(cur * ta)
        rs = N.sqrt(r[0] * r[0] + r[1] * r[1] + r[2] * r[2])
        s = N.sin(N.arccos(r[2] / rs))
        D = rs * rs + a_ * a_ + 2 * a_ * rs * s
        m = 4 * a_ * rs * s / D
        K, E = _LoopSpecial.ellipk(m), _LoopSpecial.ellipe(m)
        mag = -mu_0 * I_ * a_ / (math.pi * m) * ((m - 2) * K + 2 * E) / N.sqrt(D)
        phi = N.arctan2(r[1], r[0]) + math.pi / 2
        return [mag * N.cos(phi), mag * N.sin(phi), Col(SR(0))]

    def body():
        sym.ctx().safety = False
        p = [SR(R(f"p{i}")) for i in "xyz"]
        c = [SR(R(f"c{i}")) for i in "xyz"]
        d = [SR(R(f"d{i}")) for i in "xyz"]
        a, cur, al = SR(R("loop_radius")), SR(R("current")), SR(R("alpha"))
        assume(a > 0)
        call = lambda p_, c_, I_: fn(Rows([Col(v) for v in p_]), loop_center=tuple(c_), loop_radius=a, current=I_, length_units="um", current_units="uA")
        got = call(p, c, cur)
        want = spec(p, c, a, cur)
        check("C20.loop_potential.result_in_tesla_metre", z3.BoolVal(isinstance(got, Rows) and got.unit == "T * m" and len(got.cols) == 3))
        for i, ax in enumerate("xyz"):
            check(f"C20.loop_potential.closed_form_of_the_position_relative_to_the_loop_centre[A{ax}]", got.cols[i].v.e == want[i].v.e, weak=True)
        del DENOMS[:]
        got2 = call(p, c, al * cur)
        # precondition of the linearity clause: the point is neither on the loop axis (m = 0) nor on the wire (D = 0): no division by zero
        nz = [dd != 0 for dd in DENOMS]
        for i, ax in enumerate("xyz"):
            check(f"C20.loop_potential.linear_in_the_current[A{ax}]", got2.cols[i].v.e == (al * got.cols[i].v).e, weak=True, extra=nz)
        got3 = call([p[i] + d[i] for i in range(3)], [c[i] + d[i] for i in range(3)], cur)
        for i, ax in enumerate("xyz"):
            check(f"C20.loop_potential.unchanged_when_loop_and_points_move_together[A{ax}]", got3.cols[i].v.e == got.cols[i].v.e, weak=True)
    obls, n = sym.explore(body)
    return dict(obls=obls, paths=n, sources=[L.info()], consistent=sym.consistent())


# ---------------------------------------------------------------------------------------------------------------------------------
# biot_savart_2d (the public wrapper): what reaches the kernels.  Generic-row reading with dtype kinds: coordinates may arrive as
# integer arrays (pixel / lattice indices), z as a real scalar; numpy's *_like constructors inherit the dtype of their prototype.
class KCol(Col):
    def __init__(self, v, kind="r", n=None):
        Col.__init__(self, v)
        self.kind, self.n = kind, n

    @property
    def shape(self):
        return (self.n,)

    def __getitem__(self, key):
        if isinstance(key, int) and self.n == 1:
            return self.v
        return Col.__getitem__(self, key)

    def _k(self, o):
        ok = o.kind if isinstance(o, KCol) else ("i" if isinstance(o, int) and not isinstance(o, bool) else "r")
        return "i" if (self.kind == "i" and ok == "i") else "r"

    def _n(self, o):
        return self.n if not (isinstance(o, KCol) and self.n == 1) else o.n

    def __mul__(self, o):
        if isinstance(o, (Rows, _U)):
            return NotImplemented
        return KCol(self.v * self._c(o), self._k(o), self._n(o))
    __rmul__ = __mul__


class _Len:
    def __init__(self, name):
        self.name = name

    def __eq__(self, o):
        return isinstance(o, _Len) and o.name == self.name
    __hash__ = object.__hash__


def _cast(v, kind):
    v = v if isinstance(v, SR) else SR(v)
    return SR(z3.ToReal(z3.ToInt(v.e))) if kind == "i" else v


class _BSNP:
    newaxis = None

    @staticmethod
    def atleast_1d(*xs):
        return [x if isinstance(x, KCol) else KCol(x, "r", 1) for x in xs]

    @staticmethod
    def atleast_2d(*xs):
        return list(xs)

    @staticmethod
    def ones_like(x):
        return KCol(SR(1), x.kind, x.n)

    @staticmethod
    def full_like(x, v):
        v = v.v if isinstance(v, Col) else v
        return KCol(_cast(v, x.kind), x.kind, x.n)

    @staticmethod
    def zeros_like(x):
        return KCol(SR(0), x.kind, x.n)

    @staticmethod
    def ones(n):
        return KCol(SR(1), "r", n)

    @staticmethod
    def array(xs):
        return Rows(list(xs))

    @staticmethod
    def asarray(x):
        return x

    @staticmethod
    def broadcast_to(x, shape):
        return KCol(x.v, x.kind, shape[0])

    @staticmethod
    def concatenate(parts, axis=0):
        assert axis == 1
        cols = []
        for p_ in parts:
            cols += p_.cols if isinstance(p_, Rows) else [p_]
        return Rows(cols)


def run_biot_savart_wrapper(mutate=None):
    from pyvc import instrument, vc as vcm
    mut = [(o, n) for (m, o, n) in (mutate or []) if m == EM]
    L = instrument.load(EM, rebind={"np": _BSNP, "ureg": _U2}, mutate=mut, vc=vcm.VC())
    fn = L["biot_savart_2d"]
    calls = []

    def kern(which):
        def k(ev, pos, J, areas):
            calls.append((which, ev, pos, J, areas))
            return _Res(which)
        return k
    L.ns["_biot_savart_2d_vector"] = kern("vector")
    L.ns["_biot_savart_2d_z"] = kern("z")
    R = z3.Real

    def body():
        sym.ctx().safety = False
        tm, tj = SR(R("to_meter")), SR(R("to_amp_per_meter"))
        for xkind in ("r", "i"):
            for zmode in ("scalar", "array"):
                for vector in (True, False):
                    n = _Len("n")
                    xv, yv = SR(R("x_k")), SR(R("y_k"))
                    if xkind == "i":
                        xi, yi = z3.Int("x_k_int"), z3.Int("y_k_int")
                        xv, yv = SR(z3.ToReal(xi)), SR(z3.ToReal(yi))
                    x, y = KCol(xv, xkind, n), KCol(yv, xkind, n)
                    zs = SR(R("z"))
                    z = zs if zmode == "scalar" else KCol(zs, "r", n)
                    pos = Rows([KCol(SR(R("px")), "r", _Len("m")), KCol(SR(R("py")), "r", _Len("m"))])
                    J = Rows([KCol(SR(R("jx"))), KCol(SR(R("jy")))])
                    areas, z0 = KCol(SR(R("area"))), SR(R("z0"))
                    del calls[:]
                    out = fn(x, y, z, positions=pos, current_densities=J, z0=z0, areas=areas, length_units="um", current_units="uA", vector=vector)
                    tag = f"{'integer' if xkind == 'i' else 'float'} coordinates, z {zmode}, {'vector' if vector else 'z'}"
                    ok = len(calls) == 1 and calls[0][0] == ("vector" if vector else "z")
                    check(f"C20.biot_savart_2d.dispatches_to_the_right_kernel_once[{tag}]", z3.BoolVal(ok))
                    if not ok:
                        continue
                    _, ev, ps, Jk, ak = calls[0]
                    want_ev = [xv * tm, yv * tm, zs * tm]
                    for i, ax in enumerate("xyz"):
                        check(f"C20.biot_savart_2d.evaluation_point_in_metres[{ax}; {tag}]", ev.cols[i].v.e == want_ev[i].e)
                    want_ps = [SR(R("px")) * tm, SR(R("py")) * tm, z0 * tm]
                    check(f"C20.biot_savart_2d.sources_on_the_sheet_in_metres[{tag}]", z3.And(*[ps.cols[i].v.e == want_ps[i].e for i in range(3)]) if len(ps.cols) == 3 else z3.BoolVal(False))
                    check(f"C20.biot_savart_2d.current_density_in_amp_per_metre[{tag}]", z3.And(Jk.cols[0].v.e == (SR(R("jx")) * tj).e, Jk.cols[1].v.e == (SR(R("jy")) * tj).e))
                    check(f"C20.biot_savart_2d.areas_in_square_metres[{tag}]", ak.v.e == (SR(R("area")) * tm * tm).e)
                    check(f"C20.biot_savart_2d.result_in_tesla[{tag}]", z3.BoolVal(isinstance(out, tuple) and out[1] == "tesla" and out[0].which == calls[0][0]))
        # areas=None (the documented default): "the positions are triangulated to calculate vertex areas" - the triangulation is the Delaunay triangulation of
        # the given sheet positions, the areas handed to the kernel are the cell areas of the mesh built from THESE positions (in metres) and THAT
        # triangulation, taken as they are (already in square metres)
        tri_calls, mesh_calls = [], []

        class _Tri:
            def __init__(self, pts):
                tri_calls.append(pts)
                self.simplices = ("SIMPLICES", len(tri_calls))

        class _MeshStub:
            @staticmethod
            def from_triangulation(sites, elements, create_submesh=True):
                mesh_calls.append((sites, elements, create_submesh))
                return type("M", (), {"areas": KCol(SR(R("cell_area_m2")))})()
        L.ns["spatial"] = type("spatial", (), {"Delaunay": _Tri})
        L.ns["Mesh"] = _MeshStub
        for vector in (True, False):
            pos = Rows([KCol(SR(R("px")), "r", _Len("m")), KCol(SR(R("py")), "r", _Len("m"))])
            J = Rows([KCol(SR(R("jx"))), KCol(SR(R("jy")))])
            del calls[:], tri_calls[:], mesh_calls[:]
            tag = f"areas=None, {'vector' if vector else 'z'}"
            try:
                out = fn(KCol(SR(R("x_k")), "r", _Len("n")), KCol(SR(R("y_k")), "r", _Len("n")), SR(R("z")), positions=pos, current_densities=J, z0=SR(R("z0")), length_units="um", current_units="uA", vector=vector)
            except sym.Unsupported:
                raise
            want_xy = [SR(R("px")) * tm, SR(R("py")) * tm]

            def is_sheet(a):
                return isinstance(a, Rows) and len(a.cols) == 2 and all(z3.is_true(z3.simplify(c_.v.e == w_.e)) for c_, w_ in zip(a.cols, want_xy))
            check(f"C20.biot_savart_2d.default_areas.positions_are_triangulated[{tag}]", z3.BoolVal(len(tri_calls) == 1 and is_sheet(tri_calls[0])))
            check(f"C20.biot_savart_2d.default_areas.cell_areas_of_the_mesh_of_these_positions_and_that_triangulation[{tag}]",
                  z3.BoolVal(len(mesh_calls) == 1 and is_sheet(mesh_calls[0][0]) and len(tri_calls) == 1 and mesh_calls[0][1] == ("SIMPLICES", 1)))
            ok = len(calls) == 1 and calls[0][0] == ("vector" if vector else "z")
            check(f"C20.biot_savart_2d.default_areas.kernel_gets_the_cell_areas_in_square_metres[{tag}]", z3.BoolVal(ok) if not ok else calls[0][4].v.e == SR(R("cell_area_m2")).e)
    obls, n = sym.explore(body)
    return dict(obls=obls, paths=n, sources=[L.info()], consistent=sym.consistent())


class _RowsLen(Rows):
    def __len__(self):
        return 5


class _Res:
    def __init__(self, which):
        self.which = which

    def __mul__(self, u):
        return (self, u.name)


class _U2(_U):
    def to(self, other):
        fac = {("um", "m"): "to_meter", ("uA / um", "A / m"): "to_amp_per_meter"}.get((self.name, other))
        if fac is None:
            raise sym.Unsupported(f"unit conversion {self.name} -> {other}")
        v = SR(z3.Real(fac))
        assume(v > 0)
        return type("Q", (), {"magnitude": v})()


KERNELS = [("sqeuclidean_distance_2d", 2, False), ("sqeuclidean_distance_3d", 3, False), ("euclidean_distance_2d", 2, True), ("euclidean_distance_3d", 3, True)]



def _bounded_quick():
    return native(0)


def units():
    us = [Unit("_biot_savart_2d_z", EM + ":_biot_savart_2d_z", run_bs_z, props=["C20", "C09"], timeout=600),
          Unit("_biot_savart_2d_vector", EM + ":_biot_savart_2d_vector", run_bs_vec, props=["C20", "C09"], timeout=600)]
    for nm, dim, root in KERNELS:
        us.append(Unit(nm, DM + ":" + nm, run_dist(nm, dim, root), props=["C20", "C09"], timeout=300))
    us.append(Unit("cdist", DM + ":cdist", run_cdist, props=["C20"], timeout=300))
    us.append(Unit("Solution.field_at_position[call contract]", "tdgl.solution.solution:Solution.field_at_position", run_field_at_position, props=["C20", "C08"], timeout=300))
    us.append(Unit("biot_savart_2d[call contract]", EM + ":biot_savart_2d", run_biot_savart_wrapper, props=["C20"], timeout=300))
    us.append(Unit("biot_savart[1-D current elements]", EM + ":_biot_savart_1d_vector, biot_savart", run_biot_savart_1d, props=["C20"], timeout=300))
    us.append(Unit("current_loop_vector_potential", EM + ":current_loop_vector_potential", run_loop_potential, props=["C20"], timeout=300))
    us.append(Unit("sources.loop", "tdgl.sources.loop:loop_vector_potential, CurrentLoop",
                   lambda m=None: __import__("checks.field_common", fromlist=["x"]).run_loop_source(m, prefixes=("C20.", "C08.")), props=["C20", "C08"], timeout=300))
    from checks import solution_common as sc
    us.append(Unit("Solution.vector_potential_at_position", "tdgl.solution.solution:Solution.vector_potential_at_position",
                   lambda m=None: sc.run_vector_potential(m, prefixes=("C20.",)), props=["C20", "C08"], timeout=900))
    us.append(Unit("Solution.load_tdgl_data[current density]", "tdgl.solution.solution:Solution.load_tdgl_data / current_density + tdgl.device.device:Device.K0",
                   lambda m=None: sc.run_current_density(m, prefixes=("C20.",)), props=["C20", "C08"], timeout=300))
    us.append(Unit("Mesh.get_quantity_on_site", "tdgl.finite_volume.mesh:Mesh.get_quantity_on_site",
                   lambda m=None: sc.run_site_average(m, prefixes=("C20.",)), props=["C20", "C13"], timeout=300))
    us.append(Unit("convert_field", EM + ":convert_field", lambda m=None: sc.run_convert_field(m, prefixes=("C20.",)), props=["C20"], timeout=300))
    us.append(_h.bounded_unit("fields from currents on real arrays [bounded]", "tdgl.em / Solution.field_at_position (real)", "C20", _bounded_quick, "biot_savart_loop_potential_and_unit_round_trips", timeout=900))
    return us


def native(seed=0):
    """BOUNDED native stand-in for the clauses that are not under contract: SI units of biot_savart_2d against a direct numpy
    Biot-Savart sum, scalar = z of vector, linearity, H<->B round trip, loop vector potential against quadrature."""
    import numpy as np
    from scipy import integrate
    from scipy.constants import mu_0
    import tdgl.em as em
    rng = np.random.default_rng(seed)
    bad = []
    n = 0
    for t in range(6):
        m, k = int(rng.integers(5, 40)), int(rng.integers(1, 8))
        pos = rng.uniform(-1, 1, size=(m, 2))
        J = rng.normal(size=(m, 2))
        areas = rng.uniform(0.01, 0.1, size=m)
        x, y = rng.uniform(-2, 2, size=k), rng.uniform(-2, 2, size=k)
        z = rng.uniform(0.3, 2, size=k)
        for lu, cu in (("um", "uA"), ("nm", "mA"), ("mm", "nA")):
            B = em.biot_savart_2d(x, y, z, positions=pos, current_densities=J, areas=areas, length_units=lu, current_units=cu, vector=True).to("tesla").magnitude
            Bz = em.biot_savart_2d(x, y, z, positions=pos, current_densities=J, areas=areas, length_units=lu, current_units=cu, vector=False).to("tesla").magnitude
            L_ = em.ureg(lu).to("m").magnitude
            K_ = em.ureg(f"{cu}/{lu}").to("A/m").magnitude
            r = np.stack([x, y, z], 1)[:, None, :] * L_ - np.concatenate([pos, np.zeros((m, 1))], 1)[None, :, :] * L_
            Kv = np.concatenate([J, np.zeros((m, 1))], 1) * K_
            ref = mu_0 / (4 * np.pi) * np.einsum("k,ikd->id", areas * L_ ** 2, np.cross(Kv[None, :, :], r) / np.linalg.norm(r, axis=2)[:, :, None] ** 3)
            n += 1
            if not np.allclose(B, ref, rtol=1e-9, atol=1e-30) or not np.allclose(Bz, B[:, 2], rtol=1e-12, atol=1e-30):
                bad.append(dict(what="biot_savart_2d differs from the SI Biot-Savart sum / scalar != z of vector", units=(lu, cu), trial=t))
        # areas=None (the documented default: "the positions are triangulated to calculate vertex areas"): same field as with the cell areas of the mesh
        # of these positions handed in explicitly
        if t < 2:
            from scipy import spatial
            from tdgl.finite_volume.mesh import Mesh
            gx, gy = np.meshgrid(np.linspace(-1, 1, 5 + t), np.linspace(-0.6, 0.6, 4))
            gpos = np.stack([gx.ravel(), gy.ravel()], 1) + rng.uniform(-0.03, 0.03, size=(gx.size, 2))
            gJ = rng.normal(size=(len(gpos), 2))
            for lu in ("um", "nm"):
                L_ = em.ureg(lu).to("m").magnitude
                n += 1
                try:
                    cell = Mesh.from_triangulation(gpos * L_, spatial.Delaunay(gpos * L_).simplices).areas / L_ ** 2
                    want = em.biot_savart_2d(x, y, z, positions=gpos, current_densities=gJ, areas=cell, length_units=lu).to("tesla").magnitude
                except Exception as e:  # noqa - the reference itself could not be built: nothing to compare
                    continue
                try:
                    got = em.biot_savart_2d(x, y, z, positions=gpos, current_densities=gJ, length_units=lu).to("tesla").magnitude
                except Exception as e:  # noqa
                    bad.append(dict(what="biot_savart_2d with areas=None (the default) raises instead of triangulating the positions", error=f"{type(e).__name__}: {str(e)[:140]}",
                                    n_positions=len(gpos), length_units=lu))
                    continue
                if not np.allclose(got, want, rtol=1e-9, atol=1e-30):
                    bad.append(dict(what="biot_savart_2d with areas=None differs from the same call with the cell areas of the triangulated positions", length_units=lu,
                                    max_rel=float(np.abs(got - want).max() / np.abs(want).max())))
        # field of 1-D current elements (biot_savart) against the direct sum mu0/4pi I dl x r / |r|^3
        if t < 3:
            me = int(rng.integers(2, 9))
            p3, d3, I3 = rng.uniform(-1, 1, size=(me, 3)), rng.normal(size=(me, 3)) * 0.1, rng.normal(size=me)
            e3 = np.stack([x, y, z + 1.5], 1)
            got = em.biot_savart(e3, current_positions=p3, current_vectors=d3, currents=I3).to("tesla").magnitude
            r3 = e3[:, None, :] - p3[None, :, :]
            ref = mu_0 / (4 * np.pi) * np.einsum("k,ikd->id", I3, np.cross(d3[None, :, :], r3) / np.linalg.norm(r3, axis=2)[:, :, None] ** 3)
            n += 1
            if not np.allclose(got, ref, rtol=1e-9, atol=1e-30):
                bad.append(dict(what="biot_savart (1-D current elements) differs from the direct Biot-Savart sum", elements=me, trial=t))
        # integer lattice coordinates (pixel indices) with a real scalar height must give what the same points give as floats
        xi, yi = rng.integers(-3, 4, size=k), rng.integers(-3, 4, size=k)
        zsc = float(rng.uniform(0.3, 0.9))
        for vec in (True, False):
            Bi = em.biot_savart_2d(xi, yi, zsc, positions=pos, current_densities=J, areas=areas, vector=vec).magnitude
            Bf = em.biot_savart_2d(xi.astype(float), yi.astype(float), zsc, positions=pos, current_densities=J, areas=areas, vector=vec).magnitude
            n += 1
            if not np.allclose(Bi, Bf, rtol=1e-12, atol=1e-30):
                bad.append(dict(what="integer-valued coordinates give a different field than the same coordinates as floats", x=xi.tolist(), y=yi.tolist(), z=zsc, vector=vec,
                                max_rel_dev=float(np.abs(Bi - Bf).max() / (np.abs(Bf).max() + 1e-300)), trial=t))
        B2 = em.biot_savart_2d(x, y, z, positions=pos, current_densities=2.5 * J, areas=areas).magnitude
        B1 = em.biot_savart_2d(x, y, z, positions=pos, current_densities=J, areas=areas).magnitude
        n += 1
        if not np.allclose(B2, 2.5 * B1, rtol=1e-12):
            bad.append(dict(what="not linear in the currents", trial=t))
        v = rng.normal(size=4)
        for a_, b_ in (("mT", "uA/um"), ("uT", "A/m"), ("mA/um", "tesla")):
            n += 1
            try:
                w = em.convert_field(em.convert_field(v, b_, old_units=a_, with_units=False), a_, old_units=b_, with_units=False)
                if not np.allclose(w, v, rtol=1e-12):
                    bad.append(dict(what="field unit round trip", units=(a_, b_)))
            except Exception as e_:  # noqa
                bad.append(dict(what=f"field unit round trip raises {type(e_).__name__}: {str(e_)[:100]}", units=(a_, b_)))
        for old_, new_, val_, want_ in (("A/m", "tesla", 2.0, 2.0 * mu_0), ("tesla", "A/m", 3.0, 3.0 / mu_0), ("mT", "uT", 1.5, 1500.0), ("uA/um", "mA/mm", 2.0, 2.0)):
            n += 1
            try:
                got_ = em.convert_field(val_, new_, old_units=old_, with_units=False)
                q_ = em.convert_field(f"{val_} {old_}", new_)
                if not np.isclose(got_, want_, rtol=1e-12) or not np.isclose(q_.magnitude, want_, rtol=1e-12) or str(q_.units) != str(em.ureg(new_).units):
                    bad.append(dict(what="convert_field: B = mu0 H / same-kind conversion gives the wrong value or units", old=old_, new=new_, got=float(got_), want=want_))
            except Exception as e_:  # noqa
                bad.append(dict(what=f"convert_field raises {type(e_).__name__}: {str(e_)[:100]}", old=old_, new=new_))
    # Solution.field_at_position of a film that is NOT at height zero against the kernel called directly with the same sheet
    try:
        import logging
        import os
        import tempfile
        logging.disable(logging.CRITICAL)
        import tdgl
        from tdgl.geometry import box
        layer = tdgl.Layer(coherence_length=0.5, london_lambda=2, thickness=0.1, gamma=1, z0=0.75)
        dev = tdgl.Device("d", layer=layer, film=tdgl.Polygon("film", points=box(3, 2)), length_units="um")
        dev.make_mesh(max_edge_length=0.5, smooth=3)
        for cu_ in ("uA", "mA"):
            with tempfile.TemporaryDirectory() as td:
                sol = tdgl.solve(dev, tdgl.SolverOptions(solve_time=0.5, output_file=os.path.join(td, f"f{cu_}.h5"), save_every=50, field_units="mT", current_units=cu_), applied_vector_potential=0.4)
                P = np.array([[0.3, 0.2], [-0.8, 0.5], [2.0, -1.0]])
                zs = 2.0
                for vec in (True, False):
                    got = sol.field_at_position(P, zs=zs, vector=vec, units="tesla", with_units=False)
                    ref = 0
                    for nm in ("supercurrent_density", "normal_current_density"):
                        J = getattr(sol, nm).to(f"{cu_} / um").magnitude
                        ref = ref + em.biot_savart_2d(P[:, 0], P[:, 1], zs * np.ones(len(P)), positions=sol.device.points, current_densities=J, z0=0.75,
                                                      areas=sol.device.mesh.areas * sol.device.coherence_length.magnitude ** 2, length_units="um", current_units=cu_, vector=vec).to("tesla").magnitude
                    n += 1
                    if not np.allclose(np.asarray(got), ref, rtol=1e-9, atol=1e-30):
                        bad.append(dict(what="Solution.field_at_position of a film at height z0 = 0.75 differs from the Biot-Savart kernel evaluated for a sheet at that height",
                                        vector=vec, current_units=cu_, max_rel_dev=float(np.abs(np.asarray(got) - ref).max() / (np.abs(ref).max() + 1e-300))))
                # vector potential of the sheet currents against the direct SI sum (mu0/4pi) sum K a / |r - r'|; total = applied + parts
                # generic points and points exactly above / below mesh sites (scanning a probe over the sites of the device is a common use)
                Pz = np.concatenate([np.array([[0.3, 0.2, 2.0], [-0.8, 0.5, 1.5], [2.0, -1.0, 3.0]]),
                                     np.column_stack([sol.device.points[[0, 7, 19]], np.array([1.05, 0.45, 2.0])])])
                for out_u in (None, "tesla * meter"):
                    parts = sol.vector_potential_at_position(Pz, units=out_u, return_sum=False)
                    tot = sol.vector_potential_at_position(Pz, units=out_u)
                    um = 1e-6
                    xi_ = sol.device.coherence_length.magnitude
                    rr = np.sqrt(((Pz[:, None, :2] - sol.device.points[None, :, :]) ** 2).sum(axis=2) + (Pz[:, 2] - 0.75)[:, None] ** 2) * um
                    for nm in ("supercurrent_density", "normal_current_density"):
                        K_si = getattr(sol, nm).to("A / m").magnitude
                        ref = mu_0 / (4 * np.pi) * np.einsum("jk,ij,j->ik", K_si, 1 / rr, sol.device.mesh.areas * xi_ ** 2 * um ** 2)
                        got = parts[nm].to("tesla * meter").magnitude
                        n += 1
                        if not np.allclose(got[:, :2], ref, rtol=1e-9, atol=1e-30) or np.any(got[:, 2] != 0):
                            bad.append(dict(what=f"Solution.vector_potential_at_position: the {nm} part differs from (mu0/4pi) sum K a / |r - r'| in SI units",
                                            current_units=cu_, units=out_u, max_rel_dev=float(np.abs(got[:, :2] - ref).max() / (np.abs(ref).max() + 1e-300))))
                    n += 1
                    s3 = sum(parts[k_].to("tesla * meter").magnitude for k_ in ("applied", "supercurrent_density", "normal_current_density"))
                    if not np.allclose(tot.to("tesla * meter").magnitude, s3, rtol=1e-12, atol=1e-30):
                        bad.append(dict(what="Solution.vector_potential_at_position: the total is not applied + supercurrent + normal parts", current_units=cu_, units=out_u))
                    n += 1
                    app = parts["applied"].to("mT * um").magnitude
                    ref_app = np.asarray(sol.applied_vector_potential(Pz[:, 0], Pz[:, 1], Pz[:, 2]))
                    if not np.allclose(app[:, :ref_app.shape[1]], ref_app, rtol=1e-12, atol=1e-30):
                        bad.append(dict(what="Solution.vector_potential_at_position: the applied part is not the applied potential in field*length units", current_units=cu_, units=out_u))
                # the same solution object moved to an earlier frame: fields and potentials are those of the currents it holds NOW
                if sol.data_range is not None and sol.data_range[1] >= 2:
                    sol.solve_step = 1
                    got = sol.field_at_position(P, zs=zs, vector=True, units="tesla", with_units=False)
                    ref = 0
                    for nm in ("supercurrent_density", "normal_current_density"):
                        J = getattr(sol, nm).to(f"{cu_} / um").magnitude
                        ref = ref + em.biot_savart_2d(P[:, 0], P[:, 1], zs * np.ones(len(P)), positions=sol.device.points, current_densities=J, z0=0.75,
                                                      areas=sol.device.mesh.areas * sol.device.coherence_length.magnitude ** 2, length_units="um", current_units=cu_, vector=True).to("tesla").magnitude
                    n += 1
                    if not np.allclose(np.asarray(got), ref, rtol=1e-9, atol=1e-30):
                        bad.append(dict(what="Solution.field_at_position after moving the solution to another frame is not the field of that frame's currents (request a field, set solve_step, request again)",
                                        current_units=cu_, max_rel_dev=float(np.abs(np.asarray(got) - ref).max() / (np.abs(ref).max() + 1e-300))))
                    parts = sol.vector_potential_at_position(Pz, units="tesla * meter", return_sum=False)
                    for nm in ("supercurrent_density", "normal_current_density"):
                        K_si = getattr(sol, nm).to("A / m").magnitude
                        ref = mu_0 / (4 * np.pi) * np.einsum("jk,ij,j->ik", K_si, 1 / rr, sol.device.mesh.areas * xi_ ** 2 * um ** 2)
                        n += 1
                        if not np.allclose(parts[nm].to("tesla * meter").magnitude[:, :2], ref, rtol=1e-9, atol=1e-30):
                            bad.append(dict(what=f"Solution.vector_potential_at_position after moving the solution to another frame: the {nm} part is not that frame's", current_units=cu_))
                    sol.solve_step = sol.data_range[1]
                # a large cloud of evaluation points at different heights: the answer for a point does not depend on how many other points share the
                # call, nor on their order (one call = the same points in pieces = reversed order), for the potential and for the field
                if cu_ == "uA":
                    big = np.column_stack([rng.uniform(-2, 2, size=(2600, 2)), rng.uniform(0.9, 3.0, size=2600)])
                    def cur_parts(q_):
                        # (the applied part of a uniform field is stated about the centre of the points of the call - a gauge choice - so only the parts
                        # that come from the currents are compared)
                        pr_ = sol.vector_potential_at_position(q_, units="tesla * meter", with_units=False, return_sum=False)
                        return np.asarray(pr_["supercurrent_density"]) + np.asarray(pr_["normal_current_density"])
                    for what_, f_ in (("vector_potential_at_position", cur_parts),
                                      ("field_at_position", lambda q_: np.asarray(sol.field_at_position(q_, vector=True, units="tesla", with_units=False)))):
                        n += 1
                        one = f_(big)
                        pieces = np.concatenate([f_(big[a_:a_ + 700]) for a_ in range(0, len(big), 700)], axis=0)
                        rev = f_(big[::-1])[::-1]
                        if not (np.allclose(one, pieces, rtol=1e-9, atol=1e-30) and np.allclose(one, rev, rtol=1e-9, atol=1e-30)):
                            bad.append(dict(what=f"Solution.{what_}: 2600 points at different heights evaluated in one call differ from the same points evaluated 700 at a time / in reversed order",
                                            max_rel_dev=float(max(np.abs(one - pieces).max(), np.abs(one - rev).max()) / (np.abs(one).max() + 1e-300))))
                # physical sheet current density = K0 (current units / length units) * site average of the dimensionless edge currents
                n += 1
                js = sol.device.mesh.get_quantity_on_site(sol.tdgl_data.supercurrent) + sol.device.mesh.get_quantity_on_site(sol.tdgl_data.normal_current)
                refK = sol.device.K0.to(f"{cu_} / um").magnitude * js
                if not np.allclose(sol.current_density.to(f"{cu_} / um").magnitude, refK, rtol=1e-9, atol=1e-30):
                    bad.append(dict(what="Solution.current_density is not K0 times the site-averaged dimensionless current", current_units=cu_))
        # site average of an edge quantity against a direct loop over the edges
        msh = dev.mesh
        qe = rng.normal(size=len(msh.edge_mesh.edges))
        for vec in (True, False):
            got = msh.get_quantity_on_site(qe, vector=vec)
            acc = np.zeros((len(msh.sites), 2))
            cnt = np.zeros(len(msh.sites))
            for e_, (a_, b_) in enumerate(msh.edge_mesh.edges):
                v_ = qe[e_] * msh.edge_mesh.normalized_directions[e_] if vec else np.array([qe[e_], qe[e_]])
                for s_ in (a_, b_):
                    acc[s_] += v_
                    cnt[s_] += 1
            ref = acc / cnt[:, None] / 2
            n += 1
            if not np.allclose(got, ref if vec else ref[:, 0], rtol=1e-12, atol=1e-30):
                bad.append(dict(what="Mesh.get_quantity_on_site is not half the mean over the incident edges", vector=vec))
        logging.disable(logging.NOTSET)
    except Exception as e:  # noqa
        bad.append(dict(what=f"field_at_position cross-check raised {type(e).__name__}: {str(e)[:120]}"))
    for t in range(8):
        R = float(rng.uniform(0.5, 3))
        c0 = rng.uniform(-1, 1, size=3)
        p = rng.uniform(-4, 4, size=(3, 3))
        p[:, 2] += 5
        A = em.current_loop_vector_potential(p, loop_center=tuple(c0), current=1.0, loop_radius=R, length_units="um", current_units="mA")
        A = A.to("tesla * meter").magnitude if hasattr(A, "to") else np.asarray(A)
        for q in range(len(p)):
            def integrand(phi, comp):
                src = c0 + R * np.array([np.cos(phi), np.sin(phi), 0])
                dl = R * np.array([-np.sin(phi), np.cos(phi), 0])
                return mu_0 / (4 * np.pi) * 1e-3 * dl[comp] * 1e-6 / (np.linalg.norm(p[q] - src) * 1e-6)
            ref = np.array([integrate.quad(integrand, 0, 2 * np.pi, args=(cpt,), epsabs=1e-16, epsrel=1e-10)[0] for cpt in range(3)])
            n += 1
            if not np.allclose(A[q], ref, rtol=1e-6, atol=1e-18):
                bad.append(dict(what="loop vector potential differs from quadrature", radius=R, point=p[q].tolist(), got=A[q].tolist(), want=ref.tolist()))
    return bad, n


def replay_scope(unit, obl):
    """the native replay of this property searches per unit, not per obligation: run it once per unit"""
    return "unit"


def replay(unit, obl):
    import tdgl
    if unit == "sources.loop":
        from checks import field_common
        bad, n = field_common.native_loop(0)
        if bad:
            return dict(confirmed=True, failing_input=bad[0], n_failing=len(bad), evaluations=n, tdgl_file=tdgl.__file__)
    try:
        bad, n = native(0)
    except Exception as e:
        return dict(confirmed=False, error=repr(e))
    if bad:
        return dict(confirmed=True, failing_input=bad[0], n_failing=len(bad), evaluations=n, tdgl_file=tdgl.__file__)
    return dict(confirmed=False, evaluations=n, tdgl_file=tdgl.__file__)


SOL_ = "tdgl.solution.solution"
MUTANTS = __import__("checks.field_common", fromlist=["x"]).MUTANTS_LOOP + [
    dict(name="1-D elements: cross product with the operands swapped", units=["biot_savart[1-D current elements]"], edits=[(EM, "np.cross(I_dl, r) / dr**3", "np.cross(r, I_dl) / dr**3")]),
    dict(name="1-D elements: inverse square of the distance", units=["biot_savart[1-D current elements]"], edits=[(EM, "np.cross(I_dl, r) / dr**3", "np.cross(I_dl, r) / dr**2")]),
    dict(name="1-D elements: distance from the origin", units=["biot_savart[1-D current elements]"], edits=[(EM, "            r = eval_positions[i] - current_positions[k]\n            dr = np.linalg.norm(r)", "            r = eval_positions[i] - current_positions[k]\n            dr = np.linalg.norm(eval_positions[i])")]),
    dict(name="vector potential: xi not squared in the cell areas", edits=[(SOL_, "areas = device.mesh.areas * device.coherence_length.magnitude**2\n        units = units or f\"{self.field_units} * {device.length_units}\"", "areas = device.mesh.areas * device.coherence_length.magnitude\n        units = units or f\"{self.field_units} * {device.length_units}\"")], units=["Solution.vector_potential_at_position"]),
    dict(name="vector potential: film height ignored", edits=[(SOL_, "        dz = zs - layer.z0\n        # rho has units", "        dz = zs\n        # rho has units")], units=["Solution.vector_potential_at_position"]),
    dict(name="vector potential: mu0/2pi", edits=[(SOL_, "A = (ureg(\"mu_0\") / (4 * np.pi) * A).to(units)", "A = (ureg(\"mu_0\") / (2 * np.pi) * A).to(units)")], units=["Solution.vector_potential_at_position"]),
    dict(name="vector potential: time of the last frame", edits=[(SOL_, "A_kwargs[\"t\"] = self.times[self.solve_step]", "A_kwargs[\"t\"] = self.times[-1]")], units=["Solution.vector_potential_at_position"]),
    dict(name="current density: total is the supercurrent only", edits=[(SOL_, "return self.supercurrent_density + self.normal_current_density", "return self.supercurrent_density")], units=["Solution.load_tdgl_data[current density]"]),
    dict(name="convert_field: H -> B divides by mu0", edits=[(EM, "value = (value * ureg(\"mu0\")).to(new_units)", "value = (value / ureg(\"mu0\")).to(new_units)")], units=["convert_field"]),
    dict(name="site average not halved", edits=[("tdgl.finite_volume.mesh", "vector_val = xp.array([x_group_values, y_group_values]).T / 2", "vector_val = xp.array([x_group_values, y_group_values]).T")], units=["Mesh.get_quantity_on_site"]),
    dict(name="loop azimuth from the absolute position", edits=[(EM, "    phis = np.arctan2(positions[:, 1], positions[:, 0]) + np.pi / 2", "    phis = np.arctan2(positions[:, 1] + loop_center[:, 1], positions[:, 0] + loop_center[:, 0]) + np.pi / 2")], units=["current_loop_vector_potential"]),
    dict(name="loop radius not converted to metres", edits=[(EM, "    a = loop_radius * to_meter\n    current = current * to_amp\n    positions = positions - loop_center", "    a = loop_radius\n    current = current * to_amp\n    positions = positions - loop_center")], units=["current_loop_vector_potential"]),
    dict(name="loop elliptic integrals swapped", edits=[(EM, "    K = special.ellipk(m)\n    E = special.ellipe(m)", "    K = special.ellipe(m)\n    E = special.ellipk(m)")], units=["current_loop_vector_potential"]),
    dict(name="z broadcast inherits the integer dtype of x", edits=[(EM, "        z = z * np.ones_like(x)", "        z = np.full_like(x, z[0])")], units=["biot_savart_2d[call contract]"]),
    dict(name="areas scaled by one length factor only", edits=[(EM, "        areas = areas * to_meter**2", "        areas = areas * to_meter")], units=["biot_savart_2d[call contract]"]),
    dict(name="Bz sign", edits=[(EM, "        Bz_out[i] = Jx_dy - Jy_dx", "        Bz_out[i] = Jy_dx - Jx_dy")]),
    dict(name="r^-2 instead of r^-3", edits=[(EM, "* (dx * dx + dy * dy + dz * dz) ** (-3 / 2)\n            )\n            Jx_dy += pref * Jx[k] * dy\n            Jy_dx += pref * Jy[k] * dx\n        Bz_out", "* (dx * dx + dy * dy + dz * dz) ** (-2 / 2)\n            )\n            Jx_dy += pref * Jx[k] * dy\n            Jy_dx += pref * Jy[k] * dx\n        Bz_out")]),
    dict(name="vector By sign", edits=[(EM, "B_out[i, 1] = -Jx_dz", "B_out[i, 1] = Jx_dz")]),
    dict(name="vector kernel accumulates Jx for Jy", edits=[(EM, "            Jy_dz += pref * Jy[k] * dz", "            Jy_dz += pref * Jx[k] * dz")]),
    dict(name="3d distance drops dz", edits=[(DM, "            out[i, j] = np.sqrt(dx * dx + dy * dy + dz * dz)", "            out[i, j] = np.sqrt(dx * dx + dy * dy)")]),
    dict(name="cdist swaps metrics in 3d", edits=[(DM, "        if metric == \"euclidean\":\n            return euclidean_distance_3d(XA, XB)\n        return sqeuclidean_distance_3d(XA, XB)", "        if metric == \"euclidean\":\n            return sqeuclidean_distance_3d(XA, XB)\n        return euclidean_distance_3d(XA, XB)")]),
    dict(name="accumulator hoisted out of the prange loop", edits=[(EM, "    for i in numba.prange(eval_positions.shape[0]):\n        Jx_dy = 0.0\n        Jy_dx = 0.0\n        for k in range(positions.shape[0]):\n            dx = eval_positions[i, 0] - positions[k, 0]\n            dy = eval_positions[i, 1] - positions[k, 1]\n            dz = eval_positions[i, 2] - positions[k, 2]\n            pref = (\n                (mu_0 / (4 * np.pi))\n                * areas[k]\n                * (dx * dx + dy * dy + dz * dz) ** (-3 / 2)\n            )\n            Jx_dy += pref * Jx[k] * dy\n            Jy_dx += pref * Jy[k] * dx\n        Bz_out",
          "    Jx_dy = 0.0\n    Jy_dx = 0.0\n    for i in numba.prange(eval_positions.shape[0]):\n        for k in range(positions.shape[0]):\n            dx = eval_positions[i, 0] - positions[k, 0]\n            dy = eval_positions[i, 1] - positions[k, 1]\n            dz = eval_positions[i, 2] - positions[k, 2]\n            pref = (\n                (mu_0 / (4 * np.pi))\n                * areas[k]\n                * (dx * dx + dy * dy + dz * dz) ** (-3 / 2)\n            )\n            Jx_dy += pref * Jx[k] * dy\n            Jy_dx += pref * Jy[k] * dx\n        Bz_out")]),
]


def thorough(seed=0):
    from pyvc import harness
    summary, broken = harness.run_mutants("checks.c20", units(), MUTANTS)
    bad, n = native(seed)
    bnd = dict(kind="bounded", evaluations=n, failing=len(bad), samples=bad[:3], bound="6 random current sheets x 3 unit systems, 24 loop points vs scipy.integrate.quad")
    if bad:
        broken.append(f"native field computation disagrees: {bad[0]}")
    return dict(coverage=dict(mutants=summary, bounded=bnd, mutants_killed=sum(1 for m in summary if m["verdict"] in ("killed", "not-proved") and m["expect"] == "killed"),
                              mutants_total=sum(1 for m in summary if m["expect"] == "killed")), broken=broken)


def run_biot_savart_1d(mutate=None):
    """_biot_savart_1d_vector / biot_savart (field of a set of 1-D current elements; used by current_loop_field): the REAL kernel source runs with real numpy
    on object arrays of symbolic reals for a concrete number of evaluation points (2) and current elements (3) - the loops are plain double loops, every
    (point, element) pair is treated alike - and every coordinate, element vector and current is symbolic.  For all values: B(r_i) =
    mu0/4pi sum_k I_k (dl_k x (r_i - r_k)) / |r_i - r_k|^3 component by component, linear in the currents, inputs not written; the public wrapper hands
    its arguments to the kernel unchanged and labels the result tesla."""
    import numpy as np
    from scipy.constants import mu_0
    from pyvc import instrument, vc as vcm
    mut = [(o, n) for (m, o, n) in (mutate or []) if m == EM]

    class _LA:
        @staticmethod
        def norm(r):
            return sym.real_sqrt(SR.lift(r[0]) * SR.lift(r[0]) + SR.lift(r[1]) * SR.lift(r[1]) + SR.lift(r[2]) * SR.lift(r[2]), label="spec.sqrt")

    class NPO:
        linalg = _LA
        pi = math.pi

        def __getattr__(self, k):
            return getattr(np, k)

        @staticmethod
        def zeros(shape, dtype=float):
            a = np.empty(shape, dtype=object)
            a[...] = 0
            return a
    numba_ = type("numba", (), {"njit": staticmethod(lambda *a, **k: (lambda f: f)), "prange": range})
    L = instrument.load(EM, rebind={"np": NPO(), "numba": numba_}, mutate=mut, vc=vcm.VC())
    R = z3.Real

    def body():
        c = sym.ctx()
        c.uf_math = True
        n, m = 2, 3
        ev = np.empty((n, 3), dtype=object)
        pos = np.empty((m, 3), dtype=object)
        dl = np.empty((m, 3), dtype=object)
        cur = np.empty((m,), dtype=object)
        for i in range(n):
            ev[i] = [SR(R(f"ev{i}_{a}")) for a in "xyz"]
        for k in range(m):
            pos[k] = [SR(R(f"pos{k}_{a}")) for a in "xyz"]
            dl[k] = [SR(R(f"dl{k}_{a}")) for a in "xyz"]
            cur[k] = SR(R(f"I{k}"))
        snap = [a.copy() for a in (ev, pos, dl, cur)]
        # no evaluation point sits on a current element
        for i in range(n):
            for k in range(m):
                d2 = sum(((ev[i][a] - pos[k][a]) * (ev[i][a] - pos[k][a]) for a in range(3)), SR(0))
                assume(d2 > 0)
        B = L["_biot_savart_1d_vector"](ev, pos, dl, cur)
        check("C20.biot_savart_1d.shape", z3.BoolVal(getattr(B, "shape", None) == (n, 3)))
        check("C20.biot_savart_1d.inputs_not_written", z3.BoolVal(all(all(x is y for x, y in zip(a.ravel(), b.ravel())) for a, b in zip((ev, pos, dl, cur), snap))))
        pref = SR(mu_0 / (4 * math.pi))
        for i in range(n):
            want = [SR(0), SR(0), SR(0)]
            for k in range(m):
                r = [ev[i][a] - pos[k][a] for a in range(3)]
                s = sym.real_sqrt(r[0] * r[0] + r[1] * r[1] + r[2] * r[2], label="spec.sqrt")
                idl = [cur[k] * dl[k][a] for a in range(3)]
                cr = [idl[1] * r[2] - idl[2] * r[1], idl[2] * r[0] - idl[0] * r[2], idl[0] * r[1] - idl[1] * r[0]]
                for a in range(3):
                    want[a] = want[a] + pref * cr[a] / (s * s * s)
            for a, ax in enumerate("xyz"):
                got = SR.lift(B[i][a])
                check(f"C20.biot_savart_1d.field_is_the_sum_over_the_elements[point {i}; {ax}]", sym.eq(got, want[a]), extra=sym.uf_axioms([got.e, want[a].e]))
        # the public wrapper: arguments reach the kernel unchanged, result labelled tesla
        seen = []
        L.ns["_biot_savart_1d_vector"] = lambda *a: seen.append(a) or "KERNEL_RESULT"

        class _T:
            def __rmul__(self, o):
                return (o, "tesla")
        L.ns["ureg"] = lambda u: _T() if u == "tesla" else (_ for _ in ()).throw(sym.Unsupported(u))
        out = L["biot_savart"](ev, current_positions=pos, current_vectors=dl, currents=cur)
        check("C20.biot_savart_1d.wrapper_hands_its_arguments_to_the_kernel_and_labels_tesla",
              z3.BoolVal(len(seen) == 1 and all(np.shape(x) == np.shape(y) and all(p is q for p, q in zip(np.asarray(x, dtype=object).ravel(), y.ravel())) for x, y in zip(seen[0], (ev, pos, dl, cur)))
                         and out == ("KERNEL_RESULT", "tesla")))
    obls, n_ = sym.explore(body, safety=False)
    return dict(obls=obls, paths=n_, sources=[L.info()], consistent=sym.consistent())
