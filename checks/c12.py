"""C12 -- time steps follow the documented adaptive rule and its bounds."""
from pyvc.harness import Unit
from pyvc import harness as _h
from checks import update_common as uc, init_common as ic

PROPERTY = "C12"
LEVEL = "proof"
TRUSTED = ["solve_for_psi_squared abstracted by its contract (C02): may refuse or answer nondeterministically",
           "numpy model; list-slice/mean model for d_psi_sq_vals[-window:]"]
ASSUMPTIONS = ["options satisfy validate() plus dt_init > 0, max_solve_retries >= 0, adaptive_window >= 1 (validate() does not check these)",
               "retry count: the code allows max_solve_retries+1 reductions (retries > max); the contract pins 'raise only after a refusal and only "
               "when at least max_solve_retries reductions were made' and 'at most max_solve_retries+1 reductions', so both > and >= readings pass"]
EXPLANATION = "loop invariant with ghost multiplier power on the real retry loop; window rule and bounds on the real update()"
F = "tdgl.solver.solver:TDGLSolver."



def _bounded_quick():
    from checks import update_native as un
    b1, n1 = un.retry_cases(0)
    b2, n2 = un.window_cases(0)
    b3, n3 = un.init_cases(0)
    return b1 + b2 + b3, n1 + n2 + n3


def _upd(screening, dynamic):
    return lambda m=None: uc.run_update(m, screening, dynamic, prefixes=("C12.",))


def units():
    return [
        Unit("adaptive_euler_step[adaptive]", F + "adaptive_euler_step", lambda m=None: uc.run_retry(m, True), props=["C12"], timeout=600),
        Unit("adaptive_euler_step[fixed]", F + "adaptive_euler_step", lambda m=None: uc.run_retry(m, False), props=["C12"], timeout=600),
        Unit("update[no screening, static A]", F + "update", _upd(False, False), props=["C12"], timeout=900),
        Unit("update[no screening, dynamic A]", F + "update", _upd(False, True), props=["C12"], timeout=900),
        Unit("update[screening, static A]", F + "update", _upd(True, False), props=["C12"], timeout=900),
        Unit("update[screening, dynamic A]", F + "update", _upd(True, True), props=["C12"], timeout=900),
        Unit("_run_stage[save, update raises]", "tdgl.solver.runner:Runner._run_stage", lambda m=None: _stage_raises(m), props=["C12", "C15"], timeout=900),
        Unit("TDGLSolver.__init__[no seed]", F + "__init__", lambda m=None: ic.run_init(m, prefixes=("C12.",)), props=["C12"], timeout=900),
        Unit("TDGLSolver.__init__[seed solution]", F + "__init__", lambda m=None: ic.run_init(m, prefixes=("C12.",), seeded=True), props=["C12"], timeout=900),
        Unit("solve[every run starts from dt_init]", F + "solve", _solve_start, props=["C12", "C11"], timeout=300),
        _h.bounded_unit("step rule on real updates [bounded]", "tdgl.solver.solver:TDGLSolver.update / adaptive_euler_step / __init__ (real)", "C12", _bounded_quick,
                        "retry_window_and_initial_step_rules_on_the_real_solver", timeout=900),
    ]


def _solve_start(m=None):
    """the real solve() on a solver that may have been run before (shared proof unit with C11): the adaptive state handed to the runner"""
    from checks import c11
    r = c11.run_seed(m)
    r["obls"] = [o for o in r["obls"] if o.name.startswith("C12.") or not o.name.startswith("C")]
    return r


def _stage_raises(m=None):
    """the run level of 'exhausting the retries raises an error instead of continuing': an error raised by the update leaves the
    real Runner loop unchanged (shared proof unit with C15; only the error-propagation obligations are kept)"""
    from checks import c15
    r = c15._stage(True, "update_raises")(m)
    r["obls"] = [o for o in r["obls"] if "stage_exceptional" in o.name or not o.name.startswith("C")]
    return r


def replay_scope(unit, obl):
    """the native replay of this property searches per unit, not per obligation: run it once per unit"""
    return "unit"


def replay(unit, obl):
    from checks import update_native
    if "bounded" in unit:
        bad, n = _bounded_quick()
        return dict(confirmed=bool(bad), failing_input=(bad or [None])[0], evaluations=n)
    if unit.startswith("TDGLSolver.__init__") or unit.startswith("solve["):
        return update_native.replay_init(unit, obl)
    if unit.startswith("_run_stage"):
        from checks import c15_native
        return c15_native.replay(unit, obl)
    return update_native.replay(unit, obl)


S_ = "tdgl.solver.solver"
MUTANTS = [
    dict(name="window test step >= window", edits=[(S_, "if step > window:", "if step >= window:")]),
    dict(name="window slice [-window-1:]", edits=[(S_, "np.mean(self.d_psi_sq_vals[-window:])", "np.mean(self.d_psi_sq_vals[-window - 1 :])")]),
    dict(name="multiplier applied twice", edits=[(S_, "kwargs[\"dt\"] = dt = dt * options.adaptive_time_step_multiplier", "kwargs[\"dt\"] = dt = dt * options.adaptive_time_step_multiplier ** 2")]),
    dict(name="retry counter never trips", edits=[(S_, "if not options.adaptive or retries > options.max_solve_retries:", "if not options.adaptive or retries < 0:")]),
    dict(name="clip to dt_init", edits=[(S_, "self.tentative_dt = np.clip(0.5 * (new_dt + dt), 0, self.dt_max)", "self.tentative_dt = np.clip(0.5 * (new_dt + dt), 0, options.dt_init)")]),
    dict(name="proposal from stale tentative dt", edits=[(S_, "np.clip(0.5 * (new_dt + dt), 0, self.dt_max)", "np.clip(0.5 * (new_dt + self.tentative_dt), 0, self.dt_max)")]),
    dict(name="returned dt not updated on retry", edits=[(S_, "kwargs[\"dt\"] = dt = dt * options.adaptive_time_step_multiplier", "kwargs[\"dt\"] *= options.adaptive_time_step_multiplier")]),
    dict(name="benign: retries >= max+1", expect="pass", edits=[(S_, "retries > options.max_solve_retries:", "retries >= options.max_solve_retries + 1:")]),
]


def thorough(seed=0):
    from pyvc import harness
    from checks import update_native
    summary, broken = harness.run_mutants("checks.c12", units(), MUTANTS)
    bnd = update_native.bounded(seed)
    broken = broken + bnd.get("broken", [])
    return dict(coverage=dict(mutants=summary, bounded=bnd, mutants_killed=sum(1 for m in summary if m["verdict"] in ("killed", "not-proved") and m["expect"] == "killed"),
                              mutants_total=sum(1 for m in summary if m["expect"] == "killed")), broken=broken)
