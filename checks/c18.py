"""C18 -- polygon and device geometry operations mean what they say.

shapely/GEOS and matplotlib.path do the geometry (A7): area laws and membership agreement are covered only by the bounded
native run.  Contracts decide the *wrapper logic* of the real Polygon / Device classes under assumed library contracts
(orient -> CCW exterior; affinity.* -> a new geometry; set operations -> a new geometry):
stored vertices are always close_curve(orient(.)), operators dispatch to the right set operation and fold left, non-in-place
operations and copies never alias or mutate the receiver, in-place ones return the receiver, and a point is inside a device
exactly when it is inside the film and outside EVERY hole."""
import ast
import itertools

import z3

from pyvc import sym, instrument, vc as vcm
from pyvc.arr import SymArray
from pyvc.harness import Unit
from pyvc import harness as _h
from pyvc.models.npmodel import NP, BUILTINS
from pyvc.sym import SB, SI, SR, check, assume, explore

PROPERTY = "C18"
LEVEL = "other"
TRUSTED = ["shapely / GEOS / matplotlib.path semantics (A7): orient gives a CCW exterior, affinity maps vertices, set operations are point-set operations away from boundaries"]
ASSUMPTIONS = ["area laws (rotation/translation preserve area, scaling multiplies it by |fx*fy|), point mapping and membership agreement of union/intersection/difference are "
               "NOT decided by contracts: bounded native run (random shapes x operations x probe points, real shapely) in the thorough tier"]
EXPLANATION = ("wrapper logic of the real Polygon/Device classes under assumed library contracts (models of shapely geometry objects with identity tracking); "
               "the geometric content is delegated to GEOS and only sampled (bounded)")
P_ = "tdgl.device.polygon"
D_ = "tdgl.device.device"


# ----------------------------------------------------------------------------- shapely model (identity-tracking geometry objects)


class Coords:
    def __init__(self, geom):
        self.geom = geom


class GPolygon:
    """model of shapely.geometry.Polygon: an opaque geometry with provenance"""
    _n = 0

    def __init__(self, src=None, how="ctor", interiors=False, valid=True, args=None):
        GPolygon._n += 1
        self.id = GPolygon._n
        self.src, self.how, self.args = src, how, args
        self._interiors, self._valid = interiors, valid
        self.ccw = False
        self.is_empty = False

    @property
    def interiors(self):
        return [1] if self._interiors else []

    @property
    def is_valid(self):
        return self._valid

    @property
    def exterior(self):
        return type("Ext", (), {"coords": Coords(self)})()

    RESULT_KIND = "single"      # what the library answers for the next set operation: single / pieces / empty

    def _op(self, name, other):
        if GPolygon.RESULT_KIND == "pieces":
            # the true result has several disconnected pieces: shapely answers with a MultiPolygon / GeometryCollection
            parts = [GPolygon(src=(self, other), how=name + ":piece") for _ in range(2)]
            for i_, g_ in enumerate(parts):
                g_.area = 2.0 - i_
            return type("MultiGeom", (), {"geoms": parts, "is_empty": False, "is_valid": True, "area": 3.0, "geom_type": "MultiPolygon"})()
        g = GPolygon(src=(self, other), how=name)
        if GPolygon.RESULT_KIND == "empty":
            g.is_empty = True
        return g

    def union(self, o): return self._op("union", o)
    def intersection(self, o): return self._op("intersection", o)
    def difference(self, o): return self._op("difference", o)


class Stored:
    """what np.array(points.exterior.coords) -> close_curve(...) produces: an array with provenance"""

    def __init__(self, geom, closed):
        self.geom, self.closed = geom, closed
        self.ndim = 2
        self.shape = (7, 2)

    def copy(self):
        c = Stored(self.geom, self.closed)
        c.copied_from = self
        return c


def make_models(scenario):
    class _poly:
        Polygon = None
        LinearRing = type("LinearRing", (), {})

    def poly_ctor(points):
        if isinstance(points, GPolygon):
            return points
        g = GPolygon(src=points, how="from_points", interiors=scenario.get("interiors", False), valid=scenario.get("valid", True))
        return g

    class PolyMeta(type):
        def __instancecheck__(cls, inst):
            return isinstance(inst, GPolygon)

    class PolygonCls(metaclass=PolyMeta):
        def __new__(cls, points):
            return poly_ctor(points)

    def orient(g):
        h = GPolygon(src=g, how="orient", interiors=g._interiors, valid=g._valid)
        h.ccw = True
        return h
    geo = type("geo", (), {})()
    geo.polygon = type("polygon", (), {"Polygon": PolygonCls, "LinearRing": _poly.LinearRing, "orient": staticmethod(orient)})
    geo.linestring = type("linestring", (), {"LineString": type("LineString", (), {})})
    geo.Polygon = PolygonCls
    aff_calls = []

    class affinity:
        @staticmethod
        def rotate(g, degrees, origin=None, use_radians=False):
            aff_calls.append(("rotate", g, degrees, origin, use_radians))
            return GPolygon(src=g, how="rotate", args=(degrees, origin))

        @staticmethod
        def translate(g, xoff=0.0, yoff=0.0):
            aff_calls.append(("translate", g, xoff, yoff))
            return GPolygon(src=g, how="translate", args=(xoff, yoff))

        @staticmethod
        def scale(g, xfact=1.0, yfact=1.0, origin=None):
            aff_calls.append(("scale", g, xfact, yfact, origin))
            return GPolygon(src=g, how="scale", args=(xfact, yfact, origin))

    class NPP:
        ndarray = type("ndarray", (), {})

        @staticmethod
        def asarray(x):
            return x

        @staticmethod
        def array(x):
            if isinstance(x, Coords):
                return Stored(x.geom, closed=False)
            return x

        @staticmethod
        def allclose(a, b):
            return a is b

    def close_curve(a):
        return Stored(a.geom, closed=True) if isinstance(a, Stored) else a

    class PathStub:
        """matplotlib.path.Path: only which vertex array it was built from is modelled"""
        def __init__(self, vertices, closed=False):
            self.vertices, self.closed = vertices, closed

        def contains_points(self, pts, radius=0.0):
            return Membership(self, pts, radius)

    class Membership:
        def __init__(self, path_, pts, radius):
            self.path, self.pts, self.radius = path_, pts, radius

    NPP.atleast_2d = staticmethod(lambda x: x)
    NPP.where = staticmethod(lambda m: (m,))
    pathmod = type("pathmod", (), {"Path": PathStub})
    return dict(geo=geo, affinity=affinity, np=NPP, close_curve=close_curve, explain_validity=lambda g: "invalid", path=pathmod), aff_calls


def load_polygon(scenario, mutate=None):
    mut = [(o, n) for (m, o, n) in (mutate or []) if m == P_]
    models, aff = make_models(scenario)
    L = instrument.load(P_, rebind=models, mutate=mut, vc=vcm.VC())
    return L, aff


OPS_ = ("union", "intersection", "difference", "rotate", "translate", "scale")


def chain(x):
    """all provenance nodes reachable from x (stored arrays, geometries), depth first"""
    out, todo = [], [x]
    while todo:
        y = todo.pop()
        if any(y is z_ for z_ in out):
            continue
        out.append(y)
        if isinstance(y, Stored):
            todo.append(y.geom)
            if hasattr(y, "copied_from"):
                todo.append(y.copied_from)
        elif isinstance(y, GPolygon):
            if isinstance(y.src, tuple):
                todo.extend(y.src)
            elif y.src is not None:
                todo.append(y.src)
    return out


def origin(x):
    """the most recent geometric operation in the provenance of x (skipping orient / from_points / copies)"""
    y = x
    while True:
        if isinstance(y, Stored):
            y = y.geom
        elif isinstance(y, GPolygon) and y.how in OPS_:
            return y
        elif isinstance(y, GPolygon) and y.src is not None and not isinstance(y.src, tuple):
            y = y.src
        else:
            return y


def has(node, target):
    return any(z_ is target for z_ in chain(node))


def root_geom(st):
    """walk provenance of a stored vertex array back: must be closed(orient(...))"""
    return isinstance(st, Stored) and st.closed and st.geom.how == "orient" and st.geom.ccw


def run_polygon(mutate=None):
    def body():
        # (1) the points setter is the only writer of _points (syntactic) ...
        src = open(instrument.module_path(P_)).read()
        tree = ast.parse(src)
        writers = []
        for fn in ast.walk(tree):
            if isinstance(fn, ast.FunctionDef):
                for n in ast.walk(fn):
                    if isinstance(n, (ast.Assign, ast.AugAssign)):
                        tg = n.targets if isinstance(n, ast.Assign) else [n.target]
                        for t in tg:
                            if isinstance(t, ast.Attribute) and t.attr == "_points":
                                writers.append(fn.name)
        check("C18.stored_closed_ccw.setter_is_the_only_writer_of_the_vertices", z3.BoolVal(set(writers) == {"points"}), note=str(writers))
        # (2) ... and on every non-raising path it stores close_curve(orient(geometry))
        for sc in (dict(), dict(interiors=True), dict(valid=False)):
            L, aff = load_polygon(sc, mutate)
            Polygon = L["Polygon"]
            tag = "ok" if not sc else list(sc.items())[0][0]
            try:
                p = Polygon("p", points="RAW_POINTS")
                check(f"C18.stored_closed_ccw.setter_normalises[{tag}]", z3.BoolVal(not sc and root_geom(p._points)))
            except ValueError:
                check(f"C18.stored_closed_ccw.invalid_input_rejected[{tag}]", z3.BoolVal(bool(sc)))
        L, aff = load_polygon(dict(), mutate)
        Polygon = L["Polygon"]
        R = z3.Real
        # (3) transforms: no aliasing / in-place semantics, for symbolic parameters (branches on the parameters fork)
        for op in ("translate", "rotate", "scale"):
            for inplace in (False, True):
                p = Polygon("orig", points="RAW", mesh=False)
                before = p._points
                kw = dict(translate=dict(dx=SR(R("dx")), dy=SR(R("dy"))), rotate=dict(degrees=SR(R("deg"))), scale=dict(xfact=SR(R("fx")), yfact=SR(R("fy"))))[op]
                del aff[:]
                q = getattr(p, op)(inplace=inplace, **kw)
                tag = f"{op},inplace={inplace}"
                check(f"C18.stored_closed_ccw.after_transform[{tag}]", z3.BoolVal(root_geom(q._points)))
                check(f"C18.transform.applies_the_library_map_to_the_receivers_geometry[{tag}]",
                      z3.BoolVal(len(aff) == 1 and aff[0][0] == op and has(aff[0][1], before) and origin(q._points) is not None and origin(q._points).how == op))
                if op == "translate":
                    check(f"C18.transform.parameters_passed_through[{tag}]", z3.BoolVal(aff and aff[0][2] is kw["dx"] and aff[0][3] is kw["dy"]))
                if op == "scale":
                    check(f"C18.transform.parameters_passed_through[{tag}]", z3.BoolVal(aff and aff[0][2] is kw["xfact"] and aff[0][3] is kw["yfact"]))
                if inplace:
                    check(f"C18.no_alias.inplace_returns_the_receiver[{tag}]", z3.BoolVal(q is p))
                else:
                    check(f"C18.no_alias.result_is_a_new_object[{tag}]", z3.BoolVal(q is not p and q._points is not before))
                    check(f"C18.no_alias.receiver_unchanged[{tag}]", z3.BoolVal(p._points is before and p.name == "orig" and p.mesh is False))
                    check(f"C18.no_alias.name_and_mesh_flag_copied[{tag}]", z3.BoolVal(q.name == "orig" and q.mesh is False))
        # a set operation whose true result is not one polygon (several pieces, or nothing) is refused, never answered with a part of it
        for kind in ("pieces", "empty"):
            for sym_, meth in (("+", "__add__"), ("-", "__sub__"), ("*", "__mul__"), ("union", "union"), ("difference", "difference"), ("intersection", "intersection")):
                a_, b_ = Polygon("a", points="A"), Polygon("b", points="B")
                GPolygon.RESULT_KIND = kind
                try:
                    r_ = getattr(a_, meth)(b_)
                    refused = False
                except ValueError:
                    refused = True
                finally:
                    GPolygon.RESULT_KIND = "single"
                sym.check_terms(f"C18.set_operation.result_that_is_not_one_polygon_is_refused[{kind}; {sym_}]", refused,
                                note="" if refused else f"returned {type(r_).__name__} built from {getattr(origin(getattr(r_, '_points', None)), 'how', None)}")
        # derived views answer for the CURRENT outline: a membership query after an in-place change consults a path built from the
        # vertices stored now, also when the same polygon was queried before the change
        for op in ("translate", "rotate", "scale", "points="):
            p = Polygon("orig", points="RAW", mesh=False)
            m0 = p.contains_points("QUERY")
            sym.check_terms(f"C18.membership.consults_the_stored_outline[before {op}]", bool(hasattr(m0, "path") and m0.path.vertices is p._points and m0.pts == "QUERY"))
            old = p._points
            if op == "points=":
                p.points = "NEW"
            else:
                kw = dict(translate=dict(dx=SR(R("dx")), dy=SR(R("dy"))), rotate=dict(degrees=SR(R("deg"))), scale=dict(xfact=SR(R("fx")), yfact=SR(R("fy"))))[op]
                getattr(p, op)(inplace=True, **kw)
            m1 = p.contains_points("QUERY")
            sym.check_terms(f"C18.membership.consults_the_current_outline[after in-place {op}]",
                            bool(p._points is not old and hasattr(m1, "path") and m1.path.vertices is p._points and m1.path.closed is True))
            m2 = p.contains_points("QUERY", index=True)
            sym.check_terms(f"C18.membership.index_form_consults_the_current_outline[after in-place {op}]",
                            bool(hasattr(m2, "path") and m2.path.vertices is p._points))
            g_now = p.polygon
            sym.check_terms(f"C18.derived_shape_is_built_from_the_current_outline[after in-place {op}]", bool(isinstance(g_now, GPolygon) and has(g_now, p._points)))
        # copy and the zero-operand set operations
        p = Polygon("orig", points="RAW", mesh=False)
        for how, q in (("copy", p.copy()), ("union()", p.union()), ("intersection()", p.intersection()), ("difference()", p.difference())):
            check(f"C18.no_alias.{how}", z3.BoolVal(q is not p and q._points is not p._points and q.name == "orig" and q.mesh is False))
        # (4) operators dispatch to the right set operation; n-ary forms fold left and keep name / mesh flag
        a, b, c_ = Polygon("a", points="A", mesh=False), Polygon("b", points="B"), Polygon("c", points="C")
        for sym_, meth, opn in (("+", "__add__", "union"), ("-", "__sub__", "difference"), ("*", "__mul__", "intersection")):
            r = getattr(a, meth)(b)
            g = origin(r._points)
            check(f"C18.operator_dispatch[{sym_}]", z3.BoolVal(isinstance(g, GPolygon) and g.how == opn and has(g.src[0], a._points) and has(g.src[1], b._points)
                                                               and not has(g.src[0], b._points)))
            check(f"C18.operator_dispatch.keeps_name_and_mesh[{sym_}]", z3.BoolVal(r.name == "a" and r.mesh is False and root_geom(r._points)))
            r2 = getattr(a, opn)(b, c_)
            g2 = origin(r2._points)
            inner = origin(g2.src[0]) if isinstance(g2, GPolygon) and isinstance(g2.src, tuple) else None
            check(f"C18.operator_dispatch.nary_folds_left[{opn}]", z3.BoolVal(isinstance(g2, GPolygon) and g2.how == opn and has(g2.src[1], c_._points) and isinstance(inner, GPolygon)
                                                                            and inner.how == opn and has(inner.src[0], a._points) and has(inner.src[1], b._points)))
        # (5) the class-level constructors Polygon.from_union / from_intersection / from_difference: the result is the left fold of THAT set
        # operation over the items in the order given, starting from the first item; it carries the requested name and mesh flag; no item is
        # written or shared; a one-item sequence gives a new polygon with the item's (normalised) outline
        for cname, opn in (("from_union", "union"), ("from_intersection", "intersection"), ("from_difference", "difference")):
            items = [Polygon("a", points="A", mesh=True), Polygon("b", points="B"), Polygon("c", points="C")]
            stored = [it._points for it in items]
            for n_items in (1, 2, 3):
                r = getattr(Polygon, cname)(list(items[:n_items]), name="made", mesh=False)
                node, ok = r._points, True
                for j in range(n_items - 1, 0, -1):        # peel the fold from the outside
                    g = origin(node)
                    ok = ok and isinstance(g, GPolygon) and g.how == opn and isinstance(g.src, tuple) and has(g.src[1], stored[j]) and not any(has(g.src[1], stored[i]) for i in range(n_items) if i != j)
                    node = g.src[0] if ok else None
                if ok:
                    g0 = origin(node)
                    ok = has(node, stored[0]) and not (isinstance(g0, GPolygon) and g0.how in OPS_) and not any(has(node, stored[i]) for i in range(1, n_items))
                sym.check_terms(f"C18.class_constructors.left_fold_of_the_named_operation_over_the_items_in_order[{cname}; {n_items} items]", bool(ok))
                sym.check_terms(f"C18.class_constructors.result_has_the_requested_name_and_mesh_flag[{cname}; {n_items} items]", bool(r.name == "made" and r.mesh is False and root_geom(r._points)))
                sym.check_terms(f"C18.class_constructors.items_not_written_or_shared[{cname}; {n_items} items]",
                                bool(all(it._points is st for it, st in zip(items, stored)) and [it.name for it in items] == ["a", "b", "c"] and all(it.mesh is True for it in items)
                                     and all(r is not it and r._points is not it._points for it in items)))
    obls, n = explore(body)
    return dict(obls=obls, paths=n, sources=[load_polygon(dict(), mutate)[0].info()], consistent=True)


def run_device_membership(mutate=None):
    mut = [(o, n) for (m, o, n) in (mutate or []) if m == D_]

    class LogicalOr:
        @staticmethod
        def reduce(xs):
            xs = list(xs)
            if not xs:
                return SB(False)
            r = xs[0]
            for x in xs[1:]:
                r = r | x
            return r

    class NPD(NP):
        logical_or = LogicalOr
    L = instrument.load(D_, rebind={"np": NPD}, mutate=mut, vc=vcm.VC())

    def body():
        Device = L["Device"]
        n = SI(z3.Int("n_points"))
        k = SI(sym.FreshInt("k"))
        assume(k >= 0, k < n)
        pts = SymArray.input("points", (n, 2))
        for nh in (0, 1, 2, 3):
            calls = []

            def mk(name):
                arrb = SymArray.input("inside_" + name, (n,), "b")

                class PolyStub:
                    def contains_points(self_, p, radius=0, index=False):
                        calls.append((name, p, radius))
                        return arrb
                ps = PolyStub()
                ps.arr = arrb
                return ps
            d = Device.__new__(Device)
            d.film = mk("film")
            d.holes = [mk(f"hole{i}") for i in range(nh)]
            r = d.contains_points(pts)
            want = d.film.arr.at(k).e
            for h in d.holes:
                want = z3.And(want, z3.Not(h.arr.at(k).e))
            got = r.at(k).e if isinstance(r, SymArray) else None
            check(f"C18.device_membership.film_and_outside_every_hole[{nh} holes]", got == want if got is not None else z3.BoolVal(False))
            check(f"C18.device_membership.every_polygon_asked_about_the_same_points[{nh} holes]", z3.BoolVal(len(calls) == nh + 1 and all(c[1] is pts for c in calls)))
    obls, n = explore(body)
    return dict(obls=obls, paths=n, sources=[L.info()], consistent=sym.consistent())


def run_device_transforms(mutate=None, prefixes=None):
    """Device.rotate / Device.scale / Device.translate(inplace=False) / Device.copy, stated over the RESULT (how it is assembled - copy then in-place
    maps, or a new Device from mapped polygons - is free): every polygon of the result descends from the corresponding polygon of the receiver and
    was mapped exactly once, with the given parameters; the receiver's polygons are not mapped; nothing is shared; voltage probe points go through
    the same map; name, layer and LENGTH UNITS are those of the receiver (the unit system is part of the device, C08).  Polygons are recording
    stand-ins; probe points are mapped by the real shapely.affinity and compared with the closed-form map."""
    import math
    import numpy as np
    mut = [(o, n) for (m, o, n) in (mutate or []) if m == D_]
    L = instrument.load(D_, mutate=mut, vc=vcm.VC())
    Device = L["Device"]

    class Poly:
        mesh = True
        is_valid = True

        def __init__(self, name, root=None, hist=()):
            self.name, self.root, self.hist = name, root or self, list(hist)
            self.points = np.array([[0.0, 0.0], [1.0, 0.0], [0.0, 1.0], [0.0, 0.0]])

        def copy(self):
            return Poly(self.name, self.root, self.hist)

        def _map(self, what, inplace):
            tgt = self if inplace else self.copy()
            tgt.hist.append(what)
            return tgt

        def rotate(self, degrees, origin=(0, 0), inplace=False):
            return self._map(("rotate", degrees, tuple(origin)), inplace)

        def scale(self, xfact=1, yfact=1, origin=(0, 0), inplace=False):
            return self._map(("scale", xfact, yfact, tuple(origin)), inplace)

        def translate(self, dx=0, dy=0, inplace=False):
            return self._map(("translate", dx, dy), inplace)

        def contains_points(self, pts, **kw):
            return np.full(len(np.atleast_2d(pts)), self.name == "film", dtype=bool)

    def body():
        import tdgl
        if prefixes:
            sym.ctx().record_prefixes = tuple(prefixes)
        origin = (1.5, -2.0)
        probes = np.array([[0.25, 0.5], [-1.0, 2.0]])
        for units_ in ("nm", "mm"):
            for op in ("rotate", "scale", "translate", "copy"):
                polys = dict(film=Poly("film"), h1=Poly("h1"), h2=Poly("h2"), src=Poly("src"), drn=Poly("drn"))
                layer = tdgl.Layer(coherence_length=0.7, london_lambda=3.0, thickness=0.2, gamma=5.0, z0=0.4)
                d = Device("dev", layer=layer, film=polys["film"], holes=[polys["h1"], polys["h2"]], terminals=[polys["src"], polys["drn"]], probe_points=probes.copy(), length_units=units_)
                if op == "rotate":
                    r, want = d.rotate(30.0, origin=origin), ("rotate", 30.0, origin)
                    th = math.radians(30.0)
                    wp = np.stack([origin[0] + math.cos(th) * (probes[:, 0] - origin[0]) - math.sin(th) * (probes[:, 1] - origin[1]),
                                   origin[1] + math.sin(th) * (probes[:, 0] - origin[0]) + math.cos(th) * (probes[:, 1] - origin[1])], axis=1)
                elif op == "scale":
                    r, want = d.scale(xfact=2.0, yfact=-0.5, origin=origin), ("scale", 2.0, -0.5, origin)
                    wp = np.stack([origin[0] + 2.0 * (probes[:, 0] - origin[0]), origin[1] - 0.5 * (probes[:, 1] - origin[1])], axis=1)
                elif op == "translate":
                    r, want = d.translate(dx=0.75, dy=-1.25), ("translate", 0.75, -1.25)
                    wp = probes + np.array([[0.75, -1.25]])
                else:
                    r, want = d.copy(), None
                    wp = probes
                tag = f"{op}; {units_}"
                isdev = isinstance(r, Device) and r is not d
                sym.check_terms(f"C18.device_transform.returns_a_new_device[{tag}]", bool(isdev))
                if not isdev:
                    continue
                got = dict(film=r.film, h1=r.holes[0] if len(r.holes) == 2 else None, h2=r.holes[1] if len(r.holes) == 2 else None,
                           src=r.terminals[0] if len(r.terminals) == 2 else None, drn=r.terminals[1] if len(r.terminals) == 2 else None)
                okp = all(isinstance(g, Poly) and g.root is polys[k] and g.hist == ([want] if want else []) for k, g in got.items())
                sym.check_terms(f"C18.device_transform.every_polygon_mapped_once_with_the_given_parameters[{tag}]", bool(okp), note=str({k: getattr(g, "hist", None) for k, g in got.items()})[:300])
                sym.check_terms(f"C18.device_transform.receiver_not_mapped_and_nothing_shared[{tag}]",
                                bool(all(p.hist == [] for p in polys.values()) and all(g is not polys[k] for k, g in got.items()) and d.film is polys["film"]
                                     and np.array_equal(d.probe_points, probes) and (r.probe_points is None or not np.shares_memory(r.probe_points, d.probe_points))))
                pp = r.probe_points
                sym.check_terms(f"C18.device_transform.probe_points_go_through_the_same_map_as_the_polygons[{tag}]",
                                bool(pp is not None and np.shape(pp) == wp.shape and np.allclose(np.asarray(pp, dtype=float), wp, rtol=1e-12, atol=1e-12)), note=str(pp)[:200])
                lay = r.layer
                same_layer = all(getattr(lay, q, None) == getattr(layer, q) for q in ("coherence_length", "london_lambda", "thickness", "gamma", "z0", "u", "conductivity"))
                sym.check_terms(f"C08.device_transform.name_layer_and_length_units_are_those_of_the_receiver[{tag}]",
                                bool(r.name == d.name and r.length_units == units_ and same_layer and lay is not layer), note=f"units {getattr(r, 'length_units', None)!r} name {r.name!r}")
    obls, n = explore(body)
    return dict(obls=obls, paths=n, sources=[L.info()], consistent=True)



def _bounded_quick():
    return native(0, 10)


def units():
    return [Unit("Polygon wrappers", P_ + ":Polygon.points setter / rotate / translate / scale / copy / union / intersection / difference / operators", run_polygon, props=["C18"], timeout=300),
            Unit("Device.contains_points", D_ + ":Device.contains_points", run_device_membership, props=["C18"], timeout=300),
            Unit("tdgl.geometry helpers", "tdgl.geometry:close_curve, ensure_unique, rotate / rotation_matrix",
                 lambda m=None: __import__("checks.geometry_common", fromlist=["x"]).run_geometry(m, prefixes=("C18.", "C07.")), props=["C18", "C07"], timeout=300),
            Unit("Device.rotate / scale", D_ + ":Device.rotate, Device.scale", run_device_transforms, props=["C18"], timeout=300),
            _h.bounded_unit("real shapely geometry [bounded]", "tdgl.device.polygon / device (real shapely)", "C18", _bounded_quick, "polygon_and_device_geometry_laws[10 shape pairs]", timeout=900)]


def native(seed=0, trials=60):
    """BOUNDED: real shapely.  stored vertices closed and CCW; area laws; set operations agree with point-wise membership away from
    boundaries; transforms map points consistently; copies do not alias; device membership."""
    import logging
    import numpy as np
    logging.disable(logging.CRITICAL)
    import tdgl
    from tdgl.geometry import box, circle, ellipse
    rng = np.random.default_rng(seed)
    bad = []
    n = 0

    def signed_area(p):
        x, y = p[:, 0], p[:, 1]
        return 0.5 * np.sum(x[:-1] * y[1:] - x[1:] * y[:-1])

    def shape():
        kind = rng.choice(["box", "circle", "ellipse", "L", "star", "C"])
        c = tuple(rng.uniform(-1, 1, 2))
        if kind in ("L", "star", "C"):
            # non-convex outlines: a set operation must not rely on convexity of either operand
            if kind == "L":
                w, h, t_ = rng.uniform(1.5, 3), rng.uniform(1.5, 3), rng.uniform(0.3, 0.8)
                pts = np.array([[0, 0], [w, 0], [w, t_], [t_, t_], [t_, h], [0, h]], dtype=float)
            elif kind == "C":
                w, h, t_ = rng.uniform(1.5, 3), rng.uniform(1.5, 3), rng.uniform(0.3, 0.6)
                pts = np.array([[0, 0], [w, 0], [w, t_], [t_, t_], [t_, h - t_], [w, h - t_], [w, h], [0, h]], dtype=float)
            else:
                m_ = int(rng.integers(4, 8))
                ang = np.linspace(0, 2 * np.pi, 2 * m_, endpoint=False)
                rad = np.where(np.arange(2 * m_) % 2 == 0, rng.uniform(1.2, 2.0), rng.uniform(0.3, 0.6))
                pts = np.stack([rad * np.cos(ang), rad * np.sin(ang)], axis=1)
            pts = pts - pts.mean(axis=0) + np.array(c)
            th_ = np.radians(rng.uniform(0, 360))
            pts = pts @ np.array([[np.cos(th_), np.sin(th_)], [-np.sin(th_), np.cos(th_)]])
        elif kind == "box":
            pts = box(float(rng.uniform(0.5, 3)), float(rng.uniform(0.5, 3)), points=int(rng.integers(8, 60)), center=c)
        elif kind == "circle":
            pts = circle(float(rng.uniform(0.4, 1.5)), points=int(rng.integers(8, 60)), center=c)
        else:
            pts = ellipse(float(rng.uniform(0.5, 2)), float(rng.uniform(0.3, 1)), points=int(rng.integers(8, 60)), center=c, angle=float(rng.uniform(0, 180)))
        if rng.random() < 0.5:
            pts = pts[::-1]
        return tdgl.Polygon("s", points=pts)
    for t in range(trials):
        a, b = shape(), shape()
        for p in (a, b):
            n += 1
            if not np.allclose(p.points[0], p.points[-1]) or signed_area(p.points) <= 0:
                bad.append(dict(what="stored vertices not closed / not counter-clockwise", trial=t))
        th, dx, dy, fx, fy = rng.uniform(-180, 180), *rng.uniform(-2, 2, 2), *(rng.uniform(0.3, 2, 2) * rng.choice([-1, 1], 2))
        for nm, q, fac in (("rotate", a.rotate(th), 1.0), ("translate", a.translate(dx, dy), 1.0), ("scale", a.scale(fx, fy), abs(fx * fy))):
            n += 1
            if abs(q.area - fac * a.area) > 1e-9 * (1 + a.area) or signed_area(q.points) <= 0 or not np.allclose(q.points[0], q.points[-1]):
                bad.append(dict(what=f"{nm}: area law / orientation / closure violated", trial=t, area=float(a.area), new_area=float(q.area), factor=float(fac)))
        pts = rng.uniform(-3, 3, size=(300, 2))
        ia, ib = a.contains_points(pts), b.contains_points(pts)
        for nm, op, want in (("union", lambda: a + b, ia | ib), ("intersection", lambda: a * b, ia & ib), ("difference", lambda: a - b, ia & ~ib)):
            try:
                r = op()
            except ValueError:
                continue      # empty / multi-part results are rejected by design
            n += 1
            got = r.contains_points(pts)
            # ignore points within 1e-6 of a boundary
            near = np.zeros(len(pts), dtype=bool)
            for poly in (a, b):
                near |= poly.contains_points(pts, radius=1e-6) != poly.contains_points(pts, radius=-1e-6)
            if np.any((got != want) & ~near):
                bad.append(dict(what=f"{nm} disagrees with point-wise membership", trial=t, n_wrong=int(np.sum((got != want) & ~near))))
        # class-level constructors over a short chain: left fold of the named operation in the order given, requested name / mesh flag, items untouched
        c3 = shape()
        ic = c3.contains_points(pts)
        kept = [q_.points.copy() for q_ in (a, b, c3)]
        for nm, ctor, want in (("from_union", tdgl.Polygon.from_union, ia | ib | ic), ("from_intersection", tdgl.Polygon.from_intersection, ia & ib & ic),
                               ("from_difference", tdgl.Polygon.from_difference, ia & ~ib & ~ic)):
            try:
                r = ctor([a, b, c3], name="made", mesh=False)
            except ValueError:
                continue
            n += 1
            near = np.zeros(len(pts), dtype=bool)
            for poly in (a, b, c3):
                near |= poly.contains_points(pts, radius=1e-6) != poly.contains_points(pts, radius=-1e-6)
            if np.any((r.contains_points(pts) != want) & ~near):
                bad.append(dict(what=f"Polygon.{nm}([a, b, c]) disagrees with the left fold of point-wise membership", trial=t, n_wrong=int(np.sum((r.contains_points(pts) != want) & ~near))))
            if r.name != "made" or r.mesh is not False:
                bad.append(dict(what=f"Polygon.{nm}(..., name='made', mesh=False) returns name={r.name!r}, mesh={r.mesh!r}", trial=t))
            if any(not np.array_equal(q_.points, k_) or np.shares_memory(q_.points, r.points) for q_, k_ in zip((a, b, c3), kept)) or (a.name, a.mesh) != ("s", True):
                bad.append(dict(what=f"Polygon.{nm} wrote to / shares the vertices of one of its items", trial=t))
        if t < 3:
            # small, finely sampled shapes far from the origin (chip-style absolute coordinates): moving a shape keeps its area and its outline,
            # whatever the distance from the origin - tolerances relative to the coordinates must not eat vertices
            for shp, off in ((tdgl.Polygon("c", points=circle(0.2, points=100)), (900.0, 1100.0)), (tdgl.Polygon("e", points=ellipse(0.3, 0.15, points=120)), (-1200.0, 800.0)),
                             (tdgl.Polygon("b", points=box(0.4, 0.3, points=80)), (5e4, -2e4))):
                n += 2
                try:
                    far = shp.translate(dx=off[0], dy=off[1])
                    back = far.translate(dx=-off[0], dy=-off[1])
                    _ = far.area, back.area, far.rotate(30.0, origin=off).area
                except Exception as e_:  # noqa
                    bad.append(dict(what="translating / rotating a small finely sampled shape far from the origin raises", shape=shp.name, offset=off, error=f"{type(e_).__name__}: {str(e_)[:120]}"))
                    continue
                if abs(far.area - shp.area) > 1e-7 * shp.area or len(far.points) != len(shp.points):
                    bad.append(dict(what="translating a small finely sampled shape far from the origin changes its area / loses vertices", shape=shp.name, offset=off,
                                    area=float(shp.area), area_after=float(far.area), vertices=len(shp.points), vertices_after=len(far.points)))
                elif abs(back.area - shp.area) > 1e-7 * shp.area or len(back.points) != len(shp.points):
                    bad.append(dict(what="moving a shape far away and back does not restore it", shape=shp.name, offset=off, area=float(shp.area), area_after=float(back.area)))
                rot = far.rotate(30.0, origin=off)
                n += 1
                if abs(rot.area - shp.area) > 1e-7 * shp.area:
                    bad.append(dict(what="rotating a shape that sits far from the origin about its own centre changes its area", shape=shp.name, offset=off, area=float(shp.area), area_after=float(rot.area)))
            # a small shape whose corners all lie inside a non-convex shape while one of its edges crosses a notch of it
            ell_ = tdgl.Polygon("L", points=np.array([[0, 0], [3, 0], [3, 1], [1, 1], [1, 3], [0, 3]], dtype=float))
            tri = tdgl.Polygon("tri", points=np.array([[0.5, 2.5], [2.5, 0.5], [0.5, 0.5]], dtype=float) + rng.uniform(-0.05, 0.05, 2))
            gq = rng.uniform(-0.5, 3.5, size=(3000, 2))
            i1, i2 = ell_.contains_points(gq), tri.contains_points(gq)
            for nm, op, want in (("union", lambda: ell_ + tri, i1 | i2), ("intersection", lambda: ell_ * tri, i1 & i2), ("difference", lambda: ell_ - tri, i1 & ~i2),
                                 ("union (swapped)", lambda: tri + ell_, i1 | i2), ("intersection (swapped)", lambda: tri * ell_, i1 & i2)):
                n += 1
                try:
                    r = op()
                except ValueError:
                    continue
                near = np.zeros(len(gq), dtype=bool)
                for poly in (ell_, tri):
                    near |= poly.contains_points(gq, radius=1e-6) != poly.contains_points(gq, radius=-1e-6)
                if np.any((r.contains_points(gq) != want) & ~near):
                    bad.append(dict(what=f"{nm} of a non-convex shape and a shape whose corners lie inside it disagrees with point-wise membership",
                                    n_points_wrong=int(np.sum((r.contains_points(gq) != want) & ~near)), area_returned=float(r.area)))
            # operations whose true result has several pieces: refused (ValueError) or, if answered, point-wise right
            bar = tdgl.Polygon("bar", points=box(4, 1))
            slit = tdgl.Polygon("slit", points=box(0.5, 2))
            far = tdgl.Polygon("far", points=box(1, 1, center=(5, 0)))
            gpts = rng.uniform(-3, 6, size=(2000, 2))
            for nm, op, want in (("difference in two pieces", lambda: bar - slit, bar.contains_points(gpts) & ~slit.contains_points(gpts)),
                                 ("union of disjoint shapes", lambda: bar + far, bar.contains_points(gpts) | far.contains_points(gpts))):
                n += 1
                try:
                    r = op()
                except ValueError:
                    continue
                near = np.zeros(len(gpts), dtype=bool)
                for poly in (bar, slit, far):
                    near |= poly.contains_points(gpts, radius=1e-6) != poly.contains_points(gpts, radius=-1e-6)
                if np.any((r.contains_points(gpts) != want) & ~near):
                    bad.append(dict(what=f"{nm}: the returned polygon disagrees with point-wise membership (a piece of the result was dropped)",
                                    n_points_wrong=int(np.sum((r.contains_points(gpts) != want) & ~near)), area_returned=float(r.area)))
        # a polygon that was queried BEFORE it is transformed in place must answer for its new outline afterwards
        for nm, do in (("translate", lambda q: q.translate(dx, dy, inplace=True)), ("rotate", lambda q: q.rotate(th, inplace=True)), ("scale", lambda q: q.scale(fx, fy, inplace=True))):
            q = a.copy()
            _ = q.contains_points(pts)
            do(q)
            fresh = tdgl.Polygon("fresh", points=q.points.copy())
            n += 1
            if np.any(q.contains_points(pts) != fresh.contains_points(pts)):
                bad.append(dict(what=f"membership after in-place {nm} answers for the outline before the change (query, transform in place, query again)", trial=t,
                                n_points_wrong=int(np.sum(q.contains_points(pts) != fresh.contains_points(pts)))))
        for nm_, q_ in (("copy()", a.copy()), ("union()", a.union()), ("resample(False)", a.resample(False))):
            n += 1
            if np.shares_memory(q_.points, a.points):
                bad.append(dict(what=f"{nm_} shares its vertex array with the original (editing one outline moves the other)", trial=t))
        c = a.copy()
        c.translate(dx=1.0, inplace=True)
        z = a.translate(dx=0.0, dy=0.0)
        z.set_name("renamed")
        n += 2
        if np.allclose(c.points, a.points) or a.name != "s" or z is a:
            bad.append(dict(what="copy / zero translate aliases the original", trial=t))
    layer = tdgl.Layer(coherence_length=1, london_lambda=1, thickness=0.1)
    # a device with probe points, moved out of place: the result must contain its own (moved) probe points
    for t in range(3):
        film = tdgl.Polygon("film", points=box(4, 3))
        hole = tdgl.Polygon("h", points=circle(0.4, center=(0.8, 0.3)))
        dev = tdgl.Device("d", layer=layer, film=film, holes=[hole], probe_points=[(-1.0, 0.5), (-0.5, -0.8)])
        sh = rng.uniform(5, 9, 2)
        moved = dev.translate(dx=float(sh[0]), dy=float(sh[1]))
        n += 1
        pp = np.asarray(dev.probe_points) + sh
        if not np.all(moved.contains_points(pp)) or np.any(moved.contains_points(np.asarray(dev.probe_points))):
            bad.append(dict(what="a translated device does not contain its own translated probe points / still claims the old ones", shift=sh.tolist()))
        # rotation / scaling: the probe points must move with the film (positive angles are counter-clockwise, as for the polygons)
        import warnings
        with warnings.catch_warnings():
            warnings.simplefilter("ignore")
            ang, org = float(rng.uniform(20, 160)), (float(rng.uniform(-2, 2)), float(rng.uniform(-2, 2)))
            rot = dev.rotate(ang, origin=org)
            c_, s_ = np.cos(np.radians(ang)), np.sin(np.radians(ang))
            want_pp = (np.asarray(dev.probe_points) - org) @ np.array([[c_, s_], [-s_, c_]]) + org
            film_want = (dev.film.points - org) @ np.array([[c_, s_], [-s_, c_]]) + org
            n += 1
            if not np.allclose(rot.film.points, film_want, atol=1e-9) and not np.allclose(np.sort(rot.film.points, axis=0), np.sort(film_want, axis=0), atol=1e-9):
                pass        # the polygon map itself is shapely's; only consistency with it is checked below
            if not np.allclose(rot.probe_points, want_pp, atol=1e-9) or not np.all(rot.contains_points(rot.probe_points)):
                bad.append(dict(what="probe points of a rotated device are not the rotated probe points (they do not move with the film)", degrees=ang, origin=org,
                                got=np.asarray(rot.probe_points).tolist(), want=want_pp.tolist()))
            fx_, fy_ = float(rng.uniform(0.5, 2)), -float(rng.uniform(0.5, 2))
            sc = dev.scale(xfact=fx_, yfact=fy_, origin=org)
            want_sc = (np.asarray(dev.probe_points) - org) * np.array([fx_, fy_]) + org
            n += 1
            if not np.allclose(sc.probe_points, want_sc, atol=1e-9) or not np.all(sc.contains_points(sc.probe_points)):
                bad.append(dict(what="probe points of a scaled device are not the scaled probe points", factors=(fx_, fy_), origin=org))
    # a transformed / copied device is the same device elsewhere: name, layer and LENGTH UNITS are kept (the unit system is part of the device)
    import warnings
    for lu in ("nm", "mm"):
        d0 = tdgl.Device("unit-device", layer=tdgl.Layer(coherence_length=0.7, london_lambda=3.0, thickness=0.2, z0=0.1), film=tdgl.Polygon("film", points=box(4, 3)),
                         holes=[tdgl.Polygon("h", points=circle(0.4))], probe_points=[(1.0, 0.5), (-1.0, 0.5)], length_units=lu)
        with warnings.catch_warnings():
            warnings.simplefilter("ignore")
            for nm, q in (("rotate", d0.rotate(40.0)), ("scale", d0.scale(xfact=1.5, yfact=-1.0)), ("translate", d0.translate(dx=0.5, dy=-0.25)), ("copy", d0.copy())):
                n += 1
                if q.length_units != lu or q.name != d0.name or q.layer != d0.layer or str(q.coherence_length.units) != str(d0.coherence_length.units):
                    bad.append(dict(what=f"Device.{nm}() returns a device with other length units / name / layer than the device it was applied to",
                                    length_units=lu, got_units=q.length_units, got_name=q.name))
    for t in range(10):
        film = tdgl.Polygon("film", points=box(6, 6))
        holes = [tdgl.Polygon(f"h{i}", points=circle(0.5, center=(-1.8 + 1.8 * i, 0.3 * i))) for i in range(int(rng.integers(0, 4)))]
        dev = tdgl.Device("d", layer=layer, film=film, holes=holes)
        pts = rng.uniform(-3.5, 3.5, size=(500, 2))
        want = film.contains_points(pts)
        for h in holes:
            want &= ~h.contains_points(pts)
        n += 1
        if np.any(dev.contains_points(pts) != want):
            bad.append(dict(what="Device.contains_points != film and not any hole", holes=len(holes)))
    logging.disable(logging.NOTSET)
    return bad, n


def replay_scope(unit, obl):
    """the native replay of this property searches per unit, not per obligation: run it once per unit"""
    return "unit"


def replay(unit, obl):
    import tdgl
    if unit == "tdgl.geometry helpers":
        from checks import geometry_common
        bad, n = geometry_common.native(0)
        if bad:
            return dict(confirmed=True, failing_input=bad[0], n_failing=len(bad), evaluations=n, tdgl_file=tdgl.__file__)
    bad, n = native(0, 30)
    if bad:
        return dict(confirmed=True, failing_input=bad[0], n_failing=len(bad), evaluations=n, tdgl_file=tdgl.__file__)
    return dict(confirmed=False, evaluations=n, tdgl_file=tdgl.__file__)


MUTANTS = [
    dict(name="contains_points only subtracts the last hole", edits=[(D_, "        mask = self.film.contains_points(points, radius=radius) & ~np.logical_or.reduce(\n            [hole.contains_points(points, radius=-radius) for hole in self.holes]\n        )",
                                                                         "        in_film = self.film.contains_points(points, radius=radius)\n        mask = in_film\n        for hole in self.holes:\n            mask = in_film & ~hole.contains_points(points, radius=-radius)")]),
    dict(name="translate returns self for zero displacement", edits=[(P_, "        polygon = self if inplace else self.copy()\n        polygon.points = affinity.translate(self.polygon, xoff=dx, yoff=dy)", "        if not (dx or dy):\n            return self\n        polygon = self if inplace else self.copy()\n        polygon.points = affinity.translate(self.polygon, xoff=dx, yoff=dy)")]),
    dict(name="__sub__ dispatches to intersection", edits=[(P_, "    def __sub__(self, other: PolygonType) -> \"Polygon\":\n        return self.difference(other)", "    def __sub__(self, other: PolygonType) -> \"Polygon\":\n        return self.intersection(other)")]),
    dict(name="scale writes _points directly", edits=[(P_, "        polygon.points = affinity.scale(\n            self.polygon, xfact=xfact, yfact=yfact, origin=origin\n        )", "        polygon._points = np.array(affinity.scale(\n            self.polygon, xfact=xfact, yfact=yfact, origin=origin\n        ).exterior.coords)")]),
    dict(name="rotate(inplace=False) mutates the receiver", edits=[(P_, "        polygon = self if inplace else self.copy()\n        polygon.points = affinity.rotate(", "        polygon = self\n        polygon.points = affinity.rotate(")]),
    dict(name="from_difference folds with union", edits=[(P_, "        polygon = cls(name=name, points=first, mesh=mesh)\n        return polygon.difference(*rest)", "        polygon = cls(name=name, points=first, mesh=mesh)\n        return polygon.union(*rest)")]),
    dict(name="from_intersection starts from the last item", edits=[(P_, "        first, *rest = items\n        polygon = cls(name=name, points=first, mesh=mesh)\n        return polygon.intersection(*rest)", "        *rest, first = items\n        polygon = cls(name=name, points=first, mesh=mesh)\n        return polygon.intersection(*rest)")]),
    dict(name="from_union forgets the mesh flag", edits=[(P_, "        polygon = cls(name=name, points=first, mesh=mesh)\n        return polygon.union(*rest)", "        polygon = cls(name=name, points=first)\n        return polygon.union(*rest)")]),
] + __import__("checks.geometry_common", fromlist=["x"]).MUTANTS


def thorough(seed=0):
    from pyvc import harness
    summary, broken = harness.run_mutants("checks.c18", units(), MUTANTS)
    bad, n = native(seed)
    bnd = dict(kind="bounded", evaluations=n, failing=len(bad), samples=bad[:3], bound="60 random shape pairs x transforms x 300 probe points; 10 devices with 0-3 holes (real shapely)")
    if bad:
        broken.append(f"native geometry run fails: {bad[0]}")
    return dict(coverage=dict(mutants=summary, bounded=bnd, mutants_killed=sum(1 for m in summary if m["verdict"] in ("killed", "not-proved") and m["expect"] == "killed"),
                              mutants_total=sum(1 for m in summary if m["expect"] == "killed")), broken=broken)
