"""C13 -- screening returns a self-consistent induced vector potential or fails."""
import z3

from pyvc import sym
from pyvc.arr import SymArray, check_same
from pyvc.harness import Unit
from pyvc import harness as _h
from pyvc.sym import SB, SC, SI, SR, check, assume
from checks import kernels_common as kc, update_common as uc

PROPERTY = "C13"
LEVEL = "proof"
TRUSTED = ["numba compiles the kernel with the semantics of its Python source (A6)", "numpy model",
           "callees of update() replaced by their contracts (get_induced_vector_potential returns the new iterate and the relative error)"]
ASSUMPTIONS = ["no edge centre coincides with a site (division safety of the kernel; geometric precondition from valid_mesh)",
               "'reproduces the sum to within a modest multiple of the tolerance' is a numerical-analysis bound and is not decided (bounded, thorough tier)",
               "a seed solution with non-zero A_induced run with screening off keeps that potential (returned unchanged): 'identically zero' holds from the zero initial condition"]
EXPLANATION = "kernel = direct double sum (generated loop invariants on the real kernel source), screening loop exit rule on the real update()"
M = "tdgl.solver.screening"


def kernel_args():
    n, m = SI(z3.Int("n_sites")), SI(z3.Int("m_edges"))
    assume(n >= 0, m >= 0)
    J = SymArray.input("J_site", (n, 2))
    a = SymArray.input("site_areas", (n,))
    s = SymArray.input("sites", (n, 2))
    cc = SymArray.input("edge_centers", (m, 2))
    A = SymArray.input("A_out_initial", (m, 2))
    # precondition: edge centres are not sites
    i, j = z3.Ints("pi pj")
    d2 = lambda i_, j_: (cc.at(SI(i_), SI(0)) - s.at(SI(j_), SI(0))) ** 2 + (cc.at(SI(i_), SI(1)) - s.at(SI(j_), SI(1))) ** 2
    sym.ctx().pc.append(z3.ForAll([i, j], SR.lift(d2(i, j)).e > 0))
    return (J, a, s, cc, A)


def kernel_post(args, res, specs):
    J, a, s, cc, A = args
    c = sym.ctx()
    m, n = cc.shape[0], J.shape[0]
    from pyvc import autoloops
    # the innermost loop is a reduction into ONE accumulator, whatever the local is called
    accs = [v for (lab, _k), v in autoloops.SUMMARY.get("sums", {}).items() if lab == "get_A_induced_numba.L3"]
    if len(accs) != 1:
        raise sym.Undecided(f"reduction summary of the innermost loop not found ({len(accs)} accumulators)")
    info = accs[0]
    i, k, j = SI(sym.FreshInt("i")), SI(sym.FreshInt("k")), SI(sym.FreshInt("j"))
    assume(i >= 0, i < m, k >= 0, k < 2, j >= 0, j < n)
    # the summand the code accumulates at (i, k, j) is the documented one: J[j,k] * a[j] / |c_i - r_j|
    got = kc.summand_at(info, **{"get_A_induced_numba.L1_i": i.e, "get_A_induced_numba.L2_i": k.e, "get_A_induced_numba.L3_j": j.e})
    dx = cc.at(i, SI(0)) - s.at(j, SI(0))
    dy = cc.at(i, SI(1)) - s.at(j, SI(1))
    want = J.at(j, k) * a.at(j) / sym.real_sqrt(dx * dx + dy * dy, label="spec.sqrt")
    check("C13.kernel.summand_is_K_a_over_distance", got == want.e, extra=sym.uf_axioms([got, want.e]))
    check("C13.kernel.sum_starts_at_zero_over_all_sites", z3.And(info["lo"] == 0, sym.eq(info["entry"], 0), info["hi"].e == n.e))
    # every element of the output is that sum (hence the np.empty buffer is completely overwritten, C09)
    val = A.at(i, k)
    free_names = [x.decl().name() for x in info["free"]]
    sub = {"get_A_induced_numba.L1_i": i.e, "get_A_induced_numba.L2_i": k.e}
    total = info["gs"](info["hi"].e, *[sub.get(nm, x) for nm, x in zip(free_names, info["free"])])
    check("C13.kernel_is_double_sum", SR.lift(val).e == total)
    check("C13.kernel.shape_preserved", z3.And(sym.eq(A.shape[0], m), sym.eq(A.shape[1], 2)))


def run_kernel(mutate=None, prefix="C13"):
    return kc.run_kernel(M, "get_A_induced_numba", ["map", "map", "sum"], kernel_args, kernel_post, mutate, prefix=prefix)


def run_polyak(mutate=None):
    """the REAL get_induced_vector_potential with the kernel and the site average replaced by their contracts"""
    from pyvc import vc as vcm
    L = uc.load(mutate, vcm.VC())
    Solver = L["TDGLSolver"]

    def body():
        c = sym.ctx()
        R = z3.Real
        E, N = SI(z3.Int("E")), SI(z3.Int("N"))
        assume(E >= 1, N >= 1)
        s = Solver.__new__(Solver)
        s.xp = uc._NPU
        s.use_cupy = False
        o = uc.Opts()
        o.screening_step_size, o.screening_step_drag = SR(R("alpha")), SR(R("beta"))
        assume(o.screening_step_size > 0, o.screening_step_drag > 0, o.screening_step_drag <= 1)
        s.options = o
        s.areas, s.sites, s.edge_centers = SymArray.input("areas", (N,)), SymArray.input("sites", (N, 2)), SymArray.input("centers", (E, 2))
        s.num_edges = E
        s.new_A_induced = SymArray.input("buffer_uninitialised", (E, 2))
        K = SymArray.input("kernel_sum", (E, 2))
        J_site = SymArray.input("J_site", (N, 2))
        cur = SymArray.input("current_density", (E,))
        calls = []

        class MeshStub:
            def get_quantity_on_site(self_, q, use_cupy=False):
                calls.append(("site", q))
                return J_site
        s.device = type("D", (), {"mesh": MeshStub()})()

        def kernel_stub(J, areas, sites, centers, out):
            calls.append(("kernel", J, areas, sites, centers, out))
            out._fn, out._memo = K._fn, {}     # contract of the kernel (proved in unit get_A_induced_numba): out == double sum
        L.ns["get_A_induced_numba"] = kernel_stub
        first = bool(SB(z3.Bool("first_iteration")))
        A_prev = SymArray.input("A_prev", (E, 2))
        vals = [A_prev] if first else [SymArray.input("A_prev2", (E, 2)), A_prev]
        v_prev = 0.0 if first else SymArray.input("v_prev", (E, 2))
        vel = [v_prev] if first else [SymArray.input("v_prev2", (E, 2)), v_prev]
        e = SI(sym.FreshInt("e"))
        cc = SI(sym.FreshInt("c"))
        assume(e >= 0, e < E, cc >= 0, cc < 2)
        c.ghost.setdefault("generic", []).append((e,))
        A_next, err = s.get_induced_vector_potential(cur, vals, vel)
        check("C13.polyak.kernel_called_with_site_currents_areas_positions",
              z3.BoolVal(len(calls) == 2 and calls[0][1] is cur and calls[1][1] is J_site and calls[1][2] is s.areas and calls[1][3] is s.sites
                         and calls[1][4] is s.edge_centers and calls[1][5] is s.new_A_induced))
        vp = (lambda i, k: SR(0)) if first else (lambda i, k: v_prev.at(i, k))
        v_new = (1 - o.screening_step_drag) * vp(e, cc) + o.screening_step_size * (K.at(e, cc) - A_prev.at(e, cc))
        check("C13.polyak.velocity", sym.eq(vel[-1].at(e, cc), v_new))
        check("C13.polyak.iterate", sym.eq(A_next.at(e, cc), A_prev.at(e, cc) + v_new))
        wr = [w for w in c.ghost.get("writes", []) if w[0] is A_prev or (not first and w[0] is vals[0])]
        check("C11.no_aliasing.polyak_does_not_mutate_previous_iterates", z3.BoolVal(not wr))
        # the iterate that is kept in the history and returned must own its data: the solver's kernel buffer is overwritten by the next call
        sym.check_terms("C13.polyak.kept_iterate_does_not_alias_the_kernel_scratch_buffer", A_next is not s.new_A_induced and vals[-1] is not s.new_A_induced
                        and vel[-1] is not s.new_A_induced)
        check_same("C13.polyak.history_appended_and_trimmed", [(vals[-1], A_next)], also=(len(vals) <= 2 and len(vel) <= 2 and len(vals) == 2))
        # relative error = max over edges of |K - A_prev| / max(|A_next|, 1e-20)
        num2 = (K.at(e, SI(0)) - A_prev.at(e, SI(0))) ** 2 + (K.at(e, SI(1)) - A_prev.at(e, SI(1))) ** 2
        den2 = A_next.at(e, SI(0)) ** 2 + A_next.at(e, SI(1)) ** 2
        sn = sym.real_sqrt(num2, label="spec.sqrt_num")
        sd = sym.real_sqrt(den2, label="spec.sqrt_den")
        floor = SR(1e-20)
        ratio = sn / sym.ite(sd.e >= floor.e, sd, floor)
        check("C13.polyak.error_bounds_every_edge", SR.lift(err).e >= ratio.e, extra=sym.congruence_axioms())
        mx = c.ghost.get("max", [])
        check("C13.polyak.error_is_attained_maximum", z3.BoolVal(len(mx) == 1 and SR.lift(err).e.eq(mx[0][0].e)))
    from pyvc.sym import explore
    obls, n = explore(body)
    return dict(obls=obls, paths=n, sources=[L.info()], consistent=sym.consistent())


def _upd(screening, dynamic):
    return lambda m=None: uc.run_update(m, screening, dynamic, prefixes=("C13.",))



def _bounded_quick():
    return native(0)


def units():
    U = "tdgl.solver.solver:TDGLSolver.update"
    return [Unit("get_A_induced_numba", M + ":get_A_induced_numba", run_kernel, props=["C13", "C09"], timeout=600),
            Unit("get_induced_vector_potential", "tdgl.solver.solver:TDGLSolver.get_induced_vector_potential", run_polyak, props=["C13"], timeout=600),
            Unit("update[screening, static A]", U, _upd(True, False), props=["C13"], timeout=900),
            Unit("update[screening, dynamic A]", U, _upd(True, True), props=["C13"], timeout=900),
            Unit("update[no screening, static A]", U, _upd(False, False), props=["C13"], timeout=900),
            Unit("Mesh.get_quantity_on_site", "tdgl.finite_volume.mesh:Mesh.get_quantity_on_site",
                 lambda m=None: __import__("checks.solution_common", fromlist=["x"]).run_site_average(m, prefixes=("C13.",)), props=["C13", "C20"], timeout=300),
            _h.bounded_unit("screening kernel, Polyak step and convergence on real runs [bounded]", "tdgl.solver.screening / TDGLSolver.get_induced_vector_potential (real)", "C13", _bounded_quick, "kernel_polyak_iteration_and_convergence_rule_on_the_real_solver", timeout=900)]


def native(seed=0):
    """BOUNDED native stand-in / replay harness: compiled kernel vs its Python source vs a numpy double sum; real screening
    runs with a tight iteration budget must raise, converged runs must satisfy the exit rule on the stored fields."""
    import logging
    import os
    import tempfile
    import numpy as np
    os.environ.setdefault("TQDM_DISABLE", "1")
    logging.disable(logging.CRITICAL)
    import tdgl
    import h5py
    from tdgl.geometry import box
    from tdgl.solver.screening import get_A_induced_numba
    rng = np.random.default_rng(seed)
    bad = []
    n = 0
    for t in range(5):
        ns, ne = int(rng.integers(3, 40)), int(rng.integers(1, 30))
        J, a, s, cc = rng.normal(size=(ns, 2)), rng.uniform(0.1, 1, ns), rng.normal(size=(ns, 2)), rng.normal(size=(ne, 2)) + 7
        out = np.full((ne, 2), np.nan)
        get_A_induced_numba(J, a, s, cc, out)
        ref = np.einsum("jk,j,ij->ik", J, a, 1 / np.linalg.norm(cc[:, None, :] - s[None, :, :], axis=2))
        n += 1
        if not np.allclose(out, ref, rtol=1e-10, atol=1e-12):
            bad.append(dict(what="compiled kernel differs from the direct double sum", trial=t, max_err=float(np.nanmax(np.abs(out - ref)))))
    layer = tdgl.Layer(coherence_length=0.5, london_lambda=0.5, thickness=0.1, gamma=1)
    dev = tdgl.Device("d", layer=layer, film=tdgl.Polygon("film", points=box(4, 2)), length_units="um")
    dev.make_mesh(max_edge_length=0.5, smooth=10)
    # one Polyak iteration of the REAL solver method: the error it reports must be the relative mismatch between the previous iterate and
    # the kernel sum (recomputed here with the kernel into a separate buffer), whatever the step size
    from tdgl.solver.solver import TDGLSolver
    for alpha, beta in ((0.1, 0.5), (0.5, 0.5), (0.02, 0.9), (1.0, 0.5)):
        o = tdgl.SolverOptions(solve_time=1, include_screening=True, screening_step_size=alpha, screening_step_drag=beta)
        sv = TDGLSolver(dev, o, applied_vector_potential=0.3)
        A0 = rng.normal(size=(sv.num_edges, 2)) * 1e-3
        v0 = rng.normal(size=(sv.num_edges, 2)) * 1e-4
        Jc = rng.normal(size=sv.num_edges)
        J_site = dev.mesh.get_quantity_on_site(Jc)
        K = np.full((sv.num_edges, 2), np.nan)
        get_A_induced_numba(J_site, sv.areas, sv.sites, sv.edge_centers, K)
        A_prev = A0.copy()
        A_vals, vel = [A0.copy(), A0], [v0.copy(), v0]
        A_next, err = sv.get_induced_vector_potential(Jc, A_vals, vel)
        n += 1
        kept = A_next.copy()
        A_next2, _ = sv.get_induced_vector_potential(0.5 * Jc, A_vals, vel)
        if not np.array_equal(A_next, kept):
            bad.append(dict(what="the iterate returned by one Polyak iteration is overwritten by the next call (it aliases the kernel buffer)", alpha=alpha, beta=beta,
                            max_abs_change=float(np.abs(A_next - kept).max())))
            continue
        want_v = (1 - beta) * v0 + alpha * (K - A_prev)
        want_A = A_prev + want_v
        want_err = float(np.max(np.linalg.norm(K - A_prev, axis=1) / np.maximum(np.linalg.norm(want_A, axis=1), 1e-20)))
        if not np.allclose(A_next, want_A, rtol=1e-10, atol=1e-14):
            bad.append(dict(what="Polyak iterate differs from A_prev + (1-beta) v + alpha (K - A_prev)", alpha=alpha, beta=beta, max_abs_dev=float(np.abs(A_next - want_A).max())))
        elif not abs(err - want_err) <= 1e-9 * max(1.0, want_err):
            bad.append(dict(what="reported screening error is not the relative mismatch between the previous iterate and the kernel sum", screening_step_size=alpha,
                            screening_step_drag=beta, reported=float(err), mismatch=want_err, ratio=float(err / want_err)))
    # stored potential vs the sum over the stored currents on a device that was moved in place after meshing (sites, areas and edge centres as
    # an independent reader would compute them from the mesh sites)
    try:
        dev_t = tdgl.Device("t", layer=layer, film=tdgl.Polygon("film", points=box(4, 2)), length_units="um")
        dev_t.make_mesh(max_edge_length=0.5, smooth=10)
        dev_t.translate(dx=3.0, dy=-2.0, inplace=True)
        with tempfile.TemporaryDirectory() as td:
            tol_t = 1e-4
            sol_t = tdgl.solve(dev_t, tdgl.SolverOptions(solve_time=0.4, output_file=os.path.join(td, "t.h5"), include_screening=True, screening_tolerance=tol_t, save_every=5),
                               applied_vector_potential=0.5)
            sv_t = TDGLSolver(dev_t, sol_t.options, applied_vector_potential=0.5)
            m_t = dev_t.mesh
            em_t = m_t.edge_mesh
            xi_t = dev_t.coherence_length.magnitude
            centres = 0.5 * (m_t.sites[em_t.edges[:, 0]] + m_t.sites[em_t.edges[:, 1]]) * xi_t
            d_t = sol_t.tdgl_data
            J_site = m_t.get_quantity_on_site(d_t.supercurrent + d_t.normal_current)
            K_t = np.full((len(em_t.edges), 2), np.nan)
            get_A_induced_numba(J_site, sv_t.areas, m_t.sites * xi_t, centres, K_t)
            n += 1
            scale_t = np.abs(K_t).max() + 1e-300
            mism = float(np.abs(K_t - d_t.induced_vector_potential).max() / scale_t)
            if mism > 50 * tol_t:
                bad.append(dict(what="stored induced potential of a device translated in place does not reproduce the sum over its stored currents", relative_mismatch=mism, tolerance=tol_t))
    except Exception as e:  # noqa
        bad.append(dict(what=f"translated-device screening case raised {type(e).__name__}: {str(e)[:120]}"))
    # parameter sweep on ONE mesh: the device is solved, its layer changed (in place, and through a copy sharing the Mesh object), and solved again;
    # each run's stored potential must reproduce the sum over ITS stored currents with ITS own Lambda (an independent numpy double sum in SI units)
    try:
        from scipy.constants import mu_0
        dev_s = tdgl.Device("s", layer=tdgl.Layer(coherence_length=0.5, london_lambda=0.5, thickness=0.1, gamma=1), film=tdgl.Polygon("film", points=box(3, 2)), length_units="um")
        dev_s.make_mesh(max_edge_length=0.5, smooth=5)
        tol_s = 1e-4
        with tempfile.TemporaryDirectory() as td:
            for leg, (how, lam_) in enumerate((("first", 0.5), ("layer changed in place", 0.25), ("copy of the device with another layer", 1.0))):
                d_run = dev_s
                if how == "layer changed in place":
                    dev_s.layer.london_lambda = lam_
                elif leg == 2:
                    d_run = dev_s.copy()
                    d_run.layer.london_lambda = lam_
                sol_s = tdgl.solve(d_run, tdgl.SolverOptions(solve_time=0.3, output_file=os.path.join(td, f"s{leg}.h5"), include_screening=True, screening_tolerance=tol_s, save_every=50,
                                                             field_units="mT", current_units="uA"), applied_vector_potential=0.6)
                n += 1
                um = 1e-6
                xi_ = d_run.coherence_length.magnitude
                m_ = d_run.mesh
                K_si = sol_s.current_density.to("A / m").magnitude
                cen = m_.edge_mesh.centers * xi_ * um
                pts = m_.sites * xi_ * um
                rr = np.linalg.norm(cen[:, None, :] - pts[None, :, :], axis=2)
                A_si = mu_0 / (4 * np.pi) * np.einsum("jk,j,ij->ik", K_si, m_.areas * xi_ ** 2 * um ** 2, 1 / rr)
                A0_si = (d_run.A0).to("T * m").magnitude if hasattr(d_run.A0, "to") else float(d_run.A0)
                got = sol_s.tdgl_data.induced_vector_potential * A0_si
                mism = float(np.abs(got - A_si).max() / (np.abs(A_si).max() + 1e-300))
                if mism > 50 * tol_s:
                    bad.append(dict(what="stored induced potential does not reproduce (mu0/4pi) sum K a / r of the stored currents", history=how, london_lambda=lam_,
                                    relative_mismatch=mism, tolerance=tol_s))
                    break
    except Exception as e:  # noqa
        bad.append(dict(what=f"parameter-sweep screening case raised {type(e).__name__}: {str(e)[:160]}"))
    # nothing to screen (no field, no current): the loop must converge at once, not fail
    with tempfile.TemporaryDirectory() as td:
        n += 1
        try:
            tdgl.solve(dev, tdgl.SolverOptions(solve_time=0.1, output_file=os.path.join(td, "z.h5"), include_screening=True, save_every=20))
        except Exception as e:  # noqa
            bad.append(dict(what="screening run with zero field and zero current fails", error=f"{type(e).__name__}: {str(e)[:140]}"))
    for budget, tol, expect_raise in ((3, 1e-6, True), (1000, 1e-2, False)):
        with tempfile.TemporaryDirectory() as td:
            opts = tdgl.SolverOptions(solve_time=0.5, output_file=os.path.join(td, "o.h5"), include_screening=True, max_iterations_per_step=budget,
                                      screening_tolerance=tol, save_every=20)
            n += 1
            try:
                sol = tdgl.solve(dev, opts, applied_vector_potential=0.5)
                raised = False
            except RuntimeError:
                raised = True
            if expect_raise and not raised and sol is None:
                bad.append(dict(what="screening did not converge within the budget: no error reached the caller, solve() returned None", budget=budget, tolerance=tol))
                continue
            if expect_raise and not raised:
                with h5py.File(sol.path, "r") as f:
                    its = np.concatenate([np.atleast_1d(np.array(f["data"][k]["running_state"]["screening_iterations"])) for k in f["data"] if "running_state" in f["data"][k]])
                bad.append(dict(what="screening did not converge within the budget but the step was accepted (no RuntimeError)", budget=budget, tolerance=tol,
                                recorded_iterations_max=float(its.max()) if len(its) else None))
            if not expect_raise and raised:
                bad.append(dict(what="unexpected non-convergence error", budget=budget, tolerance=tol))
    # every ACCEPTED step - in the thermalisation stage as well as in the recorded one - ends with a converged induced potential: the state the
    # recorded stage starts from (frame 0) is the last thermalisation step.  Each call of the real update() is checked through a recording subclass.
    try:
        tol_s = 1e-5

        class Rec(TDGLSolver):
            calls = []

            def update(self, state, running_state, dt, **kw):
                out = super().update(state, running_state, dt, **kw)
                A_ind, js, jn = np.asarray(out[5]), np.asarray(out[3]), np.asarray(out[4])
                J_site_ = self.device.mesh.get_quantity_on_site(js + jn)
                K_ = np.full((self.num_edges, 2), np.nan)
                get_A_induced_numba(J_site_, np.asarray(self.areas), np.asarray(self.sites), np.asarray(self.edge_centers), K_)
                err_ = float(np.max(np.linalg.norm(K_ - A_ind, axis=1) / np.maximum(np.linalg.norm(A_ind, axis=1), 1e-20)))
                Rec.calls.append((dict(state).get("step"), err_))
                return out
        with tempfile.TemporaryDirectory() as td:
            o_s = tdgl.SolverOptions(solve_time=0.15, skip_time=0.15, output_file=os.path.join(td, "th.h5"), include_screening=True, screening_tolerance=tol_s, save_every=20)
            Rec(dev, o_s, applied_vector_potential=0.6).solve()
        n += 1
        worst = max((e for _, e in Rec.calls), default=0.0)
        # the exit test compares consecutive iterates; the mismatch of the accepted iterate with the sum over its own currents is a modest multiple of it
        if not Rec.calls or worst > 50 * tol_s:
            bad.append(dict(what="a step was accepted (thermalisation or recorded stage) whose induced potential does not reproduce the sum over its currents to the requested tolerance",
                            tolerance=tol_s, worst_relative_mismatch=worst, steps=len(Rec.calls), skip_time=0.15))
    except Exception as e:  # noqa
        bad.append(dict(what="screened run with a thermalisation stage failed", error=repr(e)[:300]))
    logging.disable(logging.NOTSET)
    return bad, n


def replay_scope(unit, obl):
    """the native replay of this property searches per unit, not per obligation: run it once per unit"""
    return "unit"


def replay(unit, obl):
    import tdgl
    if unit == "Mesh.get_quantity_on_site":
        from checks import solution_common as sc
        bad, n = sc.native_site_average(0)
        if bad:
            return dict(confirmed=True, failing_input=bad[0], n_failing=len(bad), evaluations=n, tdgl_file=tdgl.__file__)
    bad, n = native(0)
    if bad:
        return dict(confirmed=True, failing_input=bad[0], n_failing=len(bad), evaluations=n, tdgl_file=tdgl.__file__)
    return dict(confirmed=False, evaluations=n, tdgl_file=tdgl.__file__)


S_ = "tdgl.solver.solver"
MUTANTS = [
    dict(name="site average: mean over the start sites only", edits=[("tdgl.finite_volume.mesh", "vertices = xp.concatenate([edges[:, 0], edges[:, 1]])", "vertices = xp.concatenate([edges[:, 0], edges[:, 0]])")], units=["Mesh.get_quantity_on_site"]),
    dict(name="site average: sum instead of mean", edits=[("tdgl.finite_volume.mesh", "x_group_values = xp.bincount(vertices, weights=x_values) / counts", "x_group_values = xp.bincount(vertices, weights=x_values)")], units=["Mesh.get_quantity_on_site"]),
    dict(name="kernel 1/r^2", edits=[(M, "tmp += J_site[j, k] * site_areas[j] / dr", "tmp += J_site[j, k] * site_areas[j] / (dr * dr)")]),
    dict(name="kernel area of the wrong index", edits=[(M, "tmp += J_site[j, k] * site_areas[j] / dr", "tmp += J_site[j, k] * site_areas[i] / dr")]),
    dict(name="kernel accumulator not reset per component", edits=[(M, "        for k in range(J_site.shape[1]):\n            tmp = 0.0\n", "        tmp = 0.0\n        for k in range(J_site.shape[1]):\n")]),
    dict(name="kernel writes transposed element", edits=[(M, "A_induced[i, k] = tmp", "A_induced[i, 1 - k] = tmp")]),
    dict(name="kernel skips the last site", edits=[(M, "for j in range(J_site.shape[0]):", "for j in range(J_site.shape[0] - 1):")]),
    dict(name="exit test uses <= ... inverted", edits=[(S_, "if screening_error < options.screening_tolerance:", "if screening_error > options.screening_tolerance:")]),
    dict(name="budget check never fires (bounded range loop)", edits=[(S_, "for screening_iteration in itertools.count():", "for screening_iteration in range(options.max_iterations_per_step + 1):")]),
    dict(name="polyak drag sign", edits=[(S_, "velocity.append((1 - beta) * velocity[-1] + alpha * dA)", "velocity.append((1 + beta) * velocity[-1] + alpha * dA)")]),
    dict(name="error relative to the old iterate", edits=[(S_, "denominator = xp.linalg.norm(A_induced, axis=1)", "denominator = xp.linalg.norm(A_induced_vals[0], axis=1)")]),
    dict(name="screening off still iterates", edits=[(S_, "            else:\n                break\n\n        running_state.append", "            else:\n                pass\n\n        running_state.append")]),
]


def thorough(seed=0):
    from pyvc import harness
    summary, broken = harness.run_mutants("checks.c13", units(), MUTANTS)
    bad, n = native(seed)
    bnd = dict(kind="bounded", evaluations=n, failing=len(bad), samples=bad[:3], bound="5 random kernel inputs vs numpy; 2 real screening runs (tight / loose budget)")
    if bad:
        broken.append(f"native screening run disagrees with the proved contract: {bad[0]}")
    return dict(coverage=dict(mutants=summary, bounded=bnd, mutants_killed=sum(1 for m in summary if m["verdict"] in ("killed", "not-proved") and m["expect"] == "killed"),
                              mutants_total=sum(1 for m in summary if m["expect"] == "killed")), broken=broken)
