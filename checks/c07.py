"""C07 -- mesh geometry is the Delaunay/Voronoi dual of the device domain.

The triangulation itself comes from Triangle (C, A7), cell areas from qhull: tiling, orientation, boundary-on-outline, Euler
characteristic and the area rule for boundary cells are NOT decided by contracts - they are covered by a bounded native run of
the real mesher over a family of geometries (also run, reduced, in the quick tier; labelled bounded).  Proved on the real
Python kernels for the generic triangle / edge: circumcentres (Voronoi vertices), signed triangle areas, edge vectors /
lengths / centres, perpendicular-bisector lemmas behind the dual-length rule, terminal length = sum over covered boundary edges."""
import math

import z3

from pyvc import sym, instrument, vc as vcm
from pyvc.arr import SymArray, check_same
from pyvc.harness import Unit
from pyvc.models.npmodel import NP, BUILTINS
from pyvc.sym import SB, SI, SR, check, assume, explore, FreshInt

PROPERTY = "C07"
LEVEL = "other"
TRUSTED = ["Triangle (meshpy), qhull (ConvexHull), shapely polygonize: unverified C/C++ (A7)",
           "geometry theorems (not code): for a locally Delaunay pair the clipped Voronoi face is the segment between the circumcentres; the clipped cell of an interior "
           "site is the convex hull of the incident circumcentres"]
ASSUMPTIONS = ["tiling, orientation, Euler characteristic, boundary sites on the outlines, cell areas = clipped Voronoi areas, dual lengths on real meshes and the terminal "
               "length tolerance are decided only on the bounded family of generated geometries (never counted as proved)",
               "get_edges / Mesh.find_boundary_indices / make_adj_directed_tri_indices / get_dual_edge_lengths are under contract (checks/mesh_common.py) relative to the "
               "assumed contracts of np.sort (two columns), np.unique, scipy.sparse csc_array / find; a consistently oriented triangulation (no directed side twice) and "
               "'every edge is a side of one or two triangles' are preconditions; compute_voronoi_polygon_areas (qhull, angle sort) and get_voronoi_polygon_indices are "
               "exercised only by the bounded run"]
EXPLANATION = ("generic-triangle / generic-edge obligations on the real Python kernels (circumcentre, areas, edge geometry, terminal length) + bounded native postconditions of "
               "the real mesher (the part of the property that depends on Triangle/qhull cannot be brought under contract)")
U_ = "tdgl.finite_volume.util"
E_ = "tdgl.finite_volume.edge_mesh"
D_ = "tdgl.device.device"


class NPG(NP):
    """numpy model extended with the small fixed-size reshaping operations of the geometry kernels"""

    @staticmethod
    def array(x, dtype=None):
        if isinstance(x, list) and x and all(isinstance(a, SymArray) and a.ndim == 1 for a in x):
            n = x[0].shape[0]
            arrs = list(x)
            return SymArray((SI(len(arrs)), n), lambda r, k: _pick(arrs, r, k))
        return NP.array(x, dtype=dtype)

    class linalg:
        @staticmethod
        def norm(a, axis=None):
            return NP.linalg.norm(a, axis=axis)

        @staticmethod
        def det(s):
            # s: (m, 2, 2)
            return SymArray(s.shape[:1], lambda k: s.at(k, SI(0), SI(0)) * s.at(k, SI(1), SI(1)) - s.at(k, SI(0), SI(1)) * s.at(k, SI(1), SI(0)))

    @staticmethod
    def diff(a, axis=1):
        if a.ndim == 3 and a.shape[1].concrete() == 2 and axis == 1:
            return SymArray((a.shape[0], SI(1), a.shape[2]), lambda k, r, c: a.at(k, SI(1), c) - a.at(k, SI(0), c))
        raise sym.Unsupported("diff")

    @staticmethod
    def where(c):
        idx = SymArray.fresh("where_index", (SI(sym.FreshInt("n_true")),), "i")
        idx.member = lambda v: c.at(SI.lift(v)).e
        return (idx,)


def _pick(arrs, r, k):
    v = arrs[-1].at(k)
    for i in range(len(arrs) - 2, -1, -1):
        v = sym.ite(r.e == i, arrs[i].at(k), v)
    return v


def _patch_symarray():
    """fixed-size helpers used by the geometry kernels (kept local to this check)"""
    def T(self):
        if self.ndim != 2:
            raise sym.Unsupported(".T")
        return SymArray((self.shape[1], self.shape[0]), lambda i, k: self.at(k, i))

    def sumax(self, axis=None):
        if axis == 1 and self.ndim == 2 and self.shape[1].concrete() is not None:
            m = self.shape[1].concrete()
            return SymArray(self.shape[:1], lambda k: sum((self.at(k, SI(c)) for c in range(1, m)), self.at(k, SI(0))))
        raise sym.Unsupported("sum")

    def mean(self, axis=None):
        if axis == 1 and self.ndim == 3 and self.shape[1].concrete() == 2:
            return SymArray((self.shape[0], self.shape[2]), lambda k, c: (self.at(k, SI(0), c) + self.at(k, SI(1), c)) / 2)
        raise sym.Unsupported("mean")
    SymArray.T = property(T)
    SymArray.sum = sumax
    SymArray.mean = mean
    orig = SymArray.__getitem__

    def getitem(self, key):
        if isinstance(key, tuple) and len(key) == 2 and self.ndim == 3 and isinstance(key[0], slice) and key[0] == slice(None) and isinstance(key[1], list):
            rows = list(key[1])
            return SymArray((self.shape[0], SI(len(rows)), self.shape[2]), lambda k, r, c: _pick3(self, rows, k, r, c))
        if isinstance(key, tuple) and len(key) == 2 and self.ndim == 2 and isinstance(key[0], slice) and key[0] == slice(None) and isinstance(key[1], tuple):
            cols = list(key[1])
            return SymArray((self.shape[0], SI(len(cols))), lambda k, c: _pick2(self, cols, k, c), kind=self.kind)
        return orig(self, key)
    SymArray.__getitem__ = getitem


def _pick3(a, rows, k, r, c):
    v = a.at(k, SI(rows[-1]), c)
    for i in range(len(rows) - 2, -1, -1):
        v = sym.ite(r.e == i, a.at(k, SI(rows[i]), c), v)
    return v


def _pick2(a, cols, k, c):
    v = a.at(k, SI(cols[-1]))
    for i in range(len(cols) - 2, -1, -1):
        v = sym.ite(c.e == i, a.at(k, SI(cols[i])), v)
    return v


def load(mod, mutate=None):
    _patch_symarray()
    mut = [(o, n) for (m, o, n) in (mutate or []) if m == mod]
    rb = {"np": NPG}
    rb.update(BUILTINS)
    return instrument.load(mod, rebind=rb, mutate=mut, vc=vcm.VC())


def run_kernels(mutate=None):
    L = load(U_, mutate)

    def body():
        c = sym.ctx()
        N, T = SI(z3.Int("N")), SI(z3.Int("T"))
        sites = SymArray.input("sites", (N, 2))
        el = SymArray.input("elements", (T, 3), "i")
        t = SI(FreshInt("t"))
        assume(t >= 0, t < T)
        A = [sites.at(el.at(t, SI(0)), SI(d)) for d in range(2)]
        B = [sites.at(el.at(t, SI(1)), SI(d)) for d in range(2)]
        C = [sites.at(el.at(t, SI(2)), SI(d)) for d in range(2)]
        for v in range(3):
            c.pc.append(z3.And(el.at(t, SI(v)).e >= 0, el.at(t, SI(v)).e < N.e))
        area2 = (B[0] - A[0]) * (C[1] - A[1]) - (B[1] - A[1]) * (C[0] - A[0])       # twice the signed area
        # non-degenerate triangle (precondition of the circumcentre): area != 0, stated on the kernel's own determinant D = 2 (B x C)
        Bv = [B[0] - A[0], B[1] - A[1]]
        Cv = [C[0] - A[0], C[1] - A[1]]
        Dk = 2 * Bv[0] * Cv[1] - 2 * Bv[1] * Cv[0]
        c.pc.append(Dk.e != 0)
        check("C07.circumcentre.determinant_is_four_times_signed_area", sym.eq(Dk, 2 * area2))
        dual = L["generate_voronoi_vertices"](sites, el)
        U = [dual.at(t, SI(0)), dual.at(t, SI(1))]
        d2 = lambda P: (U[0] - P[0]) ** 2 + (U[1] - P[1]) ** 2
        check("C07.circumcentre.equidistant_from_the_three_vertices", z3.And(sym.eq(d2(A), d2(B)), sym.eq(d2(A), d2(C))))
        for nm, P, Q in (("AB", A, B), ("BC", B, C), ("CA", C, A)):
            # the circumcentre lies on the perpendicular bisector of every edge (so the dual edge is perpendicular to the edge and the
            # distance to the midpoint is the clipped Voronoi face of a boundary edge)
            check(f"C07.circumcentre.on_perpendicular_bisector[{nm}]", sym.eq((U[0] - (P[0] + Q[0]) / 2) * (Q[0] - P[0]) + (U[1] - (P[1] + Q[1]) / 2) * (Q[1] - P[1]), 0))
        ta = L["triangle_areas"](sites, el)
        check("C07.triangle_area.is_signed_area", sym.eq(ta.at(t), area2 / 2))
        check("C07.triangle_area.positive_iff_counter_clockwise", (SR.lift(ta.at(t)).e > 0) == (area2.e > 0))
    obls, n = explore(body)
    return dict(obls=obls, paths=n, sources=[L.info()], consistent=sym.consistent())


def run_edge_geometry(mutate=None):
    L = load(E_, mutate)

    def body():
        N, T, E = SI(z3.Int("N")), SI(z3.Int("T")), SI(z3.Int("E"))
        assume(E >= 2)
        sites = SymArray.input("sites", (N, 2))
        el = SymArray.input("elements", (T, 3), "i")
        edges = SymArray.input("edges", (E, 2), "i")
        isb = SymArray.input("is_boundary", (E,), "b")
        dual = SymArray.input("dual_sites", (T, 2))
        dl = SymArray.input("dual_lengths", (E,))
        calls = {}
        def ge(elements):
            calls["get_edges"] = elements
            return edges, isb

        def gd(*a):
            calls["dual"] = a
            return dl
        L.ns["get_edges"] = ge
        L.ns["get_dual_edge_lengths"] = gd
        em = L["EdgeMesh"].from_mesh(sites, el, dual)
        e, cc = SI(FreshInt("e")), SI(FreshInt("c"))
        assume(e >= 0, e < E, cc >= 0, cc < 2)
        ri = sites.at(edges.at(e, SI(0)), cc)
        rj = sites.at(edges.at(e, SI(1)), cc)
        check("C07.edge_geometry.direction_is_rj_minus_ri", sym.eq(em.directions.at(e, cc), rj - ri))
        check("C07.edge_geometry.centre_is_midpoint", sym.eq(em.centers.at(e, cc), (ri + rj) / 2))
        dx = sites.at(edges.at(e, SI(1)), SI(0)) - sites.at(edges.at(e, SI(0)), SI(0))
        dy = sites.at(edges.at(e, SI(1)), SI(1)) - sites.at(edges.at(e, SI(0)), SI(1))
        ln = SR.lift(em.edge_lengths.at(e))
        check("C07.edge_geometry.length_is_euclidean_norm", z3.And(ln.e >= 0, (ln * ln).e == (dx * dx + dy * dy).e), fallback_extra=sym.congruence_axioms)
        check_same("C07.edge_geometry.edges_and_boundary_flags_from_the_triangulation", [(calls.get("get_edges"), el), (em.edges, edges)])
        check("C07.edge_geometry.boundary_edge_indices_are_the_flagged_edges", z3.BoolVal(getattr(em.boundary_edge_indices, "member", None) is not None)
              if not isinstance(em.boundary_edge_indices, SymArray) else em.boundary_edge_indices.member(e) == isb.at(e).e)
        a = calls.get("dual")
        check_same("C07.dual_length.computed_from_edge_centres_elements_circumcentres",
                   [(a[0], em.centers), (a[1], el), (a[2], dual), (a[3], edges), (em.dual_edge_lengths, dl)] if a is not None else [], also=a is not None)
    obls, n = explore(body)
    return dict(obls=obls, paths=n, sources=[L.info()], consistent=sym.consistent())


def run_dual_lemma(mutate=None):
    """dual-length rule: for an edge shared by two triangles both circumcentres lie on its perpendicular bisector, so the segment joining them
    is perpendicular to the edge (it is the Voronoi face where locally Delaunay); lemma over the circumcentre formula"""
    def body():
        R = z3.Real
        P, Q = [SR(R("px")), SR(R("py"))], [SR(R("qx")), SR(R("qy"))]
        U1, U2 = [SR(R("u1x")), SR(R("u1y"))], [SR(R("u2x")), SR(R("u2y"))]
        on = lambda U: ((U[0] - (P[0] + Q[0]) / 2) * (Q[0] - P[0]) + (U[1] - (P[1] + Q[1]) / 2) * (Q[1] - P[1])).e == 0
        assume(SB(on(U1)), SB(on(U2)))
        check("C07.dual_length_rule.centre_to_centre_segment_is_perpendicular_to_the_edge",
              sym.eq((U1[0] - U2[0]) * (Q[0] - P[0]) + (U1[1] - U2[1]) * (Q[1] - P[1]), 0))
        M = [(P[0] + Q[0]) / 2, (P[1] + Q[1]) / 2]
        check("C07.dual_length_rule.centre_to_midpoint_segment_is_perpendicular_to_the_edge",
              sym.eq((U1[0] - M[0]) * (Q[0] - P[0]) + (U1[1] - M[1]) * (Q[1] - P[1]), 0))
    obls, n = explore(body)
    return dict(obls=obls, paths=n, sources=[], consistent=sym.consistent())


G_ = "tdgl.device.meshing"


def run_mesher_wrapper(mutate=None):
    """generate_mesh is a wrapper around Triangle: it centres the outline, calls triangle.build (repeatedly when refining) and must hand
    back Triangle's LAST output shifted back by the centre, on EVERY return path.  Triangle is a stub whose vertex coordinates are
    uninterpreted reals (one fresh family per call), so the obligations hold for whatever the mesher returns; the outline is a concrete
    off-centre rectangle with an off-centre hole (real numpy on object arrays of symbolic values)."""
    import numpy as np
    mut = [(o, n) for (m, o, n) in (mutate or []) if m == G_]

    def body():
        builds = []

        class MeshInfo:
            def set_points(self, p): self.points = np.array(p, dtype=float)
            def set_facets(self, f): self.facets = np.array(f)
            def set_holes(self, h): self.holes = [np.array(x, dtype=float) for x in h]

        MI = MeshInfo

        class Tri:
            @staticmethod
            def MeshInfo():
                return MI()

            @staticmethod
            def build(mesh_info=None, **kw):
                k = len(builds)
                npts = 5 + 2 * k
                pts = np.empty((npts, 2), dtype=object)
                for i in range(npts):
                    for j in range(2):
                        pts[i, j] = SR(z3.Real(f"triangle_out{k}_{i}_{'xy'[j]}"))
                el = np.array([[0, 1, 2], [2, 3, 4], [0, 2, 4]][: 3]) + 0 * k
                builds.append(dict(info=mesh_info, kw=dict(kw), points=pts, elements=el))
                return type("M", (), {"points": pts, "elements": el})()
        L = instrument.load(G_, rebind={"triangle": Tri}, mutate=mut, vc=vcm.VC())
        lengths = []
        L.ns["get_max_edge_length"] = lambda pts, tri: lengths.pop(0)
        fn = L["generate_mesh"]
        film = np.array([[8.0, -6.0], [12.0, -6.0], [12.0, -4.0], [8.0, -4.0]])
        hole = np.array([[10.5, -5.5], [11.5, -5.5], [11.5, -4.5], [10.5, -4.5]])
        r0 = np.array([10.0, -5.0])
        scen = [("no refinement requested (defaults)", dict(), [], 1),
                ("max_edge_length=0", dict(max_edge_length=0), [], 1),
                ("max_edge_length<0", dict(max_edge_length=-1.0), [], 1),
                ("refined twice for max_edge_length", dict(max_edge_length=0.5), [2.0, 1.0, 0.4], 3),
                ("already fine enough", dict(max_edge_length=0.5), [0.3], 1),
                ("refined once for min_points", dict(min_points=6), [1.0, 1.0], 2),
                ("min_points and max_edge_length", dict(min_points=6, max_edge_length=0.5), [1.0, 0.7, 0.2], 3)]
        for tag, kw, sched, nb in scen:
            for holes in (False, True):
                del builds[:]
                lengths[:] = list(sched)
                t2 = f"{tag}; {'one hole' if holes else 'no hole'}"
                try:
                    pts, tri = fn(film.copy(), hole_coords=[hole.copy()] if holes else None, **kw)
                except Exception as e:        # noqa
                    check(f"C07.mesher_wrapper.returns[{t2}]", False, note=f"{type(e).__name__}: {e}")
                    continue
                check(f"C07.mesher_wrapper.number_of_triangle_calls[{t2}]", z3.BoolVal(len(builds) == nb), note=str(len(builds)))
                last = builds[-1]
                ok_shape = getattr(pts, "shape", None) == last["points"].shape
                # the shift applied on return, read off the first vertex (how the outline is centred internally is not part of the property)
                shift = [SR.lift(pts[0, j] - last["points"][0, j]).concrete() for j in range(2)] if ok_shape else [None, None]
                ok_shift = ok_shape and None not in shift
                goal = z3.And(*[sym.eq(SR.lift(pts[i, j]), last["points"][i, j] + shift[j]) for i in range(last["points"].shape[0]) for j in range(2)]) if ok_shift else z3.BoolVal(False)
                check(f"C07.mesher_wrapper.sites_are_the_last_triangulation_moved_rigidly[{t2}]", goal)
                check(f"C07.mesher_wrapper.triangles_are_those_of_the_last_triangulation[{t2}]", z3.BoolVal(np.array_equal(np.asarray(tri), last["elements"])))
                info = last["info"]
                want = np.concatenate([film] + ([hole] if holes else []))
                check(f"C07.mesher_wrapper.the_shift_back_undoes_the_shift_given_to_triangle[{t2}]",
                      z3.BoolVal(bool(ok_shift) and info is not None and info.points.shape == want.shape and bool(np.allclose(info.points + np.array(shift), want, atol=1e-9))))
                nf = len(film)
                loops = [list(range(nf))] + ([list(range(nf, nf + len(hole)))] if holes else [])
                wantf = sorted((a, b) for lp in loops for a, b in zip(lp, lp[1:] + lp[:1]))
                check(f"C07.mesher_wrapper.facets_close_every_outline[{t2}]", z3.BoolVal(sorted(map(tuple, np.asarray(info.facets).tolist())) == wantf))
                if holes:
                    hp = getattr(info, "holes", [])
                    inside = bool(ok_shift) and len(hp) == 1 and 10.5 < hp[0][0] + shift[0] < 11.5 and -5.5 < hp[0][1] + shift[1] < -4.5
                    check(f"C07.mesher_wrapper.hole_marker_inside_the_centred_hole[{t2}]", z3.BoolVal(bool(inside)))
    obls, n = explore(body)
    L0 = instrument.load(G_, mutate=mut, vc=vcm.VC())
    return dict(obls=obls, paths=n, sources=[L0.info()], consistent=True)


DV_ = "tdgl.device.device"


def run_device_translate(mutate=None):
    """Device.translate with a mesh: the device gets a NEW mesh whose sites are the old sites moved by (dx, dy) (in length units) on the same
    triangles; the old Mesh object - which copies of the device and Solutions share - is not modified (frame condition)."""
    mut = [(o, n) for (m, o, n) in (mutate or []) if m == DV_]
    built = []

    class MeshStub:
        @staticmethod
        def from_triangulation(points, triangles, create_submesh=True):
            built.append((points, triangles))
            return type("NewMesh", (), {"sites": points, "elements": triangles})()
    unit1 = type("Unit1", (), {"__rmul__": lambda self_, v: type("Q", (), {"magnitude": v})()})
    rebind = {"np": NPG, "ureg": lambda u: unit1(), "Mesh": MeshStub}
    rebind.update(BUILTINS)
    L = instrument.load(DV_, rebind=rebind, mutate=mut, vc=vcm.VC())
    Device = L["Device"]

    def body():
        del built[:]
        R = z3.Real
        n = SI(z3.Int("n_sites"))
        assume(n >= 1)
        xi, dx, dy = SR(R("xi")), SR(R("dx")), SR(R("dy"))
        assume(xi > 0)
        moved = []

        class Poly:
            def __init__(self, name):
                self.name = name

            def translate(self, dx_=0, dy_=0, inplace=False):
                moved.append((self.name, dx_, dy_, inplace))
                return self
        d = Device.__new__(Device)
        d.name, d._length_units, d.probe_points = "d", "um", None
        d.layer = type("Layer", (), {})()
        d.layer.coherence_length, d.layer.z0 = xi, SR(R("z0"))
        d.film, d.holes, d.terminals = Poly("film"), [Poly("h")], (Poly("src"), Poly("drn"))
        old_sites = SymArray.input("sites", (n, SI(2)))
        pristine = old_sites.copy()
        old_mesh = type("OldMesh", (), {})()
        old_mesh.sites, old_mesh.elements = old_sites, "TRIANGLES"
        d.mesh = old_mesh
        w0 = len(sym.ctx().ghost.get("writes", []))
        r = d.translate(dx, dy, inplace=True)
        k, c_ = SI(FreshInt("k")), SI(FreshInt("c"))
        assume(k >= 0, k < n, c_ >= 0, c_ < 2)
        writes = [w for w in sym.ctx().ghost.get("writes", [])[w0:] if w[0] is old_sites]
        check_same("C07.device_translate.the_mesh_shared_with_other_holders_is_not_modified", [(old_mesh.sites, pristine)], also=(not writes and old_mesh.sites is old_sites))
        check("C07.device_translate.every_polygon_moved_in_place_by_the_shift",
              z3.BoolVal(sorted(m_[0] for m_ in moved) == ["drn", "film", "h", "src"] and all(m_[1] is dx and m_[2] is dy and m_[3] is True for m_ in moved)))
        ok = len(built) == 1 and isinstance(built[0][0], SymArray) and d.mesh is not old_mesh
        shift = sym.ite(c_.e == 0, dx, dy)
        check("C07.device_translate.new_mesh_has_the_old_sites_moved_by_the_shift_on_the_same_triangles",
              z3.And(sym.eq(built[0][0].at(k, c_) * xi, pristine.at(k, c_) * xi + shift), z3.BoolVal(built[0][1] == "TRIANGLES")) if ok else z3.BoolVal(False),
              fallback_extra=sym.congruence_axioms)
        check("C07.device_translate.inplace_returns_the_device", z3.BoolVal(r is d))
    obls, n_ = explore(body)
    return dict(obls=obls, paths=n_, sources=[L.info()], consistent=sym.consistent())


def _terminal_info(m=None):
    """'each terminal's length equals the boundary length it covers' (shared unit with C06 / C01): sites, edges and length are computed from the
    CURRENT mesh, terminals and coherence length, the length in length units"""
    from checks import c06
    return c06.run_terminal_info(m)


def run_native_quick(mutate=None):
    """BOUNDED stand-in executed also in the quick tier (reduced family): postconditions of the real mesher"""
    def body():
        bad, n = native(0, reduced=True)
        check("C07.bounded.mesh_postconditions[6 geometries incl. off-centre devices with holes]", z3.BoolVal(not bad), note=str(bad[:2]))
    obls, n = explore(body)
    return dict(obls=obls, paths=n, sources=[], consistent=True)


def _mc():
    from checks import mesh_common
    return mesh_common


def units():
    return [Unit("generate_voronoi_vertices / triangle_areas", U_ + ":generate_voronoi_vertices, triangle_areas", run_kernels, props=["C07"], timeout=300),
            Unit("EdgeMesh.from_mesh", E_ + ":EdgeMesh.from_mesh", run_edge_geometry, props=["C07"], timeout=300),
            Unit("dual length rule lemmas", "lemma over the circumcentre contract", run_dual_lemma, props=["C07"], timeout=120),
            Unit("generate_mesh[wrapper around Triangle]", G_ + ":generate_mesh", run_mesher_wrapper, props=["C07"], timeout=300),
            Unit("Device.terminal_info", DV_ + ":Device.terminal_info", _terminal_info, props=["C07", "C06"], timeout=300),
            Unit("Device.translate[mesh]", DV_ + ":Device.translate", run_device_translate, props=["C07"], timeout=300),
            Unit("get_edges", U_ + ":get_edges", lambda m=None: _mc().run_get_edges(m), props=["C07", "C09"], timeout=300),
            Unit("Mesh.find_boundary_indices", "tdgl.finite_volume.mesh:Mesh.find_boundary_indices", lambda m=None: _mc().run_boundary_indices(m), props=["C07"], timeout=300),
            Unit("make_adj_directed_tri_indices", U_ + ":make_adj_directed_tri_indices", lambda m=None: _mc().run_adjacency(m), props=["C07"], timeout=300),
            Unit("get_dual_edge_lengths", U_ + ":get_dual_edge_lengths", lambda m=None: _mc().run_dual_edge_lengths(m), props=["C07"], timeout=300),
            Unit("compute_voronoi_polygon_areas[cell rule]", U_ + ":compute_voronoi_polygon_areas", lambda m=None: _mc().run_voronoi_cell_areas(m), props=["C07"], timeout=600),
            Unit("get_voronoi_polygon_indices", U_ + ":get_voronoi_polygon_indices", lambda m=None: _mc().run_voronoi_polygon_indices(m), props=["C07"], timeout=300),
            Unit("tdgl.geometry helpers", "tdgl.geometry:ensure_unique, close_curve",
                 lambda m=None: __import__("checks.geometry_common", fromlist=["x"]).run_geometry(m, prefixes=("C07.",)), props=["C07", "C18"], timeout=300),
            Unit("Device.make_mesh", "tdgl.device.device:Device.make_mesh / _create_dimensionless_mesh / points / edge_lengths / areas",
                 lambda m=None: _mc().run_make_mesh(m, prefixes=("C07.", "C08.")), props=["C07", "C08"], timeout=300),
            Unit("Mesh.smooth", "tdgl.finite_volume.mesh:Mesh.smooth", lambda m=None: _mc().run_smooth(m), props=["C07", "C03"], timeout=300),
            Unit("Mesh.from_triangulation", "tdgl.finite_volume.mesh:Mesh.from_triangulation / Mesh.compute_voronoi_areas_polygons", lambda m=None: _mc().run_from_triangulation(m), props=["C07", "C14"], timeout=300),
            Unit("make_mesh postconditions [bounded]", "tdgl.device.device:Device.make_mesh (Triangle, qhull)", run_native_quick, props=["C07"], timeout=600, kind="bounded")]


def native(seed=0, reduced=False):
    import logging
    import os
    os.environ.setdefault("TQDM_DISABLE", "1")
    import numpy as np
    logging.disable(logging.CRITICAL)
    import tdgl
    from tdgl.geometry import box, circle, ellipse
    from shapely.geometry import Polygon as SPoly, Point
    rng = np.random.default_rng(seed)
    bad = []
    n = 0
    layer = tdgl.Layer(coherence_length=1.0, london_lambda=1, thickness=0.1)
    fam = []
    for centre in ((0.0, 0.0), (7.5, -3.0)):
        fam.append(dict(film=box(4, 2, center=centre), holes=[circle(0.4, center=centre)], terms=True, centre=centre, mel=0.45, smooth=0))
        fam.append(dict(film=ellipse(2.5, 1.5, center=centre), holes=[box(0.6, 0.5, center=(centre[0] - 0.8, centre[1])), circle(0.3, center=(centre[0] + 0.9, centre[1] + 0.2))], terms=False, centre=centre, mel=0.4, smooth=10))
        fam.append(dict(film=box(3, 3, center=centre), holes=[], terms=True, centre=centre, mel=0.5, smooth=5))
    # a hole whose polygon carries mesh=False (e.g. a polygon that served as a terminal of another device before) is still a hole
    hole_nm = tdgl.Polygon("slot", points=box(1.2, 0.5), mesh=False)
    fam.append(dict(film=box(4, 2), holes=[hole_nm], terms=False, centre=(0.0, 0.0), mel=0.45, smooth=0))
    # a device laid out in chip coordinates, 5e5 coherence lengths from the origin: the dual mesh must be as good there as at the origin
    far_ = (4.0e5, -3.0e5)
    fam.append(dict(film=box(4, 2, center=far_), holes=[circle(0.4, center=far_)], terms=False, centre=far_, mel=0.45, smooth=0))
    # the mesher's no-refinement path (max_edge_length <= 0): coarse mesh of an off-centre device
    fam.append(dict(film=box(4, 2, center=(7.5, -3.0), points=41), holes=[circle(0.4, center=(7.5, -3.0), points=21)], terms=False, centre=(7.5, -3.0), mel=0, smooth=0))
    # a device translated in place gets a new mesh; a copy made before (copies and Solutions share the Mesh object) keeps a mesh that still
    # fits its own polygons
    try:
        d0 = tdgl.Device("d", layer=layer, film=tdgl.Polygon("film", points=box(4, 2)), holes=[tdgl.Polygon("h", points=circle(0.4))], length_units="um")
        d0.make_mesh(max_edge_length=0.6, smooth=0)
        snap = d0.copy()
        sites_before = snap.mesh.sites.copy()
        d0.translate(dx=3.0, dy=-1.5, inplace=True)
        n += 1
        if not np.array_equal(snap.mesh.sites, sites_before):
            bad.append(dict(what="translating a device in place moved the mesh sites of a copy made before (shared Mesh object modified)",
                            max_site_displacement=float(np.abs(snap.mesh.sites - sites_before).max())))
        if not np.allclose(d0.mesh.sites * d0.coherence_length.magnitude, sites_before * d0.coherence_length.magnitude + np.array([[3.0, -1.5]]), atol=1e-12):
            bad.append(dict(what="the translated device's mesh is not the old mesh moved by the shift"))
        em_ = d0.mesh.edge_mesh
        mid_ = 0.5 * (d0.mesh.sites[em_.edges[:, 0]] + d0.mesh.sites[em_.edges[:, 1]])
        if not np.allclose(em_.centers, mid_, atol=1e-9):
            bad.append(dict(what="after an in-place translation the edge centres of the device's mesh are not the midpoints of its (moved) sites",
                            max_distance=float(np.abs(em_.centers - mid_).max())))
        ds_ = d0.mesh.dual_sites
        if ds_ is not None:
            tri_ = d0.mesh.elements
            cc_ = d0.mesh.sites[tri_]
            r_ = np.linalg.norm(cc_ - ds_[:, None, :], axis=2)
            if not np.allclose(r_, r_[:, :1], rtol=1e-7, atol=1e-9):
                bad.append(dict(what="after an in-place translation the dual sites are not the circumcentres of the (moved) triangles"))
    except Exception as e:  # noqa
        bad.append(dict(what=f"Device.translate(inplace=True) with a mesh raised {type(e).__name__}: {str(e)[:100]}"))
    # Mesh.smooth returns a NEW mesh: the mesh it is called on keeps sites, edge vectors / lengths / centres, dual sites and areas that belong together
    try:
        d1 = tdgl.Device("d", layer=layer, film=tdgl.Polygon("film", points=box(4, 2)), holes=[tdgl.Polygon("h", points=circle(0.4))], length_units="um")
        d1.make_mesh(max_edge_length=0.6, smooth=0)
        m_src = d1.mesh
        m_new = m_src.smooth(3)
        for tag_, mm_ in (("the mesh smooth() was called on", m_src), ("the mesh returned by smooth()", m_new)):
            n += 1
            em_ = mm_.edge_mesh
            P_ = mm_.sites
            mid_ = 0.5 * (P_[em_.edges[:, 0]] + P_[em_.edges[:, 1]])
            vec_ = P_[em_.edges[:, 1]] - P_[em_.edges[:, 0]]
            cc_ = P_[mm_.elements]
            r_ = np.linalg.norm(cc_ - mm_.dual_sites[:, None, :], axis=2)
            probs = []
            if not np.allclose(em_.centers, mid_, atol=1e-9):
                probs.append("edge centres are not the midpoints of the site pairs")
            if not np.allclose(em_.directions, vec_, atol=1e-9) or not np.allclose(em_.edge_lengths, np.linalg.norm(vec_, axis=1), atol=1e-9):
                probs.append("edge vectors / lengths are not those of the site pairs")
            if not np.allclose(r_, r_[:, :1], rtol=1e-7, atol=1e-9):
                probs.append("dual sites are not the circumcentres of the triangles")
            if probs:
                bad.append(dict(what=f"after Mesh.smooth(3), {tag_} is not self-consistent: " + "; ".join(probs)))
    except Exception as e:  # noqa
        bad.append(dict(what=f"Mesh.smooth raised {type(e).__name__}: {str(e)[:100]}"))
    if not reduced:
        for k in range(10):
            centre = tuple(rng.uniform(-20, 20, 2))
            fam.append(dict(film=box(float(rng.uniform(2, 5)), float(rng.uniform(2, 4)), center=centre), holes=[circle(float(rng.uniform(0.2, 0.5)), center=(centre[0] + float(rng.uniform(-0.5, 0.5)), centre[1]))] if k % 2 else [],
                            terms=bool(k % 3), centre=centre, mel=float(rng.uniform(0.3, 0.6)), smooth=int(rng.choice([0, 10]))))
    for g in fam:
        n += 1
        cx, cy = g["centre"]
        film = tdgl.Polygon("film", points=g["film"])
        holes = [h if isinstance(h, tdgl.Polygon) else tdgl.Polygon(f"h{i}", points=h) for i, h in enumerate(g["holes"])]
        terms = None
        if g["terms"]:
            (x0, y0), (x1, y1) = film.bbox
            w = 0.1
            src = tdgl.Polygon("source", points=box(w, (y1 - y0) * 0.6, center=(x0, cy)))
            drn = tdgl.Polygon("drain", points=box(w, (y1 - y0) * 0.6, center=(x1, cy)))
            terms = [src, drn]
        case = dict(centre=g["centre"], n_holes=len(holes), smooth=g["smooth"], max_edge_length=g["mel"])
        try:
            dev = tdgl.Device("d", layer=layer, film=film, holes=holes, terminals=terms, length_units="um")
            dev.make_mesh(max_edge_length=g["mel"], smooth=g["smooth"])
        except Exception as e:  # noqa
            bad.append(dict(case, what=f"make_mesh raised {type(e).__name__}: {str(e)[:100]}"))
            continue
        m = dev.mesh
        pts, tri = m.sites, m.elements
        a2 = (pts[tri[:, 1], 0] - pts[tri[:, 0], 0]) * (pts[tri[:, 2], 1] - pts[tri[:, 0], 1]) - (pts[tri[:, 1], 1] - pts[tri[:, 0], 1]) * (pts[tri[:, 2], 0] - pts[tri[:, 0], 0])
        dom = SPoly(film.points, [h.points for h in holes])
        A_dom = dom.area
        if np.any(a2 <= 0):
            bad.append(dict(case, what="triangle not positively oriented / degenerate", count=int(np.sum(a2 <= 0))))
        if abs(a2.sum() / 2 - A_dom) > 2e-3 * A_dom:
            bad.append(dict(case, what="triangles do not tile film minus holes", triangles_area=float(a2.sum() / 2), domain_area=float(A_dom)))
        V, E, T = len(pts), len(m.edge_mesh.edges), len(tri)
        if V - E + T != 1 - len(holes):
            bad.append(dict(case, what="Euler characteristic V-E+T != 1 - holes", V=V, E=E, T=T))
        bd = dom.boundary
        dist = np.array([bd.distance(Point(*pts[i])) for i in m.boundary_indices])
        if dist.max() > 1e-6 * (1 + abs(cx) + abs(cy)) + 1e-9:
            bad.append(dict(case, what="boundary site not on the film / hole outlines", max_distance=float(dist.max())))
        n_on = sum(1 for i in range(V) if bd.distance(Point(*pts[i])) < 1e-9 * (1 + abs(cx) + abs(cy)))
        if n_on != len(m.boundary_indices):
            bad.append(dict(case, what="sites on the outlines are not exactly the boundary sites", on_outline=n_on, boundary_sites=len(m.boundary_indices)))
        if abs(m.areas.sum() - A_dom) > 2e-3 * A_dom or np.any(m.areas <= 0):
            bad.append(dict(case, what="cell areas do not partition the domain", sum_areas=float(m.areas.sum()), domain_area=float(A_dom)))
        em = m.edge_mesh
        # cell areas against an independent clipping of the Voronoi regions (half-planes of the mesh neighbours, shapely); smoothing may leave a
        # few non-Delaunay spots, where the property does not apply: tolerate max(3, 1%) sites
        nbrs = [[] for _ in pts]
        for i_, j_ in em.edges:
            nbrs[i_].append(j_)
            nbrs[j_].append(i_)
        # locally Delaunay sites: every edge of every incident triangle passes the empty-circumcircle test against the opposite vertex
        from collections import defaultdict
        opp = defaultdict(list)
        for tr in tri:
            for a_, b_, c_ in ((tr[0], tr[1], tr[2]), (tr[1], tr[2], tr[0]), (tr[2], tr[0], tr[1])):
                opp[frozenset((int(a_), int(b_)))].append(int(c_))
        cc_all = m.dual_sites
        rad2 = ((cc_all - pts[tri[:, 0]]) ** 2).sum(axis=1)
        non_delaunay_sites = set()
        for ti, tr in enumerate(tri):
            for a_, b_ in ((tr[0], tr[1]), (tr[1], tr[2]), (tr[2], tr[0])):
                for o_ in opp[frozenset((int(a_), int(b_)))]:
                    if o_ not in tr and ((pts[o_] - cc_all[ti]) ** 2).sum() < rad2[ti] * (1 - 1e-9):
                        non_delaunay_sites.update(int(x) for x in tr)
                        non_delaunay_sites.add(o_)
        # boundary edges must be unencroached: circumcentre of the adjacent triangle on the inner side of the edge
        for e_ in em.boundary_edge_indices:
            a_, b_ = em.edges[e_]
            (o_,) = opp[frozenset((int(a_), int(b_)))][:1]
            mid_ = (pts[a_] + pts[b_]) / 2
            ti = [k_ for k_, tr in enumerate(tri) if a_ in tr and b_ in tr][0]
            if np.dot(cc_all[ti] - mid_, pts[o_] - mid_) < 0:
                non_delaunay_sites.update((int(a_), int(b_), int(o_)))
        case["locally_delaunay_sites"] = len(pts) - len(non_delaunay_sites)
        mism = 0
        Rb = 1e3
        for i_, p_ in enumerate(pts):
            if i_ in non_delaunay_sites or any(j_ in non_delaunay_sites for j_ in nbrs[i_]):
                continue
            cell = dom
            for j_ in nbrs[i_]:
                q_ = pts[j_]
                mid = (p_ + q_) / 2
                dd = (q_ - p_) / np.linalg.norm(q_ - p_)
                tt = np.array([-dd[1], dd[0]])
                cell = cell.intersection(SPoly([mid + Rb * tt, mid - Rb * tt, mid - Rb * tt - Rb * dd, mid + Rb * tt - Rb * dd]))
            if cell.geom_type != "Polygon" and hasattr(cell, "geoms") and len(cell.geoms):
                pp_ = Point(*p_)
                cell = min(cell.geoms, key=lambda g_: g_.distance(pp_))      # the component that touches the site (a strip may continue beyond a hole)
            if abs(cell.area - m.areas[i_]) > 1e-6 * cell.area:
                mism += 1
        if mism > max(3, len(pts) // 100):
            bad.append(dict(case, what="cell areas differ from the clipped Voronoi regions", sites_off=mism, sites=len(pts)))
        d = pts[em.edges[:, 1]] - pts[em.edges[:, 0]]
        if not (np.allclose(em.directions, d) and np.allclose(em.edge_lengths, np.linalg.norm(d, axis=1)) and np.allclose(em.centers, (pts[em.edges[:, 1]] + pts[em.edges[:, 0]]) / 2)):
            bad.append(dict(case, what="edge vectors / lengths / centres are not those of the site pairs"))
        if terms:
            for ti in dev.terminal_info():
                tp = [t for t in terms if t.name == ti.name][0]
                covered = bd.intersection(SPoly(tp.points)).length
                lmax = em.edge_lengths[em.boundary_edge_indices].max()
                if abs(ti.length - covered) > 2 * lmax + 1e-9:
                    bad.append(dict(case, what="terminal length differs from the covered boundary length by more than one edge per end", terminal=ti.name, length=float(ti.length), covered=float(covered)))
    logging.disable(logging.NOTSET)
    # the integer / adjacency functions against brute-force definitions (bounded oracle of the contracts in checks/mesh_common.py)
    b2, n2 = _mc().native(seed)
    return bad + b2, n + n2


def replay_scope(unit, obl):
    """the native replay of this property searches per unit, not per obligation: run it once per unit"""
    return "unit"


def replay(unit, obl):
    import tdgl
    if unit == "Device.terminal_info":
        from checks import c06
        r = c06.replay_terminal_info(obl)
        if r.get("confirmed"):
            return r
    if unit == "tdgl.geometry helpers":
        from checks import geometry_common
        bad, n = geometry_common.native(0)
        if bad:
            return dict(confirmed=True, failing_input=bad[0], n_failing=len(bad), evaluations=n, tdgl_file=tdgl.__file__)
    if unit in ("get_edges", "Mesh.find_boundary_indices", "make_adj_directed_tri_indices", "get_dual_edge_lengths", "Mesh.smooth", "get_voronoi_polygon_indices"):
        bad, n = _mc().native(0)
        if bad:
            return dict(confirmed=True, failing_input=bad[0], n_failing=len(bad), evaluations=n, tdgl_file=tdgl.__file__)
    bad, n = native(0, reduced=False)
    if bad:
        return dict(confirmed=True, failing_input=bad[0], n_failing=len(bad), evaluations=n, tdgl_file=tdgl.__file__)
    return dict(confirmed=False, evaluations=n, tdgl_file=tdgl.__file__)


VU_ = ["compute_voronoi_polygon_areas[cell rule]"]
MUTANTS = [
    dict(name="polygon indices: stored values not shifted back", units=["get_voronoi_polygon_indices"], edits=[(U_, "    return [np.array(tri) - 1 for tri in adj.data]", "    return [np.array(tri) for tri in adj.data]")]),
    dict(name="polygon indices: last site dropped", units=["get_voronoi_polygon_indices"], edits=[(U_, "    return [np.array(tri) - 1 for tri in adj.data]", "    return [np.array(tri) - 1 for tri in adj.data[:-1]]")]),
    dict(name="cell areas: midpoints of ALL boundary edges", units=VU_, edits=[(U_, "        midpoints = sites[connected_boundary_edges].mean(axis=1)", "        midpoints = sites[boundary_edges].mean(axis=1)")]),
    dict(name="cell areas: concave triangle added instead of subtracted", units=VU_, edits=[(U_, "            areas[site] -= triangle_area", "            areas[site] += triangle_area")]),
    dict(name="cell areas: site inserted before the first midpoint", units=VU_, edits=[(U_, "            coords.insert(indices[1], sites[site])", "            coords.insert(indices[0], sites[site])")]),
    dict(name="cell areas: non-convex interior cell accepted", units=VU_, edits=[(U_, "            if not is_convex:\n                # All interior Voronoi cells must be convex.\n                raise ValueError(warning_str.format(site=site))", "            if False:\n                raise ValueError(warning_str.format(site=site))")]),
    dict(name="cell areas: boundary cell without its site", units=VU_, edits=[(U_, "            coords.append(sites[site])\n        poly = np.array(coords)", "            pass\n        poly = np.array(coords)")]),
    dict(name="cell areas: edges touching the site instead of boundary edges", units=VU_, edits=[(U_, "        connected_boundary_edges = boundary_edges[(boundary_edges == site).any(axis=1)]", "        connected_boundary_edges = edges[(edges == site).any(axis=1)]")]),
    dict(name="translate shifts the live site array of the shared mesh", units=["Device.translate[mesh]"], edits=[
        (DV_, "            points = device.points\n            points += np.array([[dx, dy]])\n            device._create_dimensionless_mesh(points, device.triangles)",
         "            sites = device.mesh.sites\n            sites += np.array([[dx, dy]]) / device.coherence_length.magnitude\n            device.mesh = Mesh.from_triangulation(sites, device.triangles)")]),
    dict(name="translate forgets the coherence length", units=["Device.translate[mesh]"], edits=[
        (DV_, "            points = device.points\n            points += np.array([[dx, dy]])", "            points = device.mesh.sites * 1.0\n            points += np.array([[dx, dy]])")]),
    dict(name="early return of generate_mesh loses the shift back", units=["generate_mesh[wrapper around Triangle]"], edits=[
        (G_, "    points = np.array(mesh.points) + r0\n    triangles = np.array(mesh.elements)\n    if min_points is None", "    points = np.array(mesh.points)\n    triangles = np.array(mesh.elements)\n    if min_points is None"),
        (G_, "        points = np.array(mesh.points) + r0\n", "        points = np.array(mesh.points)\n"),
        (G_, "        i += 1\n    return points, triangles", "        i += 1\n    return points + r0, triangles")]),
    dict(name="refinement returns the first triangulation", units=["generate_mesh[wrapper around Triangle]"], edits=[
        (G_, "        mesh = triangle.build(mesh_info=mesh_info, **kwargs)\n        points = np.array(mesh.points) + r0\n        triangles = np.array(mesh.elements)\n        max_length",
         "        mesh = triangle.build(mesh_info=mesh_info, **kwargs)\n        points2 = np.array(mesh.points) + r0\n        triangles = np.array(mesh.elements)\n        max_length")]),
    dict(name="benign: outline centred on its upper right corner", units=["generate_mesh[wrapper around Triangle]"], edits=[
        (G_, "    r0 = np.array([[xmin, ymin]]) + np.array([[dx, dy]]) / 2", "    r0 = np.array([[xmin, ymin]]) + np.array([[dx, dy]])")], expect="pass"),
    dict(name="circumcentre Ux uses C[:,0]", edits=[(U_, "Ux = (C[:, 1] * (B**2).sum(axis=1) - B[:, 1] * (C**2).sum(axis=1)) / D", "Ux = (C[:, 0] * (B**2).sum(axis=1) - B[:, 1] * (C**2).sum(axis=1)) / D")]),
    dict(name="circumcentre not shifted back", edits=[(U_, "return np.array([Ux, Uy]).T + A", "return np.array([Ux, Uy]).T")]),
    dict(name="triangle area without the factor 1/2", edits=[(U_, "    return a * 0.5\n", "    return a\n")]),
    dict(name="edge centres from the first site only", edits=[(E_, "edge_centers = edge_coords.mean(axis=1)", "edge_centers = edge_coords[:, 0]")]),
] + __import__("checks.mesh_common", fromlist=["MUTANTS"]).MUTANTS


def thorough(seed=0):
    from pyvc import harness
    summary, broken = harness.run_mutants("checks.c07", [u for u in units() if "bounded" not in u.name], MUTANTS)
    bad, n = native(seed, reduced=False)
    bnd = dict(kind="bounded", evaluations=n, failing=len(bad), samples=bad[:3], bound="16 generated geometries (boxes, ellipses, 0-2 holes, 0/2 terminals, centred and far from the origin, 2 smoothing settings)")
    vio = []
    if bad:
        import json, os
        rp = os.path.join(os.path.dirname(os.path.dirname(os.path.abspath(__file__))), "replays", "C07", "bounded-mesh.json")
        os.makedirs(os.path.dirname(rp), exist_ok=True)
        json.dump(dict(property="C07", obligation="C07.bounded.mesh_postconditions", failing_inputs=bad), open(rp, "w"), indent=1, default=str)
        vio.append(rp)
    return dict(violations=vio, coverage=dict(mutants=summary, bounded=bnd, mutants_killed=sum(1 for m in summary if m["verdict"] in ("killed", "not-proved") and m["expect"] == "killed"),
                                               mutants_total=sum(1 for m in summary if m["expect"] == "killed")), broken=broken)
