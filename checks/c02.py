"""C02 -- each step solves the discretised TDGL equation on the physical branch.

Function under contract: tdgl.solver.solver:TDGLSolver.solve_for_psi_squared (real source, generic-site reading).
Spec functions z_doc, w_doc, D_doc are written from docs/background.rst eqs. (z), (w), (quad-2), not from the code.
"""
import z3

from pyvc import sym, instrument, vc as vcm
from pyvc.sym import SB, SC, SI, SR, check, assume, explore, cis
from pyvc.harness import Unit
from pyvc.models.npmodel import NP

PROPERTY = "C02"
LEVEL = "proof"
FUNC = "tdgl.solver.solver:TDGLSolver.solve_for_psi_squared"
TRUSTED = ["numpy model: exp/sqrt/absolute/any/errstate (pyvc/models/npmodel.py)",
           "psi_laplacian @ psi modelled as an arbitrary complex number per site (the property's 'any covariant Laplacian action')"]
ASSUMPTIONS = ["refusals caused by floating-point traps (np.errstate(all='raise') incl. underflow) are invisible under A1",
               "generic-site reading: every array argument is its value at one fresh site; np.any(b) is a fresh boolean implied by b(site)"]
EXPLANATION = "per-site nonlinear real arithmetic obligations on the real static method, all inputs, no bound"

CUTS = {"TDGLSolver.solve_for_psi_squared": ["z", "w"]}


class ArbitraryAction:
    """psi_laplacian: `L @ psi` is an arbitrary complex number at the generic site"""

    def __init__(self):
        self.val = SC(SR(z3.Real("lap_re")), SR(z3.Real("lap_im")))

    def __matmul__(self, v):
        return self.val


def load(mutate=None):
    mut = [(o, n) for (m, o, n) in (mutate or []) if m == "tdgl.solver.solver"]
    return instrument.load("tdgl.solver.solver", rebind={"np": NP, "cupy": None}, cuts=CUTS, mutate=mut, vc=vcm.VC())


def inputs():
    R = z3.Real
    a = dict(psi=SC(SR(R("psi_re")), SR(R("psi_im"))), abs_sq_psi=SR(R("abs_sq_psi")), mu=SR(R("mu")),
             epsilon=SR(R("epsilon")), gamma=SR(R("gamma")), u=SR(R("u")), dt=SR(R("dt")), psi_laplacian=ArbitraryAction())
    return a


def doc_spec(a):
    """eqs. (z), (w) of docs/background.rst"""
    U = cis(-(a["mu"] * a["dt"]))                      # exp(-i mu dt)
    z = (a["gamma"] * a["gamma"] / 2) * U * a["psi"]
    n2 = a["psi"].abs2()                                # |psi^n|^2
    s = sym.real_sqrt(1 + a["gamma"] * a["gamma"] * n2, label="spec.sqrt")
    w = z * n2 + U * (a["psi"] + (a["dt"] / a["u"]) * s * ((a["epsilon"] - n2) * a["psi"] + a["psi_laplacian"].val))
    return z, w


def run_main(mutate=None):
    L = load(mutate)
    fn = L["TDGLSolver"].solve_for_psi_squared

    def body():
        c = sym.ctx()
        a = inputs()
        # requires (from the property's quantifier) -- abs_sq_psi == |psi|^2 is an obligation at the call site in update (C02.call_pre)
        assume(a["gamma"] >= 0, a["u"] > 0, a["dt"] > 0, a["abs_sq_psi"] == a["psi"].abs2())
        res = fn(**a)
        g = c.ghost
        if "z" not in g.get("opaque", {}) or "w" not in g.get("opaque", {}):
            raise sym.Undecided("cut hints z, w not found in solve_for_psi_squared (refactored?)")
        z, w = g["opaque"]["z"], g["opaque"]["w"]
        zd, wd = doc_spec(a)
        # z, w are those of the documentation (revealed definitions)
        check("C02.z_w_match_doc", z3.And(sym.eq(g["opaque_def"]["z"], zd), sym.eq(g["opaque_def"]["w"], wd)),
              extra=vcm.reveal("z", "w") + sym.congruence_axioms())
        cc = w.re * z.re + w.im * z.im
        D = (2 * cc + 1) ** 2 - 4 * z.abs2() * w.abs2()
        anys = g.get("any", [])
        # every refusal test in the code is 'some site has a negative discriminant of eq. quad-2'
        for k, (some, pred) in enumerate(anys):
            check("C02.refusal_test_is_doc_discriminant", pred == (D.e < 0))
        if res is None:
            # refused: only because some site has D < 0 (then, by lemma_no_solution_if_D_negative, unsolvable there)
            check("C02.refused_only_if_some_site_unsolvable", z3.Or(*[s_ for s_, _ in anys]) if anys else z3.BoolVal(False))
            return
        # answered: the generic site is solvable (D >= 0), i.e. never answered when some site has no solution
        fb = lambda: vcm.reveal("z", "w") + sym.congruence_axioms()
        check("C02.answered_only_if_every_site_solvable", D.e >= 0, fallback_extra=fb)
        psi1, x = res
        if not isinstance(psi1, SC) or not isinstance(x, SR):
            raise sym.Undecided("unexpected result types")
        check("C02.equation", sym.eq(psi1 + z * x, w), fallback_extra=fb)
        check("C02.modulus", x.e == psi1.abs2().e, fallback_extra=fb)
        check("C02.nonneg", x.e >= 0, fallback_extra=fb)
        sD = sym.real_sqrt(D, label="spec.sqrtD")
        check("C02.branch_root", (x * ((2 * cc + 1) + sD)).e == (2 * w.abs2()).e, fallback_extra=fb)
        check("C02.branch_finite", (2 * z.abs2() * x).e <= (2 * cc + 1).e, fallback_extra=fb)
        check("C02.branch_z0", z3.Implies(z3.And(z.re.e == 0, z.im.e == 0), x.e == w.abs2().e), fallback_extra=fb)

    obls, n = explore(body)
    return dict(obls=obls, paths=n, sources=[L.info()], consistent=sym.consistent())


def run_frame(mutate=None):
    """frame condition of the step on ARRAYS (not the generic-site reading): the inputs (psi^n, |psi^n|^2, mu, epsilon) are not written and the
    results are new arrays - the caller keeps using |psi^n|^2 for the step-size rule and for later screening iterations"""
    from pyvc.arr import SymArray
    L = load(mutate)
    fn = L["TDGLSolver"].solve_for_psi_squared

    def body():
        c = sym.ctx()
        R = z3.Real
        N = SI(z3.Int("n_sites"))
        assume(N >= 1)
        arrs = dict(psi=SymArray.input("psi_in", (N,), "c"), abs_sq_psi=SymArray.input("abs_sq_psi_in", (N,)), mu=SymArray.input("mu_in", (N,)),
                    epsilon=SymArray.input("epsilon_in", (N,)))
        lap = SymArray.input("lap_psi", (N,), "c")

        class Act:
            def __matmul__(self_, v):
                return lap
        gamma = SR(R("gamma"))
        gz = bool(SB(z3.Bool("gamma_is_zero")))
        if gz:
            gamma = 0.0        # the documented special case, as the Python number a Layer holds
        else:
            assume(gamma > 0)
        u, dt = SR(R("u")), SR(R("dt"))
        assume(u > 0, dt > 0)
        c.safety = False
        res = fn(gamma=gamma, u=u, dt=dt, psi_laplacian=Act(), **arrs)
        written = [w_[0] for w_ in c.ghost.get("writes", [])]
        ids = {id(a_): k_ for k_, a_ in arrs.items()}
        hit = sorted({ids[id(w_)] for w_ in written if id(w_) in ids} | {ids[w_.__dict__.get("_owner_id")] for w_ in written if w_.__dict__.get("_owner_id") in ids})
        check("C02.frame.inputs_of_the_step_are_not_written", z3.BoolVal(not hit), note=f"written: {hit}")
        if res is not None:
            check("C02.frame.results_are_new_arrays", z3.BoolVal(all(id(r_) not in ids for r_ in res)), note=str([ids.get(id(r_)) for r_ in res]))
    obls, n = explore(body)
    return dict(obls=obls, paths=n, sources=[L.info()], consistent=sym.consistent())


def _consistent(obls):
    return True


def run_lemmas(mutate=None):
    """mathematical lemmas over (z, w) that tie the refusal criterion to solvability of psi' + z|psi'|^2 = w"""
    def body():
        R = z3.Real
        z = SC(SR(R("z_re")), SR(R("z_im")))
        w = SC(SR(R("w_re")), SR(R("w_im")))
        p = SC(SR(R("p_re")), SR(R("p_im")))
        cc = w.re * z.re + w.im * z.im
        D = (2 * cc + 1) ** 2 - 4 * z.abs2() * w.abs2()
        # D < 0  =>  no psi' solves the equation (so a refusal is never wrong)
        check("C02.lemma_no_solution_if_D_negative",
              z3.Implies(D.e < 0, z3.Not(sym.eq(p + z * p.abs2(), w))))
        # D >= 0 => 2c+1 >= 1/2: the denominator (2c+1)+sqrt(D) never vanishes and no 'other branch' case exists
        check("C02.lemma_denominator_positive", z3.Implies(D.e >= 0, (2 * cc + 1).e >= z3.RealVal("1/2")))
        # D >= 0 => a solution exists (witness: the documented root), hence 'refused iff unsolvable at some site'
        s = SR(R("s"))
        x = SR(R("x"))
        check("C02.lemma_solution_exists_if_D_nonneg",
              z3.Implies(z3.And(D.e >= 0, s.e >= 0, (s * s).e == D.e, (x * ((2 * cc + 1) + s)).e == (2 * w.abs2()).e),
                         z3.And(sym.eq((w - z * x) + z * (w - z * x).abs2(), w))))
    obls, n = explore(body)
    return dict(obls=obls, paths=n, sources=[], consistent=sym.consistent())


def run_callsite(mutate=None):
    """C02.call_pre: TDGLSolver.update passes abs_sq_psi == |psi|^2 (old_sq_psi = absolute(psi)**2) and
    adaptive_euler_step forwards psi/abs_sq_psi/mu/epsilon/gamma/u/dt unchanged."""
    from checks import c12
    return c12.run_callsite_pre(mutate)


def _upd(screening, dynamic):
    from checks import update_common as uc
    return lambda m=None: uc.run_update(m, screening, dynamic, prefixes=("C02.",))


def units():
    U = "tdgl.solver.solver:TDGLSolver.update"
    return [
        Unit("solve_for_psi_squared", FUNC, run_main, props=["C02"], timeout=300),
        Unit("solve_for_psi_squared[frame, arrays]", FUNC, run_frame, props=["C02", "C11", "C12"], timeout=300),
        Unit("solvability_lemmas", "lemma (no code): quadratic eq. quad-1/quad-2", run_lemmas, props=["C02"], timeout=120),
        # call-site precondition of the step function inside update(): abs_sq_psi == |psi|^2 and the base state is (psi^n, mu^n)
        Unit("update[no screening, static A]", U, _upd(False, False), props=["C02"], timeout=900),
        Unit("update[no screening, dynamic A]", U, _upd(False, True), props=["C02"], timeout=900),
        Unit("update[screening, static A]", U, _upd(True, False), props=["C02"], timeout=900),
        Unit("adaptive_euler_step on a real device [bounded]", "tdgl.solver.solver:TDGLSolver.adaptive_euler_step", run_native_quick, props=["C02"], timeout=600, kind="bounded"),
    ]


def run_native_quick(mutate=None):
    """BOUNDED stand-in in the quick tier: one real adaptive_euler_step per terminal setting (terminal_psi 0, real, complex, unset) on a device
    with terminals; the answered psi' and |psi'|^2 must satisfy the documented equation at every site, terminal sites included"""
    def body():
        from checks import update_native
        bad, n = update_native.step_equation_cases(0)
        check("C02.bounded.answered_step_satisfies_the_equation_at_every_site[4 terminal settings]", z3.BoolVal(not bad), note=str(bad[:1]))
    obls, n = explore(body)
    return dict(obls=obls, paths=n, sources=[], consistent=True)


M = "tdgl.solver.solver"
MUTANTS = [
    dict(name="new |psi|^2 written into the caller's buffer", edits=[("tdgl.solver.solver", "        new_sq_psi = (2 * w2) / (two_c_1 + xp.sqrt(discriminant))", "        new_sq_psi = xp.divide(2 * w2, two_c_1 + xp.sqrt(discriminant), out=abs_sq_psi)")], units=["solve_for_psi_squared[frame, arrays]"]),
    dict(name="other root (two_c_1 - sqrt)", edits=[(M, "(two_c_1 + xp.sqrt(discriminant))", "(two_c_1 - xp.sqrt(discriminant))")]),
    dict(name="temporal link sign exp(+i mu dt)", edits=[(M, "U = xp.exp(-1j * mu * dt)", "U = xp.exp(1j * mu * dt)")]),
    dict(name="dt*u for dt/u", edits=[(M, "+ (dt / u)", "+ (dt * u)")]),
    dict(name="gamma for gamma**2 in z", edits=[(M, "z = U * gamma**2 / 2 * psi", "z = U * gamma / 2 * psi")]),
    dict(name="refuse when discriminant <= 0", edits=[(M, "xp.any(discriminant < 0)", "xp.any(discriminant <= 0)")]),
    dict(name="refusal test dropped", edits=[(M, "        if xp.any(discriminant < 0):\n            return None\n", "")]),
    dict(name="sqrt(1+gamma^2|psi|^2) -> (1+gamma^2|psi|^2)", edits=[(M, "* xp.sqrt(1 + gamma**2 * abs_sq_psi)", "* (1 + gamma**2 * abs_sq_psi)")]),
    dict(name="c uses -imag product", edits=[(M, "c = w.real * z.real + w.imag * z.imag", "c = w.real * z.real - w.imag * z.imag")]),
    dict(name="psi = w + z*x", edits=[(M, "psi = w - z * new_sq_psi", "psi = w + z * new_sq_psi")]),
    dict(name="benign: w2 without absolute", expect="pass", edits=[(M, "w2 = xp.absolute(w) ** 2", "w2 = w.real**2 + w.imag**2")]),
    dict(name="benign: renamed local", expect="pass", edits=[(M, "two_c_1 = 2 * c + 1", "two_c_1 = 1 + 2 * c")]),
]


def thorough(seed=0):
    from pyvc import harness
    summary, broken = harness.run_mutants("checks.c02", [u for u in units() if "bounded" not in u.name], MUTANTS)
    bounded = bounded_native(seed)
    return dict(coverage=dict(mutants=summary, mutants_killed=sum(1 for m in summary if m["verdict"] in ("killed", "not-proved") and m["expect"] == "killed"),
                              mutants_total=sum(1 for m in summary if m["expect"] == "killed"), bounded=bounded),
                broken=broken + bounded.get("broken", []), violations=bounded.get("violations", []))


def bounded_native(seed, n=20000):
    """BOUNDED stand-in (never counted as proved): the same contract evaluated in double precision on the real
    static method over random per-site inputs across ten decades of dt; also a CPython cross-check of the engine:
    a disagreement between a proved postcondition and the native run means the engine is unsound (broken)."""
    import numpy as np
    import scipy.sparse as sp
    import logging
    logging.getLogger("solver").setLevel(logging.ERROR)
    from tdgl.solver.solver import TDGLSolver
    rng = np.random.default_rng(seed)
    bad = 0
    refused = 0
    answered = 0
    worst = 0.0
    for it in range(n // 50):
        m = 50
        psi = (rng.normal(size=m) + 1j * rng.normal(size=m)) * rng.choice([0, 1e-3, 0.5, 1, 1.5], size=m)
        mu = rng.normal(size=m) * rng.choice([0, 1, 10])
        eps = rng.uniform(-1, 1, size=m)
        gamma = float(rng.choice([0, 0.1, 1, 10, 30]))
        u = float(rng.choice([0.1, 1, 5.79, 10]))
        dt = float(10 ** rng.uniform(-8, 2))
        lap = (rng.normal(size=m) + 1j * rng.normal(size=m)) * rng.choice([0, 1, 10])
        d = np.where(psi != 0, lap / np.where(psi != 0, psi, 1), 0)
        Lm = sp.diags(d).tocsr()
        lap_eff = Lm @ psi
        out = TDGLSolver.solve_for_psi_squared(psi=psi, abs_sq_psi=np.abs(psi) ** 2, mu=mu, epsilon=eps, gamma=gamma, u=u, dt=dt, psi_laplacian=Lm)
        U = np.exp(-1j * mu * dt)
        z = gamma ** 2 / 2 * U * psi
        n2 = np.abs(psi) ** 2
        w = z * n2 + U * (psi + dt / u * np.sqrt(1 + gamma ** 2 * n2) * ((eps - n2) * psi + lap_eff))
        c = z.real * w.real + z.imag * w.imag
        D = (2 * c + 1) ** 2 - 4 * np.abs(z) ** 2 * np.abs(w) ** 2
        if out is None:
            refused += 1
            if np.all(D > 1e-6 * (1 + (2 * c + 1) ** 2)):
                bad += 1
            continue
        answered += 1
        p1, x = out
        r = max(np.max(np.abs(p1 + z * x - w) / (1 + np.abs(w) + np.abs(z * x))), np.max(np.abs(x - np.abs(p1) ** 2) / (1 + np.abs(x))))
        worst = max(worst, float(r))
        if r > 1e-6 or np.any(x < 0) or np.any(D < -1e-6 * (1 + (2 * c + 1) ** 2)):
            bad += 1
    out = dict(kind="bounded", evaluations=n // 50, sites_per_evaluation=50, answered=answered, refused=refused,
               worst_relative_residual=worst, disagreements=bad, bound=f"{n} random sites, dt in 1e-8..1e2, seed {seed}")
    if bad:
        out["broken"] = [f"native run disagrees with proved contract on {bad} batches (engine unsound or FP effect): see bounded"]
    return out


# ----------------------------------------------------------------------------- replay (native, real code)


def replay(unit, obl):
    if "bounded" in unit:
        from checks import update_native
        bad, n = update_native.step_equation_cases(0)
        return dict(confirmed=bool(bad), failing_input=(bad or [None])[0], evaluations=n)
    if unit.startswith("update["):
        return replay_update(unit, obl)
    if "frame" in unit:
        return replay_frame(unit, obl)
    return replay_kernel(unit, obl)


def replay_frame(unit, obl):
    """native: the real static method on random arrays, gamma in {0, 1, 10}: inputs bit-identical afterwards, results are other arrays"""
    import numpy as np
    import scipy.sparse as sp
    import tdgl
    from tdgl.solver.solver import TDGLSolver
    rng = np.random.default_rng(7)
    bad = []
    n = 0
    for gamma in (0.0, 0, 1.0, 10.0):
        for t in range(5):
            N = 12
            psi = 0.8 * (rng.normal(size=N) + 1j * rng.normal(size=N))
            args = dict(psi=psi, abs_sq_psi=np.abs(psi) ** 2, mu=0.1 * rng.normal(size=N), epsilon=rng.uniform(0, 1, size=N))
            keep = {k: v.copy() for k, v in args.items()}
            lap = sp.random(N, N, density=0.3, random_state=int(rng.integers(1 << 30)), format="csr").astype(complex)
            out = TDGLSolver.solve_for_psi_squared(gamma=gamma, u=5.79, dt=1e-3, psi_laplacian=lap, **args)
            n += 1
            changed = [k for k in args if not np.array_equal(args[k], keep[k])]
            shared = [] if out is None else [k for k in args for r in out if np.shares_memory(args[k], r)]
            if changed or shared:
                bad.append(dict(what="solve_for_psi_squared writes into / returns the arrays it was given", gamma=gamma, inputs_changed=changed, results_sharing_memory_with=shared))
    return dict(confirmed=bool(bad), failing_input=(bad or [None])[0], evaluations=n, tdgl_file=tdgl.__file__)


def replay_update(unit, obl):
    """native: count the Euler updates applied within one recorded time step and compare the abs_sq_psi argument with |psi|^2"""
    import logging
    import os
    import tempfile
    import numpy as np
    os.environ.setdefault("TQDM_DISABLE", "1")
    logging.disable(logging.CRITICAL)
    import tdgl
    from tdgl.geometry import box
    from tdgl.solver.solver import TDGLSolver
    layer = tdgl.Layer(coherence_length=0.5, london_lambda=0.5, thickness=0.1, gamma=1)
    dev = tdgl.Device("d", layer=layer, film=tdgl.Polygon("film", points=box(4, 2)), length_units="um")
    dev.make_mesh(max_edge_length=0.5, smooth=10)
    screening = "no screening" not in unit
    orig = TDGLSolver.adaptive_euler_step
    calls = []

    def wrap(self, step, psi, abs_sq_psi, mu, epsilon, dt):
        calls.append((int(step), float(np.abs(np.abs(psi) ** 2 - abs_sq_psi).max())))
        return orig(self, step, psi, abs_sq_psi, mu, epsilon, dt)
    TDGLSolver.adaptive_euler_step = wrap
    try:
        with tempfile.TemporaryDirectory() as td:
            opts = tdgl.SolverOptions(solve_time=1, output_file=os.path.join(td, "o.h5"), include_screening=screening, save_every=50)
            tdgl.solve(dev, opts, applied_vector_potential=0.5)
    finally:
        TDGLSolver.adaptive_euler_step = orig
        logging.disable(logging.NOTSET)
    per = {}
    for st, mism in calls:
        per.setdefault(st, []).append(mism)
    multi = {k: len(v) for k, v in per.items() if len(v) > 1}
    worst = max(m for _, m in calls)
    bad = bool(multi) or worst > 1e-12
    return dict(confirmed=bad, steps=len(per), euler_updates=len(calls), steps_with_several_updates=len(multi),
                max_updates_in_one_step=max(multi.values()) if multi else 1, max_mismatch_abs_sq_psi_vs_modulus=worst,
                note="with screening every screening iteration applies another Euler update to the already updated psi (and mu) "
                     "with the stale |psi^n|^2" if bad else "one update per step, abs_sq_psi = |psi|^2", tdgl_file=tdgl.__file__)


def replay_kernel(unit, obl):
    """replay the solver's counter-model on the REAL static method (native, double precision).  If the model point
    itself does not show the failure (e.g. it sits on a fixed point), a small seeded neighbourhood of it is searched."""
    import math
    import numpy as np
    m = obl.get("model") or {}
    if not isinstance(m, dict) or "psi_re" not in m:
        return dict(confirmed=False, reason="model has no concrete inputs")

    def g(k, d=0.0):
        v = m.get(k, d)
        return float(v) if isinstance(v, (int, float)) and not isinstance(v, bool) else d
    base = dict(psi_re=g("psi_re"), psi_im=g("psi_im"), lap_re=g("lap_re"), lap_im=g("lap_im"), mu=g("mu"),
                epsilon=g("epsilon"), gamma=abs(g("gamma")), u=g("u", 1.0) or 1.0, dt=g("dt", 1.0) or 1.0)
    # angles abstracted by Ackermannisation: recover mu from (cos, sin)(dt*mu)
    ufs = m.get("_uf_constants", {})
    cs = {v: k for k, v in ufs.items()}
    if "mu" not in m and "cos(dt*mu)" in cs and "sin(dt*mu)" in cs:
        base["mu"] = math.atan2(g(cs["sin(dt*mu)"]), g(cs["cos(dt*mu)"])) / base["dt"]
    first = _replay_point(base)
    if first["confirmed"]:
        return first
    rng = np.random.default_rng(12345)
    tried = 1
    for k in range(300):
        pt = {kk: (vv + rng.normal() * (0.3 + 0.3 * abs(vv))) for kk, vv in base.items()}
        pt["gamma"] = abs(pt["gamma"])
        pt["u"] = abs(pt["u"]) + 1e-3
        pt["dt"] = abs(pt["dt"]) + 1e-6
        pt["epsilon"] = max(-1.0, min(1.0, pt["epsilon"]))
        r = _replay_point(pt)
        tried += 1
        if r["confirmed"]:
            r["note"] = f"model point itself did not fail natively; failing input found in its seeded neighbourhood (try {tried})"
            r["model_point"] = first
            return r
    first["neighbourhood_tried"] = tried
    return first


def _replay_point(pt):
    import numpy as np
    import scipy.sparse as sp
    import logging
    logging.getLogger("solver").setLevel(logging.ERROR)
    from tdgl.solver.solver import TDGLSolver
    psi0 = complex(pt["psi_re"], pt["psi_im"])
    lap0 = complex(pt["lap_re"], pt["lap_im"])
    psi = np.array([psi0, 1.0 + 0j])
    Lm = sp.csr_array(np.array([[0, lap0], [0, 0]], dtype=complex))
    mu = np.array([pt["mu"], 0.0])
    eps = np.array([pt["epsilon"], 1.0])
    gamma, u, dt = pt["gamma"], pt["u"], pt["dt"]
    args = dict(psi=psi, abs_sq_psi=np.abs(psi) ** 2, mu=mu, epsilon=eps, gamma=gamma, u=u, dt=dt, psi_laplacian=Lm)
    with np.errstate(all="ignore"):
        out = TDGLSolver.solve_for_psi_squared(**args)
        # documented z, w (docs/background.rst)
        U = np.exp(-1j * mu * dt)
        z = gamma ** 2 / 2 * U * psi
        n2 = np.abs(psi) ** 2
        w = z * n2 + U * (psi + dt / u * np.sqrt(1 + gamma ** 2 * n2) * ((eps - n2) * psi + Lm @ psi))
        c = (z.real * w.real + z.imag * w.imag)
        D = (2 * c + 1) ** 2 - 4 * np.abs(z) ** 2 * np.abs(w) ** 2
    detail = dict(inputs={k: float(v) for k, v in pt.items()}, D=[float(d) for d in D], tdgl_file=__import__("tdgl").__file__)
    tol = 1e-9
    if out is None:
        bad = bool(np.all(D >= tol))
        detail["result"] = "refused"
        detail["violates"] = "refused although every site is solvable" if bad else None
        return dict(confirmed=bad, **detail)
    p1, x = out
    with np.errstate(all="ignore"):
        scale = 1 + np.abs(w) + np.abs(z) * np.abs(x)
        r_eq = np.abs(p1 + z * x - w) / scale
        r_mod = np.abs(x - np.abs(p1) ** 2) / (1 + np.abs(x))
        r_br = (2 * np.abs(z) ** 2 * x - (2 * c + 1)) / (1 + np.abs(2 * c + 1))
    reasons = []
    if (D < -tol).any():
        reasons.append("answered although some site has no solution (D<0)")
    if (r_eq > 1e-7).any() or not np.all(np.isfinite(p1)):
        reasons.append("psi' + z|psi'|^2 != w with the documented z, w")
    if (r_mod > 1e-7).any() or np.iscomplexobj(x) and (np.imag(x) != 0).any():
        reasons.append("reported |psi'|^2 is not the squared modulus of psi'")
    if (np.real(x) < -tol).any():
        reasons.append("negative |psi'|^2")
    if (r_br > 1e-7).any():
        reasons.append("other branch")
    detail.update(result=dict(psi=[str(v) for v in p1], x=[str(v) for v in x]), violates=reasons,
                  residual_equation=[float(v) for v in r_eq], residual_modulus=[float(v) for v in r_mod],
                  branch_excess=[float(v) for v in r_br])
    return dict(confirmed=bool(reasons), **detail)
