"""native replay / bounded stand-in for the step-level contracts of TDGLSolver (C12 and friends): the REAL
adaptive_euler_step and update are driven on a small real device with a scripted solve_for_psi_squared (refusal
schedules) and the contract is evaluated in double precision."""
import logging
import os

os.environ.setdefault("TQDM_DISABLE", "1")
import numpy as np

_DEV = {}


def device():
    if "d" not in _DEV:
        logging.disable(logging.CRITICAL)
        import tdgl
        from tdgl.geometry import box
        layer = tdgl.Layer(coherence_length=0.5, london_lambda=2, thickness=0.1, gamma=1)
        film = tdgl.Polygon("film", points=box(3, 2))
        src = tdgl.Polygon("source", points=box(0.1, 2)).translate(dx=-1.5)
        drn = src.scale(xfact=-1).set_name("drain")
        dev = tdgl.Device("d", layer=layer, film=film, terminals=[src, drn], probe_points=[(-1, 0), (1, 0)], length_units="um")
        dev.make_mesh(max_edge_length=0.5, smooth=5)
        _DEV["d"] = dev
    return _DEV["d"]


def retry_cases(seed=0):
    """scripted refusal schedules on the real adaptive_euler_step"""
    import tdgl
    from tdgl.solver.solver import TDGLSolver
    bad = []
    n = 0
    dev = device()
    for adaptive in (True, False):
        for max_retries in (0, 1, 3):
            for refusals in range(0, max_retries + 4):
                for mult in (0.25, 0.5):
                    # adaptive with dt_init == dt_max is still adaptive: refused steps are retried with a reduced step
                    dt_hi = 1e-1 if (refusals + max_retries) % 2 == 0 else 1e-3
                    opts = tdgl.SolverOptions(solve_time=1, adaptive=adaptive, max_solve_retries=max_retries, adaptive_time_step_multiplier=mult, dt_init=1e-3, dt_max=dt_hi)
                    s = TDGLSolver(dev, opts)
                    calls = []

                    def fake(**kw):
                        calls.append(kw["dt"])
                        if len(calls) <= refusals:
                            return None
                        return kw["psi"].copy(), kw["abs_sq_psi"].copy()
                    s.solve_for_psi_squared = fake
                    dt_in = 0.05
                    psi = s.psi_init
                    n += 1
                    case = dict(adaptive=adaptive, max_solve_retries=max_retries, refusals=refusals, multiplier=mult, dt_in=dt_in, dt_init=1e-3, dt_max=dt_hi)
                    try:
                        out = s.adaptive_euler_step(3, psi, np.abs(psi) ** 2, s.mu_init, s.epsilon, dt_in)
                    except RuntimeError:
                        # allowed only after a refusal and (not adaptive or at least max_retries reductions made)
                        reductions = len(calls) - 1
                        if refusals == 0 or (adaptive and reductions < max_retries):
                            bad.append(dict(case, what="raised too early", calls=calls))
                        continue
                    dt_out = out[2]
                    want = dt_in * mult ** refusals
                    if refusals > 0 and not adaptive:
                        bad.append(dict(case, what="fixed-step run continued after a refusal", dt_out=dt_out))
                    elif abs(dt_out - calls[-1]) > 1e-15 or abs(dt_out - want) > 1e-12 * want:
                        bad.append(dict(case, what="returned dt is not dt_in*multiplier^refusals / not the dt of the answered attempt", dt_out=dt_out, calls=calls))
                    elif adaptive and refusals > max_retries + 1:
                        bad.append(dict(case, what="more than max_solve_retries+1 reductions", calls=calls))
    return bad, n


def window_cases(seed=0):
    """the real update() with scripted solve_for_psi_squared: checks dt bounds and the window rule after retries"""
    import tdgl
    from tdgl.solver.solver import TDGLSolver
    from tdgl.solver.runner import RunningState
    rng = np.random.default_rng(seed)
    bad = []
    n = 0
    dev0 = device()
    for trial in range(8):
        window = int(rng.integers(1, 5))
        screening = bool(trial % 2)
        # the rule does not depend on the material: gamma = 0 (the documented special case, as the Python int a user writes) and gamma = 10 as well
        dev = dev0
        if trial >= 4:
            dev = dev0.copy()
            dev.layer.gamma = (0, 0.0, 10.0, 0)[trial - 4]
            screening = False
        opts = tdgl.SolverOptions(solve_time=1, adaptive=True, adaptive_window=window, dt_init=1e-3, dt_max=float(rng.choice([5e-3, 1e-1])),
                                  max_solve_retries=5, adaptive_time_step_multiplier=0.5, include_screening=screening)
        s = TDGLSolver(dev, opts, applied_vector_potential=(0.4 if screening else 0.0))
        real = TDGLSolver.solve_for_psi_squared
        schedule = {int(k): int(rng.integers(1, 3)) for k in rng.choice(np.arange(2, 14), size=4, replace=False)}
        state = dict(step=0, time=0.0, dt=opts.dt_init)
        vals = dict(psi=s.psi_init, mu=s.mu_init, supercurrent=np.zeros(s.num_edges), normal_current=np.zeros(s.num_edges),
                    induced_vector_potential=np.zeros((s.num_edges, 2)))
        dt = opts.dt_init
        deltas = []
        for step in range(16):
            pending = [schedule.get(step, 0)]

            def fake(**kw):
                if pending[0] > 0:
                    pending[0] -= 1
                    return None
                return real(**kw)
            s.solve_for_psi_squared = fake
            rs = RunningState({"dt": 1, "mu": 2, "theta": 2, "screening_iterations": 1}, 1)
            state.update(step=step)
            tent_before = s.tentative_dt
            old = np.abs(vals["psi"]) ** 2
            res = s.update(state, rs, dt, **vals)
            n += 1
            dt_used = res.dt
            deltas.append(float(np.abs(np.abs(res.psi) ** 2 - old).max()))
            want_dt = tent_before * 0.5 ** schedule.get(step, 0)
            case = dict(trial=trial, step=step, window=window, refusals=schedule.get(step, 0), dt_max=opts.dt_max, include_screening=screening, gamma=dev.layer.gamma)
            if len(s.d_psi_sq_vals) != step + 1:
                bad.append(dict(case, what="the history of |psi|^2 changes does not hold exactly one entry per completed step", entries=len(s.d_psi_sq_vals)))
            if not (0 < dt_used <= opts.dt_max) or abs(dt_used - want_dt) > 1e-12 * want_dt:
                bad.append(dict(case, what="dt used is not tentative_dt*multiplier^refusals or out of (0, dt_max]", dt=dt_used, want=want_dt))
            if abs(rs.values["dt"][0, 0] - dt_used) > 0:
                bad.append(dict(case, what="recorded dt differs from the dt used", recorded=float(rs.values["dt"][0, 0]), dt=dt_used))
            if step > window:
                delta = np.mean(deltas[-window:])
                want = min(0.5 * (dt_used + opts.dt_init / max(delta, 1e-10)), opts.dt_max)
                if abs(s.tentative_dt - want) > 1e-9 * want:
                    bad.append(dict(case, what="proposed step violates min(0.5(dt+dt_init/delta), dt_max)", got=float(s.tentative_dt), want=float(want)))
            elif s.tentative_dt != tent_before:
                bad.append(dict(case, what="proposal changed during warm-up"))
            vals = dict(psi=res.psi, mu=res.mu, supercurrent=res.supercurrent, normal_current=res.normal_current, induced_vector_potential=res.A_induced)
            dt = dt_used
            state["time"] += dt_used
    return bad, n


def step_equation_cases(seed=0):
    """one REAL adaptive_euler_step on a device with terminals for terminal_psi in {0, 0.6, None}: the answered psi' and |psi'|^2 satisfy
    psi' + z|psi'|^2 = w with z, w recomputed here from the documented formulas for the dt that was answered, at EVERY site"""
    import tdgl
    from tdgl.solver.solver import TDGLSolver
    logging.disable(logging.CRITICAL)
    dev = device()
    bad, n = [], 0
    rng = np.random.default_rng(seed)
    for tp in (0.0, 0.6, 0.3 + 0.4j, None):
        for gamma_case in (True,):
            o = tdgl.SolverOptions(solve_time=1, terminal_psi=tp, dt_init=2e-2, dt_max=2e-2)
            s = TDGLSolver(dev, o, applied_vector_potential=0.3, terminal_currents=dict(source=1.0, drain=-1.0))
            psi = s.psi_init * np.exp(1j * rng.normal(size=len(s.psi_init)) * 0.3) * (1 - 0.2 * rng.random(len(s.psi_init)))
            if tp is not None:
                psi[np.concatenate([t.site_indices for t in s.terminal_info])] = tp
            mu = rng.normal(size=len(psi)) * 0.1
            sq = np.abs(psi) ** 2
            from tdgl.finite_volume.operators import MeshOperators
            for history in ("as constructed", "after the vector potential changed on a third of the edges", "after a second partial change"):
                if history != "as constructed":
                    # the covariant Laplacian of the equation is the one of the vector potential the step is taken in (a localised, time-dependent source)
                    A_now = np.array(s.operators.link_exponents, dtype=float).copy()
                    sel = rng.random(len(A_now)) < 0.33
                    A_now[sel] += 0.4 * rng.normal(size=(int(sel.sum()), A_now.shape[1]))
                    s.operators.set_link_exponents(A_now)
                fresh = MeshOperators(s.device.mesh, s.options.sparse_solver, fixed_sites=s.operators.fixed_sites, fix_psi=s.operators.fix_psi)
                fresh.set_link_exponents(np.array(s.operators.link_exponents, dtype=float))
                # the second history also starts from a step that is refused at first (the equation must hold for the dt that is ANSWERED after the retries)
                dt_try = 2e-2 if history != "after the vector potential changed on a third of the edges" else 4.0
                try:
                    psi1, sq1, dt = s.adaptive_euler_step(0, psi.copy(), sq.copy(), mu.copy(), s.epsilon, dt_try)
                except RuntimeError:
                    continue      # retries exhausted: a refusal, not an answer
                n += 1
                U = np.exp(-1j * mu * dt)
                z = U * s.gamma ** 2 / 2 * psi
                w = z * sq + U * (psi + (dt / s.u) * np.sqrt(1 + s.gamma ** 2 * sq) * ((s.epsilon - sq) * psi + fresh.psi_laplacian @ psi))
                res = np.abs(psi1 + z * sq1 - w)
                mod = np.abs(sq1 - np.abs(psi1) ** 2)
                if res.max() > 1e-9 or mod.max() > 1e-9:
                    k = int(np.argmax(res + mod))
                    tsites = set(np.concatenate([t.site_indices for t in s.terminal_info]).tolist())
                    bad.append(dict(what="the answered step does not satisfy psi' + z|psi'|^2 = w (covariant Laplacian of the current vector potential) / reports a |psi'|^2 that is "
                                         "not the modulus of psi'", terminal_psi=str(tp), history=history,
                                    max_residual=float(res.max()), max_modulus_mismatch=float(mod.max()), worst_site=k, worst_site_is_a_terminal_site=k in tsites, dt=float(dt)))
                    break
    logging.disable(logging.NOTSET)
    return bad, n


def init_cases(seed=0):
    """the first step and the step cap a freshly constructed solver starts from, with and without a seed solution"""
    import tempfile
    import tdgl
    from tdgl.solver.solver import TDGLSolver
    logging.disable(logging.CRITICAL)
    dev = device()
    bad, n = [], 0
    with tempfile.TemporaryDirectory() as td:
        # a seed whose last step is larger than the dt_init of the runs below (adaptive run that has ramped up)
        so = tdgl.SolverOptions(solve_time=3, dt_init=1e-4, dt_max=1e-1, adaptive=True, output_file=os.path.join(td, "seed.h5"), save_every=50)
        seed_sol = tdgl.solve(dev, so, applied_vector_potential=0.1)
        for seeded in (False, True):
            for adaptive in (True, False):
                for dt_init, dt_max in ((2e-3, 1e-1), (1e-5, 5e-2)):
                    o = tdgl.SolverOptions(solve_time=0.2, dt_init=dt_init, dt_max=dt_max, adaptive=adaptive, output_file=os.path.join(td, f"r{n}.h5"), save_every=20)
                    s = TDGLSolver(dev, o, applied_vector_potential=0.1, seed_solution=seed_sol if seeded else None)
                    n += 1
                    case = dict(seed_solution=seeded, adaptive=adaptive, dt_init=dt_init, dt_max=dt_max, seed_last_dt=float(seed_sol.tdgl_data.state["dt"]))
                    want_cap = dt_max if adaptive else dt_init
                    if s.tentative_dt != dt_init or s.dt_max != want_cap:
                        bad.append(dict(case, what="a new solver does not start from dt_init / the cap is not dt_max (dt_init when adaptivity is off)",
                                        tentative_dt=float(s.tentative_dt), cap=float(s.dt_max)))
                        continue
                    if not adaptive:
                        sol = s.solve()
                        dts = sol.dynamics.dt
                        n += 1
                        if len(dts) and not np.all(dts == dt_init):
                            bad.append(dict(case, what="fixed-step run used a step different from dt_init", steps=sorted(set(np.round(dts, 12).tolist()))[:4]))
        # a solver that is run a second time starts again from dt_init (the warm-up steps of an adaptive run are dt_init) and takes the same steps
        from tdgl.sources import ConstantField, LinearRamp
        for field in (0.3, LinearRamp(tmin=0.0, tmax=0.2) * ConstantField(0.6, field_units="mT", length_units="um")):
            o = tdgl.SolverOptions(solve_time=0.3, dt_init=1e-4, dt_max=2e-2, adaptive=True, adaptive_window=4, output_file=os.path.join(td, f"twice{n}.h5"), save_every=20, field_units="mT")
            s = TDGLSolver(dev, o, applied_vector_potential=field, terminal_currents=dict(source=1.0, drain=-1.0))
            first = s.solve().dynamics.dt
            second = s.solve().dynamics.dt
            n += 1
            if second[0] != 1e-4 or len(first) != len(second) or not np.array_equal(first, second):
                bad.append(dict(what="the second solve() of one solver does not start from dt_init / does not take the steps of the first run", dt_init=1e-4,
                                time_dependent_field=not isinstance(field, float), first_steps_of_run_1=first[:3].tolist(), first_steps_of_run_2=second[:3].tolist(),
                                n_steps=(len(first), len(second))))
    logging.disable(logging.NOTSET)
    return bad, n


def replay_init(unit, obl):
    import tdgl
    bad, n = init_cases()
    if bad:
        return dict(confirmed=True, failing_input=bad[0], n_failing=len(bad), evaluations=n, tdgl_file=tdgl.__file__)
    return dict(confirmed=False, evaluations=n, tdgl_file=tdgl.__file__)


def replay(unit, obl):
    import tdgl
    logging.disable(logging.CRITICAL)
    bad1, n1 = retry_cases()
    bad2, n2 = window_cases()
    bad3, n3 = step_equation_cases()
    n2 += n3
    logging.disable(logging.NOTSET)
    bad = bad1 + bad2 + bad3
    if bad:
        return dict(confirmed=True, failing_input=bad[0], n_failing=len(bad), evaluations=n1 + n2, tdgl_file=tdgl.__file__,
                    note="obligation about all option settings / histories replayed on scripted refusal schedules driving the real methods")
    return dict(confirmed=False, evaluations=n1 + n2, tdgl_file=tdgl.__file__)


def bounded(seed=0):
    logging.disable(logging.CRITICAL)
    bad1, n1 = retry_cases(seed)
    bad2, n2 = window_cases(seed)
    logging.disable(logging.NOTSET)
    out = dict(kind="bounded", evaluations=n1 + n2, failing=len(bad1) + len(bad2), samples=(bad1 + bad2)[:3],
               bound=f"{n1} scripted refusal schedules x options + {n2} real update() calls with retries, seed {seed}")
    if bad1 or bad2:
        out["broken"] = [f"native step-level run disagrees with the proved contract: {(bad1 + bad2)[0]}"]
    return out
