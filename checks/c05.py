"""C05 -- recorded frames, times and per-step records are consistent."""
from pyvc.harness import Unit
from pyvc import harness as _h
from checks import runner_common as rc, update_common as uc

PROPERTY = "C05"
LEVEL = "proof"
TRUSTED = ["the update function abstracted by its contract (returns a positive dt, advances the state by one, appends one column to the buffer)",
           "in the runner units DataHandler.save_time_step is abstracted: a frame is what it is handed (attrs, data, buffer); the HDF5 layout it writes (frame numbering, labels, "
           "single-row buffers stored as vectors for every buffer size, probe buffers as probes x buffer) is the postcondition of its own unit over the abstract store "
           "(checks/writer_common.py), which is the file model the reader units start from",
           "numpy as used by the reader (checks/reader_common.py: concatenate of equal-shaped blocks, boolean-mask selection resolved through the prefix lemma, cumsum, strided slice)",
           "numpy model (zeros, column store)"]
ASSUMPTIONS = ["save_every >= 1, dt_init > 0, every dt returned by the update is > 0 (C12.positive)",
               "reader side: DynamicsData.from_hdf5 (frame loop cut at an invariant, symbolic number of frames and buffer size), Solution.times and the range handed over by "
               "load_tdgl_data are under contract against the writer's postcondition; DataHandler.save_time_step is under contract over the abstract HDF5 store (symbolic buffer "
               "size, probe count, array sizes); that real h5py stores and returns arrays of these ranks is the bounded native run (save_every <= N+2, N <= 9; also the replay "
               "harness of every obligation here)",
               "tqdm, logging and the monitor subprocess are outside the contract (tmp_file None)"]
EXPLANATION = "loop invariant with ghost history T(j), dts(j), S(n) on the real Runner._run_stage for symbolic save_every, end_time and step sequence"
F = "tdgl.solver.runner:Runner."
P = ("C05.",)


def _stage(save, inject=None):
    return lambda m=None: rc.run_stage(m, save, inject, prefixes=P)


def _upd(screening, dynamic):
    return lambda m=None: uc.run_update(m, screening, dynamic, prefixes=("C05.",))



def _bounded_quick():
    from checks import runner_native
    b1, n1 = runner_native.search(0, 5)
    b2, n2 = runner_native.thermalisation_cases(0)
    b3, n3 = loaded_times_cases()
    return b1 + b2 + b3, n1 + n2 + n3


def loaded_times_cases():
    """real solves with save_every != 100 and skip_time, read back with Solution.from_hdf5: the times of the loaded solution are the frame times and
    the per-step records are one per step"""
    import logging
    import os
    import tempfile
    import numpy as np
    logging.disable(logging.CRITICAL)
    import h5py
    import tdgl
    from checks import update_native
    dev = update_native.device()
    bad, n = [], 0
    with tempfile.TemporaryDirectory() as td:
        for k, adaptive, skip in ((7, True, 0.0), (3, False, 0.2), (1, True, 0.0)):
            o = tdgl.SolverOptions(solve_time=0.5, skip_time=skip, save_every=k, adaptive=adaptive, dt_init=1e-2, output_file=os.path.join(td, f"t{n}.h5"))
            sol = tdgl.solve(dev, o, applied_vector_potential=0.2)
            back = tdgl.Solution.from_hdf5(sol.path)
            with h5py.File(sol.path, "r") as f:
                keys = sorted(f["data"], key=int)
                ftimes = np.array([float(f["data"][q].attrs["time"]) for q in keys])
                fsteps = np.array([int(f["data"][q].attrs["step"]) for q in keys])
            n += 1
            case = dict(save_every=k, adaptive=adaptive, skip_time=skip, frames=len(keys))
            mid = tdgl.Solution.from_hdf5(sol.path, solve_step=1) if len(keys) > 2 else back
            early = tdgl.Solution.from_hdf5(sol.path, solve_step=0)
            for nm_, s_ in (("returned", sol), ("loaded", back), ("loaded at frame 1", mid), ("loaded at frame 0", early)):
                t_ = np.asarray(s_.times)
                if len(t_) != len(ftimes) or not np.allclose(t_, ftimes, rtol=1e-12, atol=1e-15):
                    bad.append(dict(case, what=f"times of the {nm_} solution are not the frame times", n_times=len(t_), last_time=float(t_[-1]) if len(t_) else None,
                                    last_frame_time=float(ftimes[-1])))
                    break
                if s_.dynamics is not None and len(s_.dynamics.dt) != fsteps[-1]:
                    bad.append(dict(case, what=f"per-step records of the {nm_} solution: {len(s_.dynamics.dt)} for {fsteps[-1]} steps"))
                    break
        # an output path used again after the first file was deleted (sweeps that keep one file name): the second solution reports ITS frames' times
        pth = os.path.join(td, "reused.h5")
        for leg, (dt_, field_) in enumerate(((1.0 / 64, 0.2), (1.0 / 32, 0.5))):
            o = tdgl.SolverOptions(solve_time=0.5 * (leg + 1) * 0 + (0.25 if leg == 0 else 0.5), save_every=4, adaptive=False, dt_init=dt_, output_file=pth)
            sol = tdgl.solve(dev, o, applied_vector_potential=field_)
            n += 1
            if os.path.abspath(sol.path) != os.path.abspath(pth):
                break          # a fresh name was chosen: the scenario does not apply
            for nm_, s_ in (("returned", sol), ("loaded", tdgl.Solution.from_hdf5(sol.path))):
                with h5py.File(sol.path, "r") as f:
                    keys = sorted(f["data"], key=int)
                    ftimes = np.array([float(f["data"][q].attrs["time"]) for q in keys])
                t_ = np.asarray(s_.times)
                if len(t_) != len(ftimes) or not np.allclose(t_, ftimes, rtol=1e-12, atol=1e-15) or not np.allclose(s_.dynamics.dt, dt_):
                    bad.append(dict(what=f"a run written to a path that an earlier (deleted) run had used: times / time steps of the {nm_} solution are not those of its own frames",
                                    leg=leg, dt=dt_, reported_dt=float(np.asarray(s_.dynamics.dt)[0]), last_time=float(t_[-1]), last_frame_time=float(ftimes[-1])))
                    break
            sol.delete_hdf5()
        # a solution kept in memory (no output file), saved by the user and read back: the per-step records and times are those of the run
        for k_, adaptive_ in ((5, True), (100, False)):
            o = tdgl.SolverOptions(solve_time=0.4, save_every=k_, adaptive=adaptive_, dt_init=1e-2, output_file=None)
            sol = tdgl.solve(dev, o, applied_vector_potential=0.2)
            dt0, t0 = np.asarray(sol.dynamics.dt).copy(), np.asarray(sol.dynamics.time).copy()
            p2 = os.path.join(td, f"mem{k_}.h5")
            sol.to_hdf5(p2)
            back = tdgl.Solution.from_hdf5(p2)
            n += 1
            d1 = np.asarray(back.dynamics.dt)
            if len(d1) != len(dt0) or not np.array_equal(d1, dt0) or not np.allclose(np.asarray(back.dynamics.time), t0, rtol=1e-13, atol=0):
                bad.append(dict(what="a solution held in memory, saved with to_hdf5 and read back reports other per-step records than the run produced",
                                save_every=k_, adaptive=adaptive_, records_of_the_run=len(dt0), records_read_back=len(d1)))
    logging.disable(logging.NOTSET)
    return bad, n


def units():
    return [Unit("_run_stage[save]", F + "_run_stage", _stage(True), props=["C05"], timeout=900),
            Unit("_run_stage[thermalisation]", F + "_run_stage", _stage(False), props=["C05"], timeout=900),
            Unit("_run_stage[save, interrupted update]", F + "_run_stage", _stage(True, "update_interrupt"), props=["C05", "C15"], timeout=900),
            Unit("run[stages]", F + "run", lambda m=None: rc.run_run(m, prefixes=P), props=["C05"], timeout=600),
            Unit("DynamicsData.from_hdf5[file written by the runner]", "tdgl.solution.data:DynamicsData.from_hdf5 / DynamicsData.__post_init__",
                 lambda m=None: __import__("checks.reader_common", fromlist=["x"]).run_reader(m, prefixes=P), props=["C05", "C14"], timeout=600),
            Unit("Solution.times", "tdgl.solution.solution:Solution.times",
                 lambda m=None: __import__("checks.reader_common", fromlist=["x"]).run_times(m, prefixes=P), props=["C05"], timeout=300),
            Unit("Solution.load_tdgl_data[records over the full range]", "tdgl.solution.solution:Solution.load_tdgl_data",
                 lambda m=None: __import__("checks.c14", fromlist=["x"]).run_solve_step(m, prefixes=P), props=["C05", "C14"], timeout=300),
            Unit("DataHandler.save_time_step[layout]", "tdgl.solver.runner:DataHandler.save_time_step",
                 lambda m=None: __import__("checks.writer_common", fromlist=["x"]).run_writer_layout(m, prefixes=P), props=["C05", "C15"], timeout=300),
            Unit("save_time_step -> TDGLData.from_hdf5", "tdgl.solver.runner:DataHandler.save_time_step -> tdgl.solution.data:TDGLData.from_hdf5 / load_state_data",
                 lambda m=None: __import__("checks.writer_common", fromlist=["x"]).run_frame_round_trip(m, prefixes=P), props=["C05", "C14"], timeout=300),
            Unit("update[no screening, static A]", "tdgl.solver.solver:TDGLSolver.update", _upd(False, False), props=["C05"], timeout=900),
            Unit("update[screening, static A]", "tdgl.solver.solver:TDGLSolver.update", _upd(True, False), props=["C05"], timeout=900),
            _h.bounded_unit("frames, times and records of real runs [bounded]", "tdgl.solver.runner:Runner / tdgl.solution.data:DynamicsData (real h5py)", "C05", _bounded_quick, "frames_times_and_records_match_the_executable_specification[N<=5 exhaustive]", timeout=900)]


def replay_scope(unit, obl):
    """the native replay of this property searches per unit, not per obligation: run it once per unit"""
    return "unit"


def replay(unit, obl):
    if unit.startswith("update["):
        from checks import update_native
        return update_native.replay(unit, obl)
    if unit.startswith("DataHandler.save_time_step[layout]"):
        import tdgl
        from checks import writer_common
        bad, n = writer_common.native(0)
        if bad:
            return dict(confirmed=True, failing_input=bad[0], n_failing=len(bad), evaluations=n, tdgl_file=tdgl.__file__)
    if unit.startswith(("DynamicsData.from_hdf5", "Solution.", "save_time_step ->")):
        import tdgl
        bad, n = loaded_times_cases()
        if bad:
            return dict(confirmed=True, failing_input=bad[0], n_failing=len(bad), evaluations=n, tdgl_file=tdgl.__file__)
    from checks import runner_native
    r = runner_native.replay(unit, obl)
    if not r.get("confirmed") and "interrupt" in unit:
        # obligations on the exceptional paths of the stage loop: faults injected into real runs (shared with C15)
        from checks import c15_native
        return c15_native.replay(unit, obl)
    return r


R_ = "tdgl.solver.runner"
S_ = "tdgl.solver.solver"
DD_ = "tdgl.solution.data"
SO_ = "tdgl.solution.solution"
MUTANTS = __import__("checks.writer_common", fromlist=["MUTANTS"]).MUTANTS + [
    dict(name="reader drops the last frame's records", edits=[(DD_, "for i in range(step_min, step_max + 1):\n                grp = h5file[f\"data/{i}\"]\n                if \"running_state\" not in grp:", "for i in range(step_min, step_max):\n                grp = h5file[f\"data/{i}\"]\n                if \"running_state\" not in grp:")], units=["DynamicsData.from_hdf5[file written by the runner]"]),
    dict(name="reader keeps the zero padding", edits=[(DD_, "            mask = dt > 0\n", "            mask = dt > -1\n")], units=["DynamicsData.from_hdf5[file written by the runner]"]),
    dict(name="reader: probe potentials not masked", edits=[(DD_, "mu = np.concatenate(mus, axis=1)[..., mask]", "mu = np.concatenate(mus, axis=1)")], units=["DynamicsData.from_hdf5[file written by the runner]"]),
    dict(name="benign: reader skips frame 0 explicitly", expect="pass", edits=[(DD_, "                if \"running_state\" not in grp:\n                    continue\n                grp = grp[\"running_state\"]", "                if i == 0 or \"running_state\" not in grp:\n                    continue\n                grp = grp[\"running_state\"]")], units=["DynamicsData.from_hdf5[file written by the runner]"]),
    dict(name="times without the leading zero", edits=[(SO_, "times = np.concatenate([[0.0], self.dynamics.time])", "times = np.concatenate([self.dynamics.time[:0], self.dynamics.time])")], units=["Solution.times"]),
    dict(name="times: final time never appended", edits=[(SO_, "        if saved_times[-1] == times[-1]:\n            return saved_times.copy()\n", "        return saved_times.copy()\n")], units=["Solution.times"]),
    dict(name="records read only up to the loaded frame", edits=[(SO_, "self.dynamics = DynamicsData.from_hdf5(f, *self.data_range)", "self.dynamics = DynamicsData.from_hdf5(f, step_min, step)")], units=["Solution.load_tdgl_data[records over the full range]"]),
    dict(name="save at i % save_every == 1", edits=[(R_, "if i % self.options.save_every == 0:", "if i % self.options.save_every == 1:")]),
    dict(name="final save condition negated", edits=[(R_, "if save and (i % self.options.save_every):", "if save and not (i % self.options.save_every):")]),
    dict(name="stop test after the update again", edits=[(R_, "                    if self.time >= end_time:\n                        break\n                    # Run time step.", "                    # Run time step."),
                                                         (R_, "                    self.dt = new_dt\n", "                    if self.time >= end_time:\n                        break\n                    self.dt = new_dt\n")]),
    dict(name="running_state.step += 1 dropped", edits=[(R_, "                    self.running_state.step += 1\n", "")]),
    dict(name="clear() moved before the save", edits=[(R_, "                        if save:\n                            save_step(i)\n                        self.running_state.clear()", "                        self.running_state.clear()\n                        if save:\n                            save_step(i)")]),
    dict(name="time advanced by the previous dt", edits=[(R_, "                    self.dt = new_dt\n                    self.running_state.step += 1\n                    self.time += self.dt", "                    self.time += self.dt\n                    self.dt = new_dt\n                    self.running_state.step += 1")]),
    dict(name="benign: clear() zeroes in place up to step only", expect="pass", edits=[(R_, "        self.step = 0\n        for name, size in self.names_and_sizes.items():\n            self.values[name] = self.array_module.zeros((size, self.buffer_size))",
                                                                  "        for name in self.names_and_sizes:\n            self.values[name][:, : self.step] = 0\n        self.step = 0")]),
    dict(name="recorded dt is the tentative dt", edits=[(S_, "            if screening_iteration == 0:\n                # Find a new time step only for the first screening iteration.\n                dt = self.tentative_dt\n", "            if screening_iteration == 0:\n                # Find a new time step only for the first screening iteration.\n                dt = self.tentative_dt\n                running_state.append(\"dt\", dt)\n"),
                                                        (S_, "        running_state.append(\"dt\", dt)\n        if self.probe_points is not None:", "        if self.probe_points is not None:")]),
]


def thorough(seed=0):
    from pyvc import harness
    from checks import runner_native
    summary, broken = harness.run_mutants("checks.c05", units(), MUTANTS)
    bnd = runner_native.bounded(seed)
    broken = broken + bnd.get("broken", [])
    return dict(coverage=dict(mutants=summary, bounded=bnd, mutants_killed=sum(1 for m in summary if m["verdict"] in ("killed", "not-proved") and m["expect"] == "killed"),
                              mutants_total=sum(1 for m in summary if m["expect"] == "killed")), broken=broken)
