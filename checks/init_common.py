"""The REAL TDGLSolver.__init__ (and the REAL Device.Bc2 / A0 / K0 properties) executed on a symbolic mesh with the pint
model: unit scale factors of the user's length / field / current units are symbolic positive reals.  Serves C08 (scale
invariance of the dimensionless data), C01 (requested current), C06 (initial pinning), C12 (initial step), C19 (rejections,
purity).  MeshOperators is replaced by a recording stub (its contract is C03/C10)."""
import ast
import math

import z3

from pyvc import sym, instrument, vc as vcm, loops
from pyvc.arr import SymArray, Cat, check_same
from pyvc.meshmodel import SymMesh
from pyvc.models import pintmodel
from pyvc.models.npmodel import NP, BUILTINS
from pyvc.sym import SB, SC, SI, SR, check, assume, explore, FreshInt
from checks import update_common as uc

S_ = "tdgl.solver.solver"
D_ = "tdgl.device.device"


class _RNG:
    def random(self, n):
        return SymArray.fresh("random_times", (SI.lift(n),))


class NPI(uc._NPU):
    class random:
        default_rng = staticmethod(lambda *a, **k: _RNG())


def load(mutate=None):
    muts = [(o, n) for (m, o, n) in (mutate or []) if m == S_]
    mutd = [(o, n) for (m, o, n) in (mutate or []) if m == D_]
    rb = {"np": NPI, "cupy": None}
    rb.update(BUILTINS)
    V = vcm.VC()
    V.loops = {"SAMPLES": loops.LoopSpec("SAMPLES", inv=lambda loc, i: [True], name="C19.sample_loop")}
    LS = instrument.load(S_, rebind=rb, cut_loops={"validate_terminal_currents": {1: "SAMPLES"}}, mutate=muts, vc=V)
    LD = instrument.load(D_, rebind={"np": NPI}, mutate=mutd, vc=vcm.VC())
    LS.V = V
    return LS, LD


def effect_check(LS):
    """C19.init_is_pure: the constructor and the functions it calls in this module contain no call that creates files"""
    tree = ast.parse(open(LS.path).read())
    bad = []
    banned = {"open", "h5py", "tempfile", "shutil", "makedirs", "mkdir", "remove", "rmtree", "to_hdf5", "DataHandler", "Popen"}
    for node in ast.walk(tree):
        if isinstance(node, ast.FunctionDef) and node.name in ("__init__", "validate_terminal_currents", "check_total_current"):
            for n in ast.walk(node):
                if isinstance(n, ast.Call):
                    f = n.func
                    name = f.attr if isinstance(f, ast.Attribute) else getattr(f, "id", "")
                    base = f.value.id if isinstance(f, ast.Attribute) and isinstance(f.value, ast.Name) else ""
                    if name in banned or base in banned:
                        bad.append(f"{node.name}: {base}.{name} line {n.lineno}")
    return bad


def run_init(mutate=None, prefixes=("C",), seeded=False, again=False, narrow=None):
    LS, LD = load(mutate)
    Solver = LS["TDGLSolver"]
    Device = LD["Device"]

    def body():
        c = sym.ctx()
        c.record_prefixes = tuple(prefixes)
        R = z3.Real
        ureg = pintmodel.make_registry()
        ell = ureg.user_unit("LEN", pintmodel.LENGTH, "ell")
        phi = ureg.user_unit("FIELD", pintmodel.FIELD, "phi")
        iota = ureg.user_unit("CUR", pintmodel.CURRENT, "iota")
        LD.ns["ureg"] = ureg
        Device.ureg = ureg
        LS.ns["ConstantField"] = lambda *a, **k: (_ for _ in ()).throw(sym.Unsupported("ConstantField path not modelled"))
        M = SymMesh()
        c.pc += M.base_axioms()
        N, E = M.N, M.E
        xi = SR(R("xi_num"))
        lam, d = SR(R("lambda_num")), SR(R("thickness_num"))
        assume(xi > 0, lam > 0, d > 0)
        layer = type("Layer", (), {})()
        layer.coherence_length, layer.london_lambda, layer.thickness = xi, lam, d
        layer.u, layer.gamma, layer.z0, layer.conductivity = SR(R("u")), SR(R("gamma")), SR(R("z0")), None
        dev = Device.__new__(Device)
        dev.layer, dev._length_units, dev.mesh, dev.probe_points = layer, "LEN", M.mesh, None
        dev.name = "d"
        # terminals: two, with disjoint site sets described by membership predicates
        TI = type("TerminalInfo", (), {})
        terms = []
        for nm in ("src", "drn"):
            t = TI()
            t.name = nm
            memf = z3.Function("in_" + nm, z3.IntSort(), z3.BoolSort())
            n_s = SI(z3.Int("n_sites_" + nm))
            arrs = SymArray.input("sites_" + nm, (n_s,), "i")
            arrs.member = (lambda mf: (lambda v: mf(SI.lift(v).e)))(memf)
            t.site_indices = arrs
            t.memf = memf
            t.boundary_edge_indices = SymArray.input("bedges_" + nm, (SI(z3.Int("n_bedges_" + nm)),), "i")
            t.length = SR(R("length_" + nm))
            assume(t.length >= 0, n_s >= 0)
            terms.append(t)
        dev.terminal_info = lambda: tuple(terms)
        # options
        for nm_, val_ in (narrow or {}).items():
            assume(SB(z3.Bool(nm_)) if val_ else ~SB(z3.Bool(nm_)))       # option combinations that do not matter for the property of this check
        adaptive = bool(SB(z3.Bool("adaptive")))
        screening = bool(SB(z3.Bool("include_screening")))
        o = uc.make_options(adaptive, screening)
        o.validate = lambda: None
        o.gpu = False
        o.field_units, o.current_units = "FIELD", "CUR"
        o.sparse_solver = "SUPERLU"
        o.monitor = False
        tp_case = ("none" if bool(SB(z3.Bool("terminal_psi_unset"))) else "value")
        v = SC(SR(R("tpsi_re")), SR(R("tpsi_im")))
        o.terminal_psi = None if tp_case == "none" else v
        # applied vector potential in FIELD*LEN units, evaluated by a user callable at the edge centres (in LEN units)
        A_num = SymArray.input("A_num", (E, 3))
        seen = {}

        def A_func(x, y, z, t=None):
            seen.update(x=x, y=y, z=z, t=t)
            return A_num
        eps0 = SR(R("epsilon0"))
        I_s, I_d = SR(R("I_src")), SR(R("I_drn"))
        def balanced_enough():
            """|I_s + I_d| <= 1e-6 max(|I_s|, |I_d|): anything accepted is balanced to one part in a million (C19), in particular to rounding (C01)"""
            mx = sym.ite(abs(I_s).e >= abs(I_d).e, abs(I_s), abs(I_d))
            return abs(I_s + I_d).e <= (SR(1e-6) * mx).e
        # the sampled validation loop: once a sample has been checked without raising, the (time-independent) currents are balanced
        LS.V.loops = {"SAMPLES": loops.LoopSpec("SAMPLES", inv=lambda loc, i: [z3.Implies(i.e > 0, balanced_enough())], name="C19.sample_loop")}
        ops_calls = []

        class OpsStub:
            def __init__(self_, mesh, solver, use_cupy=False, fixed_sites=None, fix_psi=True):
                ops_calls.append(dict(mesh=mesh, fixed_sites=fixed_sites, fix_psi=fix_psi, use_cupy=use_cupy))
                # the public attributes of the real class
                self_.mesh, self_.sparse_solver, self_.use_cupy, self_.fixed_sites, self_.fix_psi = mesh, solver, use_cupy, fixed_sites, fix_psi
                self_.mu_laplacian_lu = object()
                self_.log = []

            def build_operators(self_):
                self_.log.append("build")

            def set_link_exponents(self_, A):
                self_.log.append(("link", A))
        LS.ns["MeshOperators"] = OpsStub
        seed_kw = {}
        if seeded:
            # a seed solution (any earlier run on this device): the constructor may keep it, nothing in it may change the step-size settings
            seed_dt = SR(R("seed_last_dt"))
            assume(seed_dt > 0)
            sdata = type("SeedData", (), {})()
            sdata.state = {"dt": seed_dt, "step": SI(z3.Int("seed_step")), "time": SR(R("seed_time"))}
            for nm_ in ("psi", "mu", "supercurrent", "normal_current", "induced_vector_potential", "applied_vector_potential"):
                setattr(sdata, nm_, SymArray.input("seed_" + nm_, (N,) if nm_ in ("psi", "mu") else ((E,) if "current" in nm_ else (E, 2)), "c" if nm_ == "psi" else "r"))
            seed_obj = type("SeedSolution", (), {})()
            seed_obj.device, seed_obj.tdgl_data = dev, sdata
            seed_kw = dict(seed_solution=seed_obj)
        # terminal currents as a dict or (only in the units that ask for it) as a function of time that hands back ONE dict object at every call
        as_function = bool(SB(z3.Bool("currents_given_as_a_function"))) if "currents_given_as_a_function" in (narrow or {}) else False
        shared_currents = {"src": I_s, "drn": I_d}
        tc_arg = (lambda t: shared_currents) if as_function else {"src": I_s, "drn": I_d}
        st0_ = instrument.module_state(LS)
        try:
            s = Solver(dev, o, applied_vector_potential=A_func, terminal_currents=tc_arg, disorder_epsilon=eps0, **seed_kw)
        except ValueError as e:
            msg = str(e)
            kind = ("epsilon" if "epsilon" in msg else "currents" if "terminal currents" in msg or "sum of all" in msg else
                    "empty_terminal" if "does not contain any points" in msg else "shape" if "shape" in msg else "other")
            # every rejection happens before the operators are built and before anything could be written
            check(f"C19.rejects_before_operators[{kind}]", z3.BoolVal(not ops_calls))
            if kind == "epsilon":
                check("C19.rejects.epsilon_above_one_only", eps0.e > 1)
            elif kind == "currents":
                check("C19.rejects.unbalanced_currents_only", (I_s + I_d).e != 0)
            elif kind == "empty_terminal":
                check("C19.rejects.terminal_without_boundary_only", z3.Or(terms[0].length.e == 0, terms[1].length.e == 0))
            else:
                check(f"C19.rejects.unexpected_rejection[{kind}]", False, note=msg)
            return
        # frame condition: a solver is a function of its arguments - constructing one leaves nothing behind at module level that a later construction
        # could pick up (memo tables keyed by object identity, code objects, sizes, ...).  Candidate: counts with the native replay.
        ch_ = [k for k in instrument.module_state_changes(st0_, instrument.module_state(LS))]
        for pf_ in sorted({p_.rstrip(".") for p_ in prefixes if len(p_) >= 3}):
            check(f"{pf_}.init.the_solver_is_a_function_of_its_arguments.no_module_state_written", z3.BoolVal(not ch_), note=f"module-level state of tdgl.solver.solver changed by the constructor: {ch_}", weak=True)
        # ---- accepted: nothing ill-posed slipped through
        from pyvc.arr import univ_instances
        check("C19.accepts_only_well_posed.epsilon", eps0.e <= 1, extra=univ_instances([SI(0)]))
        check("C19.accepts_only_well_posed.currents_balanced_to_one_part_in_1e6", balanced_enough())
        check("C19.accepts_only_well_posed.terminals_touch_boundary", z3.And(terms[0].length.e != 0, terms[1].length.e != 0))
        xi_si = xi * ell
        pi = SR(math.pi)
        Bc2 = ureg.phi0 / (2 * pi * xi_si * xi_si)
        A0 = Bc2 * xi_si
        Lam = (lam * ell) * (lam * ell) / (d * ell)
        K0 = 4 * xi_si * Bc2 / (ureg.mu0 * Lam)
        e_, cc = SI(FreshInt("e")), SI(FreshInt("c"))
        assume(e_ >= 0, e_ < E, cc >= 0, cc < 2)
        k_ = SI(FreshInt("site"))
        assume(k_ >= 0, k_ < N)
        cong = sym.congruence_axioms
        # C08: dimensionless vector potential = A_phys / (Bc2 xi), A_phys = A_num * (field unit) * (length unit)
        check("C08.A_scale_invariant", sym.eq(s.current_A_applied.at(e_, cc) * (Bc2 * xi_si), A_num.at(e_, cc) * phi * ell), fallback_extra=cong)
        check("C08.potential_evaluated_at_physical_edge_centres",
              z3.And(sym.eq(seen["x"].at(e_) * ell, xi_si * SR(M.centre(e_.e, 0))), sym.eq(seen["y"].at(e_) * ell, xi_si * SR(M.centre(e_.e, 1))),
                     sym.eq(seen["z"].at(e_), layer.z0)), fallback_extra=cong)
        # the per-step re-evaluation of a time-dependent potential (real update_applied_vector_potential): same evaluation points, same
        # scaling as at construction, at the time it is given
        seen.clear()
        t_now = SR(R("t_now"))
        try:
            A_step = s.update_applied_vector_potential(t_now)
            check("C08.time_dependent_potential.evaluated_at_physical_edge_centres_at_the_given_time",
                  z3.And(sym.eq(seen["x"].at(e_) * ell, xi_si * SR(M.centre(e_.e, 0))), sym.eq(seen["y"].at(e_) * ell, xi_si * SR(M.centre(e_.e, 1))),
                         sym.eq(seen["z"].at(e_), layer.z0), sym.eq(seen["t"], t_now)), fallback_extra=cong)
            check("C08.time_dependent_potential.scaled_like_at_construction", sym.eq(A_step.at(e_, cc) * (Bc2 * xi_si), A_num.at(e_, cc) * phi * ell), fallback_extra=cong)
        except (KeyError, AttributeError, TypeError) as ex_:
            check("C08.time_dependent_potential.evaluated_at_physical_edge_centres_at_the_given_time", False, note=f"{type(ex_).__name__}: {ex_}")
        # the device scales are functions of the CURRENT layer values: an in-place change of the layer (how parameter sweeps on one mesh are
        # written) is seen by the next read, whatever was read before
        try:
            _ = dev.K0, dev.A0, dev.Bc2
            lam2, xi2 = SR(R("lambda_num_2")), SR(R("xi_num_2"))
            assume(lam2 > 0, xi2 > 0)
            layer.london_lambda, layer.coherence_length = lam2, xi2
            xi_si2 = xi2 * ell
            Bc2_2 = ureg.phi0 / (2 * pi * xi_si2 * xi_si2)
            Lam2 = (lam2 * ell) * (lam2 * ell) / (d * ell)
            K0_2 = 4 * xi_si2 * Bc2_2 / (ureg.mu0 * Lam2)
            got = dict(K0=dev.K0, A0=dev.A0, Bc2=dev.Bc2)
            want = dict(K0=K0_2, A0=Bc2_2 * xi_si2, Bc2=Bc2_2)
            si_ = lambda q_: SR.lift(q_.mag) * SR.lift(q_.scale)
            for nm_ in ("K0", "A0", "Bc2"):
                check(f"C08.scales_follow_in_place_changes_of_the_layer[{nm_}]", sym.eq(si_(got[nm_]), want[nm_]), fallback_extra=cong)
        finally:
            layer.london_lambda, layer.coherence_length = lam, xi
        check("C08.sites_in_length_units", sym.eq(s.sites.at(k_, cc) * ell, xi_si * SR(M.site(k_.e, cc.e))), fallback_extra=cong)
        # C08 / C01: requested current in solver units: 4 (I_phys / length unit) / K0
        cur = s.current_func(SR(R("t")))
        check("C08.J_scale_invariant", sym.eq(cur["src"] * K0 * ell, 4 * I_s * iota), fallback_extra=cong)
        check("C01.requested_current.scaled_for_every_terminal", z3.And(sym.eq(cur["drn"] * K0 * ell, 4 * I_d * iota), z3.BoolVal(set(cur) == {"src", "drn"})), fallback_extra=cong)
        if as_function:
            # the function is asked again at every step: every answer is the requested current in solver units, and the object the caller's function
            # hands out belongs to the caller (it is not written)
            cur2 = s.current_func(SR(R("t_later")))
            cur3 = s.current_func(SR(R("t_even_later")))
            check("C01.requested_current.function_of_time_scaled_the_same_at_every_call",
                  z3.And(sym.eq(cur2["src"] * K0 * ell, 4 * I_s * iota), sym.eq(cur3["src"] * K0 * ell, 4 * I_s * iota), sym.eq(cur3["drn"] * K0 * ell, 4 * I_d * iota)), fallback_extra=cong)
            check("C01.requested_current.callers_object_not_written", z3.BoolVal(shared_currents["src"] is I_s and shared_currents["drn"] is I_d and set(shared_currents) == {"src", "drn"}),
                  note=str({k_: str(v_)[:60] for k_, v_ in shared_currents.items()}))
        check("C01.mu_boundary_initially_zero", sym.eq(s.mu_boundary.at(SI(FreshInt("b"))), 0))
        check("C01.terminal_density_cache_initially_zero", z3.BoolVal(all(v_ == 0 for v_ in s.terminal_current_densities.values()) and set(s.terminal_current_densities) == {"src", "drn"}))
        if screening:
            # C08: kernel weights = (mu0/4pi)(K0/A0) * a_i xi^2 expressed per length unit
            check("C08.screening_scale_invariant", sym.eq(s.areas.at(k_) * ell * (4 * pi * A0), ureg.mu0 * K0 * M.a(k_) * xi_si * xi_si), fallback_extra=cong)
            check("C09.induced_buffer_allocated", z3.BoolVal(isinstance(s.new_A_induced, SymArray) and s.new_A_induced.shape[0].e.eq(E.e)))
        else:
            check("C13.off_no_kernel_state", z3.BoolVal(s.new_A_induced is None and s.areas is None))
        # C06.init
        in_any = z3.Or(terms[0].memf(k_.e), terms[1].memf(k_.e))
        if tp_case == "none":
            check("C06.init.unset_terminal_value_means_not_pinned", z3.And(z3.BoolVal(ops_calls[0]["fix_psi"] is False), sym.eq(s.psi_init.at(k_), SC(1, 0))))
        else:
            check("C06.init.fix_psi_iff_terminal_value_set", z3.BoolVal(ops_calls[0]["fix_psi"] is True))
            check("C06.init.psi_init_is_terminal_value_on_terminal_sites_and_one_elsewhere", sym.eq(s.psi_init.at(k_), sym.ite(in_any, v, SC(1, 0))))
        fs_ = ops_calls[0]["fixed_sites"]
        check_same("C06.init.pinned_sites_are_exactly_the_terminal_sites", [(fs_.blocks[0], terms[0].site_indices), (fs_.blocks[1], terms[1].site_indices)]
                   if isinstance(fs_, Cat) and len(fs_.blocks) == 2 else [], also=isinstance(fs_, Cat) and len(fs_.blocks) == 2)
        check("C10.init.operators_built_and_linked_to_applied_potential", z3.BoolVal(s.operators.log[0] == "build" and s.operators.log[1][0] == "link"
                                                                                     and s.operators.log[1][1] is s.current_A_applied))
        if again:
            # a second solver for the SAME device and mesh with the other choice of terminal_psi (sweeps build many solvers in one process):
            # its operators must be pinned iff ITS terminal value is set
            import copy as _copy
            o2 = _copy.copy(o)
            o2.terminal_psi = v if tp_case == "none" else None
            n_before = len(ops_calls)
            try:
                s2 = Solver(dev, o2, applied_vector_potential=A_func, terminal_currents={"src": I_s, "drn": I_d}, disorder_epsilon=eps0)
                want_fix = o2.terminal_psi is not None
                # every solver owns its operators: they are mutated in place by every refresh (time-dependent A, screening), so two live solvers on
                # one mesh must never hold the same MeshOperators object
                o3 = _copy.copy(o)
                s3 = Solver(dev, o3, applied_vector_potential=A_func, terminal_currents={"src": I_s, "drn": I_d}, disorder_epsilon=eps0)
                sym.check_terms("C10.init.every_solver_builds_its_own_operators", s3.operators is not s.operators and s2.operators is not s.operators,
                                note="a second solver with the SAME options, device and mesh holds the first solver's operators object")
                sym.check_terms("C06.init.second_solver_on_the_same_mesh_is_pinned_iff_its_own_terminal_value_is_set",
                                getattr(s2.operators, "fix_psi", None) is want_fix and s2.operators is not s.operators,
                                note=f"operators.fix_psi={getattr(s2.operators, 'fix_psi', None)!r}, wanted {want_fix}; new operators built: {len(ops_calls) > n_before}")
            except ValueError:
                pass
        check("C12.init.first_step_is_dt_init", z3.And(sym.eq(s.tentative_dt, o.dt_init), sym.eq(s.dt_max, o.dt_max if adaptive else o.dt_init)))
        check("C12.init.history_empty", z3.BoolVal(s.d_psi_sq_vals == []))
        bad = effect_check(LS)
        check("C19.init_is_pure.no_file_effect_in_constructor", z3.BoolVal(not bad), note=str(bad))
    obls, n = explore(body)
    return dict(obls=obls, paths=n, sources=[LS.info(), LD.info()], consistent=sym.consistent())
