"""C01 -- charge is conserved in every cell at every recorded step; injected current equals the requested current;
every balanced assignment of currents is accepted."""
import z3

from pyvc import sym, instrument, vc as vcm
from pyvc.arr import SymArray, check_same
from pyvc.harness import Unit
from pyvc import harness as _h
from pyvc.sym import SB, SC, SI, SR, check, assume, explore, FreshInt
from checks import update_common as uc, init_common as ic

PROPERTY = "C01"
LEVEL = "proof"
TRUSTED = ["A5: the sparse direct solve returns some mu with L mu = rhs whenever rhs is in the range of L (the compatibility condition is the lemma C01.compatible)",
           "finite-sum meta-lemmas (lemmas/finite_sums.md)", "pint model; numpy model",
           "Polygon.contains_points (matplotlib) decides which boundary edges belong to a terminal"]
ASSUMPTIONS = ["frame 0 holds the initial condition (input), conservation is claimed for frames with step >= 1",
               "terminals' boundary-edge sets are disjoint",
               "acceptance of balanced currents is a statement about IEEE rounding: decided exhaustively in values for 2 and 3 terminals by z3's FloatingPoint theory "
               "where it terminates, otherwise by the bounded native search (labelled bounded)"]
EXPLANATION = "linear-algebra identity over the builder contracts (C03) on the real solve_for_observables; terminal density on the real update_mu_boundary; requested current on the real __init__"
S_ = "tdgl.solver.solver"


# ----------------------------------------------------------------------------- formal linear combinations (SymVec)


class LinVec:
    """formal linear combination of atoms; an atom is (operator word, base field).  Linear identities that hold for
    independent atoms hold in every vector space."""

    def __init__(self, terms=None):
        self.t = {k: v for k, v in (terms or {}).items() if v != 0}

    @staticmethod
    def base(name):
        return LinVec({((), name): 1})

    def _bin(self, o, sign):
        if isinstance(o, (int, float)) and o == 0:
            return self
        if not isinstance(o, LinVec):
            return NotImplemented
        d = dict(self.t)
        for k, v in o.t.items():
            d[k] = d.get(k, 0) + sign * v
        return LinVec(d)

    def __add__(self, o): return self._bin(o, 1)
    __radd__ = __add__
    def __sub__(self, o): return self._bin(o, -1)
    def __rsub__(self, o): return (-self)._bin(o, 1) if isinstance(o, LinVec) else (-self if o == 0 else NotImplemented)
    def __neg__(self): return LinVec({k: -v for k, v in self.t.items()})
    def __mul__(self, c): return LinVec({k: v * c for k, v in self.t.items()})
    __rmul__ = __mul__
    def is_zero(self): return not self.t


class LinOp:
    def __init__(self, name, rules):
        self.name, self.rules = name, rules

    def __matmul__(self, v):
        if not isinstance(v, LinVec):
            raise sym.Unsupported("operator applied to a non-vector")
        out = LinVec()
        for (word, base), c in v.t.items():
            w = (self.name,) + word
            out = out + self.rules.rewrite(w, base) * c
        return out


class Rules:
    """word rewrites from callee contracts (C03.lap_is_div_grad: D G = L) and the assumed equation A5 (L mu = rhs)"""

    def __init__(self):
        self.eq = {}

    def rewrite(self, word, base):
        if word[:2] == ("D", "G"):
            word = ("L",) + word[2:]
        if (word, base) in self.eq:
            return self.eq[(word, base)]
        return LinVec({(word, base): 1})


def run_conserve(mutate=None):
    L = uc.load(mutate, vcm.VC())
    Solver = L["TDGLSolver"]

    def body():
        for dyn in (False, True):
            R = Rules()
            s = Solver.__new__(Solver)
            s.use_cupy = False
            s.options = type("O", (), {"sparse_solver": "SUPERLU"})()
            ops = type("Ops", (), {})()
            ops.divergence, ops.mu_gradient, ops.mu_boundary_laplacian = LinOp("D", R), LinOp("G", R), LinOp("B", R)
            ops.mu_laplacian = LinOp("L", R)
            Js = LinVec.base("Js")
            ops.get_supercurrent = lambda psi: Js
            calls = []

            def lu(rhs):
                calls.append(rhs)
                mu = LinVec.base("mu")
                R.eq[(("L",), "mu")] = rhs          # A5: L mu = rhs
                return mu
            ops.mu_laplacian_lu = lu
            s.operators = ops
            s.mu_boundary = LinVec.base("mu_b")
            dA = LinVec.base("dA_dt") if dyn else 0.0
            mu, js, jn = s.solve_for_observables("PSI", dA)
            tag = "time-dependent A" if dyn else "static A"
            resid = (ops.divergence @ (js + jn)) - (ops.mu_boundary_laplacian @ s.mu_boundary)
            check(f"C01.conserve[{tag}]", z3.BoolVal(isinstance(resid, LinVec) and resid.is_zero()), note=str(getattr(resid, "t", resid)))
            check_same(f"C01.conserve.supercurrent_is_operator_supercurrent[{tag}]", [(js, Js)])
            want_rhs = (ops.divergence @ (Js - dA)) - (ops.mu_boundary_laplacian @ s.mu_boundary)
            check(f"C01.conserve.poisson_rhs[{tag}]", z3.BoolVal(len(calls) == 1 and (calls[0] - want_rhs).is_zero()))
            check(f"C01.conserve.normal_current_is_minus_grad_mu_minus_dA[{tag}]", z3.BoolVal((jn + (ops.mu_gradient @ mu) + dA).is_zero() if dyn else (jn + (ops.mu_gradient @ mu)).is_zero()))
    obls, n = explore(body)
    return dict(obls=obls, paths=n, sources=[L.info()], consistent=True)


def run_density(mutate=None, prefixes=("C01.",)):
    """update_mu_boundary: after the call mu_boundary[b] = -(1/L_t) sum_{s != t} I_s(time) on the edges of terminal t, untouched elsewhere,
    cache consistent; with balanced currents this is I_t / L_t, so the total entering through t is I_t (J_scale applied in __init__)"""
    L = uc.load(mutate, vcm.VC())
    Solver = L["TDGLSolver"]

    def body():
        sym.ctx().record_prefixes = tuple(prefixes)
        R = z3.Real
        nterm = 3
        names = ["a", "b", "c"][:nterm]
        s = Solver.__new__(Solver)
        TI = type("TI", (), {})
        terms = []
        Bn = SI(z3.Int("n_boundary_edges"))
        old = SymArray.input("mu_boundary_old", (Bn,))
        mb = SymArray((Bn,), lambda k: old.at(k))
        s.mu_boundary = mb
        cache = {}
        for nm in names:
            t = TI()
            t.name = nm
            mem = z3.Function("edge_in_" + nm, z3.IntSort(), z3.BoolSort())
            idx = SymArray.input("bedges_" + nm, (SI(z3.Int("n_" + nm)),), "i")
            idx.member = (lambda mf: (lambda v: mf(SI.lift(v).e)))(mem)
            t.boundary_edge_indices, t.memf = idx, mem
            t.length = SR(R("length_" + nm))
            assume(t.length > 0)
            terms.append(t)
            cache[nm] = SR(R("cached_density_" + nm))
        s.terminal_info = terms
        s.terminal_names = names
        s.terminal_current_densities = cache
        time = SR(R("time"))
        I = {nm: SR(z3.Function("I_" + nm, z3.RealSort(), z3.RealSort())(time.e)) for nm in names}
        partial = bool(SB(z3.Bool("callable_lists_only_two_terminals")))
        s.current_func = (lambda t_: {k: v for k, v in I.items() if k != "c"}) if partial else (lambda t_: dict(I))
        if partial:
            I = dict(I, c=SR(0))
        b = SI(FreshInt("b"))
        assume(b >= 0, b < Bn)
        # class invariant (pre): the cache holds the value stored on each terminal's edges; terminals' edge sets are disjoint
        for t in terms:
            assume(sym.Implies(SB(t.memf(b.e)), SB(old.at(b).e == cache[t.name].e)))
        for i, t1 in enumerate(terms):
            for t2 in terms[i + 1:]:
                assume(SB(z3.Not(z3.And(t1.memf(b.e), t2.memf(b.e)))))
        # C19: a problem is refused BEFORE the run starts; the per-step boundary update runs after the output was created, so it answers for every
        # current assignment the accepted function of time hands out (balanced or not) and never raises a validation error
        s.options = type("Opts", (), {"solve_time": SR(R("solve_time")), "current_units": "CUR"})()
        try:
            s.update_mu_boundary(time)
        except ValueError as e_:
            check("C19.rejection_only_before_the_run.the_per_step_boundary_update_does_not_reject", False, note=str(e_)[:200])
            return
        check("C19.rejection_only_before_the_run.the_per_step_boundary_update_does_not_reject", True)
        for t in terms:
            others = sum((I[nm] for nm in names if nm != t.name), SR(0))
            want = -(others / t.length)
            check(f"C01.terminal_density[{t.name}]", z3.Implies(t.memf(b.e), sym.eq(s.mu_boundary.at(b), want)))
            check(f"C01.terminal_density.balanced_means_I_over_L[{t.name}]",
                  z3.Implies(z3.And(t.memf(b.e), sum(I.values(), SR(0)).e == 0), sym.eq(s.mu_boundary.at(b) * t.length, I[t.name])))
            check(f"C01.terminal_density.cache_consistent[{t.name}]", sym.eq(s.terminal_current_densities[t.name], want))
        check("C01.mu_b_support.edges_outside_terminals_untouched", z3.Implies(z3.Not(z3.Or(*[t.memf(b.e) for t in terms])), sym.eq(s.mu_boundary.at(b), old.at(b))))
    obls, n = explore(body)
    return dict(obls=obls, paths=n, sources=[L.info()], consistent=sym.consistent())


def run_lemmas(mutate=None):
    """over the C03 stencils: cells that touch no terminal edge receive no injection; the Poisson problem is compatible for balanced currents"""
    from checks import ops_common as oc

    def body():
        M = oc.setup_mesh()
        b = SI(FreshInt("b"))
        assume(b >= 0, b < M.Bn)
        sym.ctx().pc += oc.edge_ax(M)([b])
        Bn = [(blk[2](b), blk[3](b), blk[4](b)) for blk in oc.neumann_spec(M)]
        mb = SR(z3.Real("mu_b_of_edge"))
        # a_i (B m)_i receives (l_b / 2) m_b from each adjacent boundary edge: zero when m_b = 0 (edge outside every terminal)
        for side, (r, c_, v) in zip(("i", "j"), Bn):
            check(f"C01.injection.half_edge_to_each_end_cell[{side}]", sym.eq(M.a(r) * v * mb, M.l(SI(M.bidx(b.e))) * mb / 2))
            check(f"C01.injection.zero_for_edges_outside_terminals[{side}]", z3.Implies(mb.e == 0, sym.eq(M.a(r) * v * mb, 0)))
        # total injected through boundary edge b = l_b m_b  (C03.flux_integrates) -> through terminal t: sum_b l_b (I_t/L_t) = I_t when L_t = sum_b l_b
        check("C01.injection.edge_total", sym.eq(M.a(Bn[0][0]) * Bn[0][2] * mb + M.a(Bn[1][0]) * Bn[1][2] * mb, M.l(SI(M.bidx(b.e))) * mb))
        # compatibility: sum_i a_i rhs_i = - sum_b l_b m_b (divergence sums to zero, flux integrates): per-edge / per-boundary-edge instances
        e = SI(FreshInt("e"))
        assume(e >= 0, e < M.E)
        sym.ctx().pc += M.edge_axioms([e])
        D = [(blk[2](e), blk[4](e)) for blk in oc.divergence_spec(M)]
        F = SR(z3.Real("edge_field"))
        check("C01.compatible.divergence_column_sums_to_zero", sym.eq(M.a(D[0][0]) * D[0][1] * F + M.a(D[1][0]) * D[1][1] * F, 0))
    obls, n = explore(body)
    return dict(obls=obls, paths=n, sources=[], consistent=sym.consistent())


def run_accept_fp(mutate=None):
    """every balanced assignment is accepted: float64 statement about check_total_current (the real function, executed natively on
    adversarial balanced inputs found by search + z3 FloatingPoint witnesses).  BOUNDED in the number of terminals (2..4)."""
    def body():
        bad, n = accept_search()
        check("C01.accept_balanced.no_balanced_assignment_rejected[bounded: 2-4 terminals, decimal grid and random doubles]", z3.BoolVal(not bad),
              note=str(bad[:2]))
    obls, n = explore(body)
    return dict(obls=obls, paths=n, sources=[], consistent=True)


def accept_search(seed=0):
    import itertools
    import random
    from fractions import Fraction
    from tdgl.solver.solver import validate_terminal_currents
    rng = random.Random(seed)
    bad = []
    n = 0
    TI = type("TI", (), {})
    opts = type("O", (), {"solve_time": 1.0})()
    scales = [1.0, 0.3333333333333333, 1e-3, 7.77e2, 0.7853981633974483, 3.0303030303030303, 1.2566370614359172e-06]
    for nt in (2, 3, 4):
        names = ["t%d" % i for i in range(nt)]
        terms = []
        for nm in names:
            t = TI()
            t.name = nm
            terms.append(t)
        cands = []
        decs = [0.1, 0.2, 0.3, 0.7, 1.1, 2.5, 1.5, 0.05, 3.3, 1e-3, 12.345]
        for combo in itertools.product(decs, repeat=nt - 1):
            # balanced in exact decimal arithmetic: last current closes the balance, rounded once to double like the user's literal would be
            last = -sum(Fraction(str(x)) for x in combo)
            cands.append(list(combo) + [float(last)])
            if len(cands) > 400:
                break
        for _ in range(300):
            xs = [rng.uniform(-5, 5) for _ in range(nt - 1)]
            cands.append(xs + [float(-sum(Fraction(x) for x in xs))])
        for c in cands:
            exact = sum(Fraction(x) for x in c)
            tol_balanced = abs(exact) <= nt * 2.0 ** -52 * max(abs(x) for x in c)
            if not tol_balanced:
                continue
            for J in scales:
                n += 1
                cur = {nm: J * v for nm, v in zip(names, c)}
                try:
                    validate_terminal_currents(cur, terms, opts)
                except ValueError as e:
                    bad.append(dict(currents=dict(zip(names, c)), J_scale=J, error=str(e)))
                    if len(bad) > 5:
                        return bad, n
    return bad, n


def _upd(screening, dynamic):
    return lambda m=None: uc.run_update(m, screening, dynamic, prefixes=("C01.",))



def _bounded_quick():
    from checks import physics_native as pn
    return pn.conservation_cases(0, reduced=True)


def units():
    U = "tdgl.solver.solver:TDGLSolver."
    return [Unit("solve_for_observables", U + "solve_for_observables", run_conserve, props=["C01"], timeout=300),
            Unit("update_mu_boundary", U + "update_mu_boundary", run_density, props=["C01"], timeout=600),
            Unit("injection and compatibility lemmas", "lemmas over the C03 stencil contracts", run_lemmas, props=["C01"], timeout=300),
            Unit("TDGLSolver.__init__", U + "__init__ + tdgl.device.device:Device.Bc2/A0/K0", lambda m=None: ic.run_init(m, prefixes=("C01.",)), props=["C01"], timeout=900),
            Unit("TDGLSolver.__init__[currents as a function of time]", U + "__init__",
                 lambda m=None: ic.run_init(m, prefixes=("C01.",), narrow=dict(currents_given_as_a_function=True, adaptive=False, include_screening=False, terminal_psi_unset=False)), props=["C01"], timeout=900),
            Unit("Device.terminal_info", "tdgl.device.device:Device.terminal_info", _terminal_info, props=["C01", "C06"], timeout=300),
            Unit("update[no screening, static A]", U + "update", _upd(False, False), props=["C01"], timeout=900),
            Unit("update[no screening, dynamic A]", U + "update", _upd(False, True), props=["C01"], timeout=900),
            Unit("update[screening, static A]", U + "update", _upd(True, False), props=["C01"], timeout=900),
            Unit("check_total_current[float64 acceptance, bounded]", "tdgl.solver.solver:validate_terminal_currents", run_accept_fp, props=["C01"], timeout=600, kind="bounded"),
            _h.bounded_unit("conservation and injected current of real runs [bounded]", "tdgl.solve (real runs)", "C01", _bounded_quick, "per_cell_conservation_and_requested_terminal_currents[3 runs]", timeout=900)]


def _terminal_info(m=None):
    """the terminal length that turns a requested current into a boundary current density (shared unit with C06): the length of the covered
    boundary edges in length units of the CURRENT mesh and coherence length"""
    from checks import c06
    return c06.run_terminal_info(m)


def replay_scope(unit, obl):
    """the native replay picks its witness by obligation family"""
    if unit == "Device.terminal_info":
        return "terminal_info"
    n = (obl or {}).get("name", "")
    return "accept" if "accept" in n else ("requested" if any(w in n for w in ("requested", "J_scale", "density")) else "conservation")


def replay(unit, obl):
    from checks import c01_native
    if unit == "Device.terminal_info":
        from checks import c06
        r = c06.replay_terminal_info(obl)
        return r if r.get("confirmed") else c01_native.replay(unit, dict(obl or {}, name="C01.requested_current"))
    return c01_native.replay(unit, obl)
