"""The REAL TDGLSolver.update and TDGLSolver.adaptive_euler_step executed symbolically with their callees replaced by
contract stubs (modular verification: a caller is checked against the callee's contract, not its body).

Serves C12 (retry rule, window rule, bounds), C13 (screening exit only when converged, non-convergence raises, off = input
A_induced), C10 (solver_triggers: operators refreshed before every step), C11 (update ignores observers, no aliasing),
C01 (step: mu_boundary set for state['time'], returned triple is the last solve_for_observables result), C02 (call_pre).
Each property's check records only the obligations with its own prefix (the others are still proved and used as lemmas).
"""
import itertools

import z3

from pyvc import sym, instrument, vc as vcm, loops
from pyvc.arr import SymArray, check_same, SymList, SymListView
from pyvc.models.npmodel import NP, BUILTINS
from pyvc.sym import SB, SC, SI, SR, check, assume, explore, FreshReal, FreshInt, Undecided

MOD = "tdgl.solver.solver"
CUT = {"TDGLSolver.adaptive_euler_step": {1: "RETRY"}, "TDGLSolver.update": {1: "SCREEN"}}
POW = z3.Function("MulPow", z3.IntSort(), z3.RealSort())      # ghost: multiplier ** r


def load(mutate=None, the_vc=None):
    mut = [(o, n) for (m, o, n) in (mutate or []) if m == MOD]
    rebind = {"np": _NPU, "cupy": None, "range": loops.model_range}
    rebind.update(BUILTINS)
    return instrument.load(MOD, rebind=rebind, cut_loops=CUT, mutate=mut, vc=the_vc)


class _NPU(NP):
    """numpy model + the few extra functions update() uses"""
    inf = float("inf")

    @staticmethod
    def allclose(a, b):
        """assumed contract: equal arrays are close; nothing is known about a True answer beyond that"""
        c = SB(sym.FreshBool("allclose"))
        g = [SI(FreshInt("g")) for _ in range(a.ndim)]
        sym.axiom(z3.Implies(_all_eq_marker(a, b), c.e))
        sym.ctx().ghost.setdefault("allclose", []).append((c, a, b))
        return c

    @staticmethod
    def array_equal(a, b):
        c = SB(sym.FreshBool("array_equal"))
        sym.axiom(c.e == _all_eq_marker(a, b))
        return c

    @staticmethod
    def angle(x):
        return SymArray.fresh("angle", x.shape)


_EQ = {}


def _all_eq_marker(a, b):
    """boolean standing for 'forall idx: a[idx] == b[idx]'; its instances are available through eq_instances()"""
    m = sym.FreshBool("alleq")
    sym.ctx().ghost.setdefault("alleq", []).append((m, a, b))
    return m


def eq_instances(idx):
    """instances at idx of  marker => a[idx]==b[idx]  for every all-equal marker of the path"""
    out = []
    for m, a, b in sym.ctx().ghost.get("alleq", []):
        if a.ndim == len(idx):
            out.append(z3.Implies(m, sym.eq(a.at(*idx), b.at(*idx))))
    return out


class Opts:
    """stand-in for SolverOptions with symbolic fields (the real class is a plain dataclass; only attribute reads occur)"""


def make_options(adaptive, screening):
    o = Opts()
    R = z3.Real
    o.adaptive = adaptive
    o.include_screening = screening
    o.max_solve_retries = SI(z3.Int("max_solve_retries"))
    o.adaptive_time_step_multiplier = SR(R("multiplier"))
    o.adaptive_window = SI(z3.Int("adaptive_window"))
    o.dt_init = SR(R("dt_init"))
    o.dt_max = SR(R("opt_dt_max"))
    o.solve_time = SR(R("solve_time"))
    o.screening_tolerance = SR(R("screening_tolerance"))
    o.max_iterations_per_step = SI(z3.Int("max_iterations_per_step"))
    o.screening_step_size = SR(R("alpha"))
    o.screening_step_drag = SR(R("beta"))
    # observers: must not influence the result (C11)
    o.save_every = SI(z3.Int("save_every"))
    o.progress_interval = SI(z3.Int("progress_interval"))
    o.output_file = "SENTINEL_output_file"
    o.monitor = False
    assume(o.adaptive_time_step_multiplier > 0, o.adaptive_time_step_multiplier < 1, o.dt_init > 0, o.dt_init <= o.dt_max,
           o.max_solve_retries >= 0, o.adaptive_window >= 1, o.screening_tolerance > 0, o.max_iterations_per_step >= 0, o.save_every >= 1)
    return o


# ----------------------------------------------------------------------------- adaptive_euler_step


def run_retry(mutate=None, adaptive=True, prefixes=("C12.",)):
    """loop RETRY of adaptive_euler_step cut at the invariant; solve_for_psi_squared replaced by its contract stub"""
    V = vcm.VC()
    L = load(mutate, V)
    Solver = L["TDGLSolver"]

    def body():
        c = sym.ctx()
        c.record_prefixes = tuple(prefixes)
        R = z3.Real
        s = Solver.__new__(Solver)
        s.options = make_options(adaptive, False)
        s.gamma, s.u = SR(R("gamma")), SR(R("u"))
        ops = type("Ops", (), {})()
        ops.psi_laplacian = object()
        ops.mu_laplacian = object()       # the scalar Laplacian of the real class (no link variables, no pinned rows): never the operator of the psi step
        s.operators = ops
        m = s.options.adaptive_time_step_multiplier
        dt_in = SR(R("dt_in"))
        assume(dt_in > 0)
        psi = SymArray.input("psi", (SI(z3.Int("N")),), "c")
        absq = SymArray.input("abs_sq_psi", (SI(z3.Int("N")),))
        mu = SymArray.input("mu", (SI(z3.Int("N")),))
        eps = SymArray.input("eps", (SI(z3.Int("N")),))
        G = dict(ncalls=SI(0), last_dt=None, last_none=None, last_result=None)
        c.ax += [POW(0) == 1]

        def stub(**kw):
            # contract of solve_for_psi_squared as seen by the caller: arguments forwarded unchanged, only dt varies
            check_same("C12.retry.forwards_state_unchanged", [(kw["psi"], psi), (kw["abs_sq_psi"], absq), (kw["mu"], mu), (kw["epsilon"], eps),
                                                               (kw["psi_laplacian"], ops.psi_laplacian)])
            check("C12.retry.forwards_gamma_u", z3.And(sym.eq(kw["gamma"], s.gamma), sym.eq(kw["u"], s.u)))
            # C06: EVERY attempt (the first one and each retried one) is a step of the solver's own psi Laplacian - the operator that carries the
            # pinned rows - applied to the order parameter the caller handed in
            check_same("C06.euler_step.every_attempt_uses_the_operator_with_the_pinned_rows_on_the_callers_psi", [(kw["psi"], psi), (kw["psi_laplacian"], ops.psi_laplacian)])
            G["ncalls"] = G["ncalls"] + 1
            G["last_dt"] = SR.lift(kw["dt"])
            refused = bool(SB(sym.FreshBool("refused")))
            G["last_none"] = refused
            if refused:
                G["last_result"] = None
                return None
            res = (SymArray.fresh("psi_new", psi.shape, "c"), SymArray.fresh("sq_new", psi.shape))
            G["last_result"] = res
            return res
        s.solve_for_psi_squared = stub

        def inv(loc, r):
            dt, result = loc["dt"], loc["result"]
            if dt is loops.UNBOUND or result is loops.UNBOUND:
                return [False]
            c.ax.append(POW(r.e + 1) == POW(r.e) * m.e)               # ghost unfolding of m^r at this index
            g = [SR.lift(dt).e == (dt_in * SR(POW(r.e))).e,            # dt = dt_in * m^r
                 G["ncalls"].e == r.e + 1,                               # one solve per attempt
                 G["last_dt"].e == SR.lift(dt).e,                        # the last attempt used the current dt
                 sym.eq(loc["kwargs"]["dt"], dt),
                 z3.BoolVal((result is None) == bool(G["last_none"])),  # result is the outcome of the last attempt
                 z3.BoolVal(result is G["last_result"]),
                 SR.lift(dt).e > 0, POW(r.e) > 0, POW(r.e) <= 1]
            if not adaptive:
                g.append(r.e == 0)
            else:
                g.append(r.e <= s.options.max_solve_retries.e + 1)
            # the loop may count its attempts in a local of its own (`while result is None: ...; retries += 1`) instead of iterating over a counter:
            # that local is the attempt index
            rt = loc.get("retries", loops.UNBOUND)
            if rt is not loops.UNBOUND and isinstance(rt, (SI, int)) and "retries" in getattr(spec, "assigned", ()):
                g.append(SI.lift(rt).e == r.e)
            return g

        def havoc_heap(hv):
            # frame of the loop: locals dt, result; kwargs['dt']; ghost call log
            r = spec.idx_for_havoc
            kw = spec.entry["kwargs"]
            kw["dt"] = hv["dt"]
            G["ncalls"] = SI(FreshInt("ncalls"))
            G["last_dt"] = SR(FreshReal("last_dt"))
            none = bool(SB(sym.FreshBool("last_refused")))
            G["last_none"] = none
            if none:
                hv["result"] = None
                G["last_result"] = None
            else:
                res = (SymArray.fresh("psi_new", psi.shape, "c"), SymArray.fresh("sq_new", psi.shape))
                hv["result"] = res
                G["last_result"] = res
        spec = loops.LoopSpec("RETRY", inv, havoc_heap=havoc_heap, name="C12.retry_loop")
        spec.idx_for_havoc = None
        V.loops = {"RETRY": spec}
        step = SI(z3.Int("step"))
        try:
            out = s.adaptive_euler_step(step, psi, absq, mu, eps, dt_in)
        except RuntimeError:
            r = spec.idx
            c.ax += [POW(r.e + 1) == POW(r.e) * m.e]
            # raising is allowed only after a refusal, and only when not adaptive or the retries are exhausted
            check("C12.retry_exhaustion.raise_only_after_refusal", z3.BoolVal(bool(G["last_none"])))
            if adaptive:
                check("C12.retry_exhaustion.raise_only_when_exhausted", r.e >= s.options.max_solve_retries.e)
            return
        r = spec.idx
        psi1, sq1, dt_out = out
        # never returns a refused result; returns the result of the answered attempt and the dt THAT attempt used
        check_same("C12.retry_rule.result_is_answered_attempt", [(psi1, G["last_result"][0]), (sq1, G["last_result"][1])] if G["last_result"] is not None else [],
                   also=G["last_result"] is not None)
        check("C12.retry_rule.dt_is_dt_of_answered_attempt", SR.lift(dt_out).e == G["last_dt"].e)
        # C06: whatever attempt is answered, the arrays handed back are that attempt's answer as it is (the pinned-site clause proved on
        # solve_for_psi_squared carries over to every return path only then)
        check_same("C06.euler_step.answer_is_the_answered_attempts_result_on_every_return_path", [(psi1, G["last_result"][0]), (sq1, G["last_result"][1])] if G["last_result"] is not None else [],
                   also=G["last_result"] is not None)
        check("C12.retry_rule.dt_is_dt_in_times_multiplier_pow_refusals", z3.And(SR.lift(dt_out).e == (dt_in * SR(POW(r.e))).e, G["ncalls"].e == r.e + 1))
        check("C12.positive.dt_returned_positive", SR.lift(dt_out).e > 0)
        check("C12.bounded.dt_returned_at_most_dt_in", z3.Implies(z3.And(POW(r.e) <= 1), SR.lift(dt_out).e <= dt_in.e))
        if not adaptive:
            check("C12.fixed_step.no_retry", z3.And(r.e == 0, SR.lift(dt_out).e == dt_in.e))

    def setup(c):
        pass
    # the preservation step needs the unfolding POW(r+1) = POW(r)*m: instantiated when the body multiplies dt
    orig_cut = loops.LoopSpec.cut

    obls, n = explore(body)
    return dict(obls=obls, paths=n, sources=[L.info()], consistent=sym.consistent())


# ----------------------------------------------------------------------------- TDGLSolver.update


class RunningStateStub:
    """append-only observer: any read of its contents is a violation of C11 (update ignores observers)"""

    def __init__(self):
        self.log = []

    def append(self, name, value):
        self.log.append((name, value))

    def __getattr__(self, k):
        raise AssertionError(f"C11: update() reads running_state.{k}")


def arr_eq_at(a, b, idx):
    return sym.eq(a.at(*idx), b.at(*idx))


class RunnerState(dict):
    """the state dictionary the runner hands to update(): step, time, dt - and whatever further bookkeeping the runner keeps there (it is the
    runner's dictionary).  The contract of update() is stated for EVERY such extra entry: a key update() asks for that is not one of the three is
    either absent or holds an arbitrary value (the path forks), so nothing the step promises may depend on it."""
    KNOWN = ("step", "time", "dt")

    def _extra(self, key, default):
        present = bool(SB(sym.FreshBool(f"runner_state_has_{key}")))
        if not present:
            return False, default
        if isinstance(default, bool) or default is None:
            return True, bool(SB(sym.FreshBool(f"runner_state_{key}")))
        return True, SR(sym.FreshReal(f"runner_state_{key}"))

    def get(self, key, default=None):
        if key in self.KNOWN or dict.__contains__(self, key):
            return dict.get(self, key, default)
        return self._extra(key, default)[1]

    def __contains__(self, key):
        if key in self.KNOWN or dict.__contains__(self, key):
            return dict.__contains__(self, key)
        return self._extra(key, None)[0]

    def __getitem__(self, key):
        if key in self.KNOWN or dict.__contains__(self, key):
            return dict.__getitem__(self, key)
        present, v = self._extra(key, None)
        if not present:
            raise KeyError(key)
        return v


def run_update(mutate=None, screening=False, dynamic=False, prefixes=("C",)):
    V = vcm.VC()
    L = load(mutate, V)
    Solver = L["TDGLSolver"]

    def body():
        c = sym.ctx()
        c.record_prefixes = tuple(prefixes)
        R = z3.Real
        N, E = SI(z3.Int("N")), SI(z3.Int("E"))
        assume(N >= 1, E >= 1)
        s = Solver.__new__(Solver)
        adaptive = SB(z3.Bool("adaptive"))
        o = make_options(adaptive, screening)
        s.options = o
        s.xp = _NPU
        s.gamma, s.u = SR(R("gamma")), SR(R("u"))
        s.dynamic_vector_potential = dynamic
        s.dynamic_epsilon = False
        s.epsilon = SymArray.input("epsilon", (N,))
        s.normalized_directions = SymArray.input("ndir", (E, 2))
        s.current_A_applied = SymArray.input("A_applied_prev_ref", (E, 2))
        s.tentative_dt = SR(R("tentative_dt"))
        s.dt_max = SR(R("dt_max"))
        s.d_psi_sq_vals = SymList.input("d_psi_sq_vals")
        has_probes = bool(SB(z3.Bool("has_probes")))
        s.probe_points = SymArray.input("probe_points", (SI(2),), "i") if has_probes else None
        # solver-object invariant (pre): 0 < tentative_dt <= dt_max; without adaptivity tentative_dt == dt_init == dt_max
        assume(s.tentative_dt > 0, s.tentative_dt <= s.dt_max, Implies_(~adaptive, And_(s.tentative_dt == o.dt_init, s.dt_max == o.dt_init)),
               Implies_(adaptive, s.dt_max == o.dt_max))
        LOG = []
        G = dict(link=None)

        class Ops:
            def set_link_exponents(self_, A):
                LOG.append(("set_link", A))
                G["link"] = A

            # class invariant of MeshOperators (C10.*.link_exponents_recorded): the attribute is the potential of the last refresh
            link_exponents = property(lambda self_: G["link"])
        ops = Ops()
        s.operators = ops
        A_ind_in = SymArray.input("A_induced_in", (E, 2))
        if screening:
            # Inv_S with screening: operators hold some previous total potential (irrelevant: refreshed every iteration)
            G["link"] = SymArray.input("link_prev", (E, 2))
        else:
            # Inv_S without screening: operators were last refreshed with self.current_A_applied
            G["link"] = s.current_A_applied
        psi_in = SymArray.input("psi_in", (N,), "c")
        mu_in = SymArray.input("mu_in", (N,))
        js_in = SymArray.input("js_in", (E,))
        jn_in = SymArray.input("jn_in", (E,))
        A_prev = SymArray.input("A_applied_prev", (E, 2)) if dynamic else None
        A_now = SymArray.input("A_applied_now", (E, 2))
        time = SR(R("time"))
        step = SI(z3.Int("step"))
        dt_prev = SR(R("dt_prev"))
        assume(dt_prev > 0, step >= 0)
        state = RunnerState({"step": step, "time": time, "dt": dt_prev})
        rs = RunningStateStub()
        g_e = (SI(FreshInt("ge")), SI(FreshInt("gc")))
        assume(g_e[0] >= 0, g_e[0] < E, g_e[1] >= 0, g_e[1] < 2)
        g_s = (SI(FreshInt("gs")),)
        assume(g_s[0] >= 0, g_s[0] < N)
        c.ghost.setdefault("generic", []).append(g_s)

        def total_A(A_ind):
            cur = A_now if dynamic else s_current_ref[0]
            return (cur + A_ind) if screening else cur
        s_current_ref = [s.current_A_applied]

        def stub_mu_boundary(t):
            LOG.append(("mu_boundary", t))
        s.update_mu_boundary = stub_mu_boundary

        def stub_A(t):
            LOG.append(("A_applied", t))
            return A_now
        s.update_applied_vector_potential = stub_A
        EUL = dict(n=0, last=None, dt=None, absq=None)

        def stub_euler(step_, psi, absq, mu, eps, dt):
            EUL["n"] += 1
            LOG.append(("euler", psi, absq, mu, eps, dt))
            # C10.solver_triggers: the operators in use were refreshed with the latest total vector potential
            want = (A_now if dynamic else s_current_ref[0])
            if screening:
                want = want + G_state["A_ind"]
            check("C10.solver_triggers.operators_hold_latest_potential", arr_eq_at(G["link"], want, g_e), extra=eq_instances(g_e))
            # C02.call_pre: abs_sq_psi == |psi|^2 at every site
            check("C02.call_pre.abs_sq_psi_is_modulus_of_psi", sym.eq(absq.at(*g_s), psi.at(*g_s).abs2()))
            check_same("C02.call_pre.base_state_is_state_at_step_n", [(psi, psi_in), (mu, mu_in), (eps, s.epsilon)])
            check("C12.step.euler_called_with_step", sym.eq(step_, step))
            check("C12.step.dt_passed_positive", SR.lift(dt).e > 0)
            check("C11.update_ignores_observers.step_inputs", z3.BoolVal(not (sym._consts(SR.lift(dt).e) & {"save_every", "progress_interval"})))
            dt_out = SR(FreshReal("dt_used"))
            c.pc.append(z3.And(dt_out.e > 0, dt_out.e <= SR.lift(dt).e, z3.Implies(z3.Not(adaptive.e), dt_out.e == SR.lift(dt).e)))
            res = (SymArray.fresh("psi_new", (N,), "c"), SymArray.fresh("abs_sq_new", (N,)), dt_out)
            EUL.update(last=res, dt=dt_out, dt_in=SR.lift(dt), psi_arg=psi)
            return res
        s.adaptive_euler_step = stub_euler
        OBS = dict(n=0, last=None)

        def stub_obs(psi, dA_dt):
            OBS["n"] += 1
            check("C01.step.mu_boundary_set_for_this_time_before_solve",
                  z3.BoolVal(sum(1 for ev in LOG if ev[0] == "mu_boundary") == 1) if True else None)
            mb = [ev for ev in LOG if ev[0] == "mu_boundary"]
            if mb:
                check("C01.step.mu_boundary_time_is_state_time", sym.eq(mb[0][1], time))
            check_same("C01.step.observables_from_new_psi", [(psi, EUL["last"][0])] if EUL["last"] is not None else [], also=EUL["last"] is not None)
            if dynamic:
                want = ((A_now.at(g_e[0], SI(0)) - A_prev.at(g_e[0], SI(0))) / dt_prev) * s.normalized_directions.at(g_e[0], SI(0)) + \
                       ((A_now.at(g_e[0], SI(1)) - A_prev.at(g_e[0], SI(1))) / dt_prev) * s.normalized_directions.at(g_e[0], SI(1))
                check("C01.step.dA_dt_is_finite_difference_along_edges", sym.eq(dA_dt.at(g_e[0]), want))
            else:
                check("C01.step.dA_dt_zero_for_static_potential", z3.BoolVal(isinstance(dA_dt, float) and dA_dt == 0.0))
            res = (SymArray.fresh("mu_new", (N,)), SymArray.fresh("js_new", (E,)), SymArray.fresh("jn_new", (E,)))
            OBS["last"] = res
            LOG.append(("observables", psi, dA_dt))
            return res
        s.solve_for_observables = stub_obs
        IND = dict(n=0, last=None, err=None)
        G_state = dict(A_ind=A_ind_in)

        def stub_induced(cd, vals, vel):
            IND["n"] += 1
            check("C13.loop.current_density_is_sum_of_last_currents",
                  sym.eq(cd.at(g_e[0]), OBS["last"][1].at(g_e[0]) + OBS["last"][2].at(g_e[0])))
            check_same("C13.loop.polyak_history_starts_from_input_or_last", [(vals[-1], G_state["A_ind"])])
            A_new = SymArray.fresh("A_induced_new", (E, 2))
            err = SR(FreshReal("screening_error"))
            c.pc.append(err.e >= 0)
            vals.append(A_new)
            vel.append(SymArray.fresh("velocity", (E, 2)))
            IND.update(last=A_new, err=err)
            G_state["A_ind"] = A_new
            LOG.append(("induced", A_new, err))
            return A_new, err
        s.get_induced_vector_potential = stub_induced

        # ---- contract of the SCREEN loop (only reached more than once with screening)
        tol = o.screening_tolerance

        def inv(loc, it):
            """head of screening iteration `it`"""
            if it.concrete() == 0 or loc.get("_case") == "first":
                ok = (loc["psi"] is psi_in and loc["mu"] is mu_in and loc["A_induced"] is A_ind_in and EUL["n"] == 0 and OBS["n"] == 0
                      and IND["n"] == 0 and isinstance(loc["screening_error"], float) and loc["screening_error"] == float("inf"))
                return [ok, it.e == 0]
            if not screening:
                return [False]     # without screening the loop never reaches a second iteration
            g = [it.e >= 1,
                 z3.BoolVal(EUL["last"] is not None and OBS["last"] is not None and IND["last"] is not None),
                 z3.BoolVal(loc["psi"] is EUL["last"][0] and loc["abs_sq_psi"] is EUL["last"][1]),
                 z3.BoolVal(loc["mu"] is OBS["last"][0] and loc["supercurrent"] is OBS["last"][1] and loc["normal_current"] is OBS["last"][2]),
                 z3.BoolVal(loc["A_induced"] is IND["last"] and loc["A_induced"] is G_state["A_ind"]),
                 sym.eq(loc["screening_error"], IND["err"]),
                 sym.eq(loc["dt"], EUL["dt"]), SR.lift(loc["dt"]).e > 0, SR.lift(loc["dt"]).e <= s.tentative_dt.e,
                 z3.Implies(z3.Not(adaptive.e), SR.lift(loc["dt"]).e == s.tentative_dt.e),
                 z3.BoolVal(len(loc["A_induced_vals"]) >= 1 and loc["A_induced_vals"][-1] is loc["A_induced"]),
                 it.e <= o.max_iterations_per_step.e + 1]
            return g

        def havoc_heap(hv, it):
            # the state at the head of iteration `it`: either the entry state (it == 0) or an arbitrary state satisfying
            # the invariant at it >= 1 (fresh results of the three callees)
            first = (not screening) or bool(SB(it.e == 0))
            if first:
                for k_, v_ in spec.entry.items():
                    hv[k_] = v_
                hv["_case"] = "first"
                return
            e_res = (SymArray.fresh("psi_h", (N,), "c"), SymArray.fresh("abs_sq_h", (N,)), SR(FreshReal("dt_h")))
            o_res = (SymArray.fresh("mu_h", (N,)), SymArray.fresh("js_h", (E,)), SymArray.fresh("jn_h", (E,)))
            A_h = SymArray.fresh("A_induced_h", (E, 2))
            err = SR(FreshReal("err_h"))
            c.pc.append(err.e >= 0)
            EUL.update(n=1, last=e_res, dt=e_res[2])
            OBS.update(n=1, last=o_res)
            IND.update(n=1, last=A_h, err=err)
            G_state["A_ind"] = A_h
            hv.update(psi=e_res[0], abs_sq_psi=e_res[1], dt=e_res[2], mu=o_res[0], supercurrent=o_res[1], normal_current=o_res[2],
                      A_induced=A_h, screening_error=err)
            vals = spec.entry["A_induced_vals"]
            vals.append(A_h)
            G["link"] = SymArray.fresh("link_h", (E, 2))
        spec = loops.LoopSpec("SCREEN", inv, havoc_heap=havoc_heap, name="C13.screening_loop")

        def cut2(vc_, label, it, getters, _orig=spec.cut):
            return _orig(vc_, label, it, getters)
        V.loops = {"SCREEN": spec}
        kwargs = dict(psi=psi_in, mu=mu_in, supercurrent=js_in, normal_current=jn_in, induced_vector_potential=A_ind_in)
        if dynamic:
            kwargs["applied_vector_potential"] = A_prev
        len0 = s.d_psi_sq_vals.length
        tent0 = s.tentative_dt
        pc0 = len(c.pc)
        try:
            res = s.update(state, rs, dt_prev, **kwargs)
        except RuntimeError:
            it = spec.idx
            check("C13.nonconvergence.raises_only_with_screening", z3.BoolVal(screening))
            if screening and IND["err"] is not None:
                check("C13.nonconvergence.raises_only_when_not_converged_and_budget_exhausted",
                      z3.And(IND["err"].e >= tol.e, it.e > o.max_iterations_per_step.e))
            return
        # ---------------- normal return
        check("C11.result_shape", z3.BoolVal((res[6] is not None) == dynamic and res[7] is None))
        dt_out, psi_out, mu_out, js_out, jn_out, A_out = res[:6]
        check_same("C01.step.returns_last_observables", [(mu_out, OBS["last"][0]), (js_out, OBS["last"][1]), (jn_out, OBS["last"][2])] if OBS["last"] is not None else [],
                   also=OBS["last"] is not None)
        check_same("C01.step.returns_psi_of_last_euler_step", [(psi_out, EUL["last"][0])])
        check("C01.step.mu_boundary_updated_exactly_once", z3.BoolVal(sum(1 for ev in LOG if ev[0] == "mu_boundary") == 1))
        check("C12.step.dt_returned_is_dt_used_by_last_euler_step", sym.eq(dt_out, EUL["dt"]))
        check("C12.positive_bounded.dt_in_0_dtmax", z3.And(SR.lift(dt_out).e > 0, SR.lift(dt_out).e <= s.dt_max.e))
        check("C12.fixed_step.dt_equals_dt_init", z3.Implies(z3.Not(adaptive.e), SR.lift(dt_out).e == o.dt_init.e))
        dts = [v for (n_, v) in rs.log if n_ == "dt"]
        check("C05.record.dt_recorded_once_and_is_dt_used", z3.And(z3.BoolVal(len(dts) == 1), sym.eq(dts[0], dt_out) if dts else z3.BoolVal(False)))
        if screening:
            check("C13.exit_only_converged", z3.And(IND["err"].e < tol.e) if IND["err"] is not None else z3.BoolVal(False))
            check_same("C13.returns_last_iterate", [(A_out, IND["last"])])
            its = [v for (n_, v) in rs.log if n_ == "screening_iterations"]
            check("C05.record.screening_iterations_recorded_once", z3.BoolVal(len(its) == 1))
        else:
            check_same("C13.off_returns_input_potential", [(A_out, A_ind_in)], also=IND["n"] == 0)
            check("C13.off_single_pass", z3.BoolVal(EUL["n"] == 1 and OBS["n"] == 1))
        if has_probes:
            names = [n_ for (n_, v) in rs.log]
            check("C05.record.probes_recorded_once", z3.BoolVal(names.count("mu") == 1 and names.count("theta") == 1))
        # ---- window rule (C12)
        wnd = o.adaptive_window
        L_ = s.d_psi_sq_vals
        new_t = s.tentative_dt
        check("C12.window.history_grows_by_one_iff_adaptive", L_.length.e == z3.If(adaptive.e, len0.e + 1, len0.e))
        slices = [ev for ev in L_.log if ev[0] == "slice"]
        appends = [ev for ev in L_.log if ev[0] == "append"]
        delta_n = None
        if appends:
            check("C12.window.appended_value_is_max_change_of_abs_sq", z3.BoolVal(len(appends) == 1))
            mx = c.ghost.get("max", [])
            if mx:
                m_, a_, w_ = mx[-1]
                # the appended value is max_i | |psi'|^2_i - |psi_n|^2_i |
                d_at = lambda i: abs(EUL["last"][1].at(i) - psi_in.at(i).abs2())
                check("C12.window.delta_is_max_abs_change", z3.And(sym.eq(appends[0][1], m_), SR.lift(a_.at(*g_s)).e == SR.lift(d_at(g_s[0])).e,
                                                                  SR.lift(a_.at(*w_)).e == SR.lift(d_at(w_[0])).e))
        if slices:
            a_, b_ = slices[-1][1], slices[-1][2]
            check("C12.window.slice_is_last_window_entries", z3.Implies(L_.length.e >= wnd.e, z3.And(a_.e == L_.length.e - wnd.e, b_.e == L_.length.e)))
            from pyvc.arr import list_sum, SymListView
            mean = list_sum(SymListView(L_, a_, b_)) / SR.lift(b_ - a_)
            cand = 0.5 * (o.dt_init / sym.ite(mean.e >= z3.RealVal("1/10000000000"), mean, SR(1e-10)) + SR.lift(dt_out))
            rule = sym.ite(cand.e <= s.dt_max.e, cand, s.dt_max)
            check("C12.window_rule.only_after_warm_up", step.e > wnd.e)
            check("C12.window_rule.tentative_dt_is_min_half_sum_dt_max", z3.Implies(z3.And(L_.length.e >= wnd.e, cand.e >= 0), SR.lift(new_t).e == rule.e))
        else:
            check("C12.window_rule.unchanged_before_warm_up_or_fixed", z3.And(sym.eq(new_t, tent0), z3.Or(z3.Not(adaptive.e), step.e <= wnd.e)))
        check("C12.positive_bounded.tentative_dt_stays_in_0_dtmax",
              z3.Implies(z3.BoolVal(True), z3.And(SR.lift(new_t).e <= s.dt_max.e, SR.lift(new_t).e >= 0)))
        # ---- C11: observers do not influence the result
        obs_names = {"save_every", "progress_interval"}
        used = set()
        for v in (dt_out, new_t):
            used |= sym._consts(SR.lift(v).e)
        check("C11.update_ignores_observers", z3.BoolVal(not (used & obs_names)))
        # no implicit flow either: no branch taken inside update() tests an observer setting
        ctl = set()
        for cond in c.pc[pc0:]:
            ctl |= sym._consts(cond)
        check("C11.update_ignores_observers.no_branch_on_observers", z3.BoolVal(not (ctl & obs_names)))
        writes = [w for w in c.ghost.get("writes", []) if any(w[0] is x for x in (psi_in, mu_in, js_in, jn_in, A_ind_in, A_prev, s.epsilon))]
        check("C11.no_aliasing.inputs_not_mutated", z3.BoolVal(not writes))
        outs = [x for x in res[1:6]]
        check("C11.no_aliasing.outputs_are_fresh_or_inputs", z3.BoolVal(all((x is A_ind_in) or not any(x is y for y in (psi_in, mu_in, js_in, jn_in)) for x in outs)))
        if dynamic:
            check_same("C10.reference_potential_advanced", [(s.current_A_applied, A_now), (res[6], A_now)])

    obls, n = explore(body)
    return dict(obls=obls, paths=n, sources=[L.info()], consistent=sym.consistent())


def Implies_(a, b):
    return sym.Implies(a, b)


def And_(*xs):
    return sym.And(*xs)
