"""numba kernels (screening, Biot-Savart, distances) executed as their Python source (T1) with every loop cut by a
mechanically generated invariant (pyvc.autoloops).  Shared by C13, C20, C09."""
import z3

from pyvc import sym, instrument, vc as vcm, loops, autoloops
from pyvc.arr import SymArray
from pyvc.models.npmodel import NP, BUILTINS
from pyvc.sym import SB, SC, SI, SR, check, assume, explore


class NumbaModel:
    prange = staticmethod(loops.model_range)

    @staticmethod
    def njit(*a, **k):
        return lambda f: f


def load(modname, cut_loops, mutate=None, the_vc=None):
    mut = [(o, n) for (m, o, n) in (mutate or []) if m == modname]
    rebind = {"np": NP, "numba": NumbaModel, "range": loops.model_range, "cupy": None, "cupyx": None}
    rebind.update(BUILTINS)
    return instrument.load(modname, rebind=rebind, cut_loops=cut_loops, mutate=mut, vc=the_vc)


def run_kernel(modname, fname, loopkinds, make_args, post, mutate=None, prefix="C09", record=None):
    """loopkinds: list like ['map', 'map', 'sum'] in source order"""
    V = vcm.VC()
    cut = {fname: {n + 1: f"{fname}.L{n + 1}" for n in range(len(loopkinds))}}
    L = load(modname, cut, mutate, V)
    autoloops.reset()

    def body():
        c = sym.ctx()
        c.uf_math = True
        c.kernel_prefix = prefix
        if record:
            c.record_prefixes = tuple(record)
        specs = {}
        for n, kind in enumerate(loopkinds):
            lab = f"{fname}.L{n + 1}"
            specs[lab] = (autoloops.MapLoop if kind == "map" else autoloops.SumLoop)(lab, name=f"{prefix}.loop.{fname}.L{n + 1}")
        V.loops = specs
        args = make_args()
        res = L[fname](*args)
        post(args, res, specs)
    obls, n = explore(body)
    return dict(obls=obls, paths=n, sources=[L.info()], consistent=sym.consistent())


def summand_at(info, **subst):
    """the recorded summand with loop constants replaced (by name) by the given z3 terms"""
    term = info["summand"]
    pairs = []
    for x in [info["j"]] + list(info["free"]):
        nm = x.decl().name()
        if nm in subst:
            pairs.append((x, subst[nm]))
    return z3.substitute(term, *pairs) if pairs else term


def independent_of_uninitialised(term):
    """z3 goal: the term does not depend on the contents of any np.empty buffer (every element read was assigned before)"""
    apps = []
    seen = set()
    todo = [term]
    while todo:
        t = todo.pop()
        if t.get_id() in seen:
            continue
        seen.add(t.get_id())
        if z3.is_app(t):
            if t.decl().kind() == z3.Z3_OP_UNINTERPRETED and t.decl().name().startswith("empty!") and t.num_args() > 0:
                apps.append(t)
            todo.extend(t.children())
    if not apps:
        return z3.BoolVal(True)
    other = z3.substitute(term, *[(a, sym.FreshReal("garbage")) for a in apps])
    return term == other
