"""native (concrete, double precision) differential harness for the finite-volume operators: the REAL builders and the
REAL MeshOperators.set_link_exponents on small random Delaunay meshes against dense reference matrices written from
the docs formulas.  Used (a) as the replay harness of C03/C06/C10 obligations (a failed obligation about the generic
mesh is replayed by searching this small seeded library of concrete meshes) and (b) as the BOUNDED stand-in of the
thorough tier.  Never counted as proved."""
import logging
import os

os.environ.setdefault("TQDM_DISABLE", "1")
import numpy as np


def _quiet():
    logging.disable(logging.CRITICAL)


def random_mesh(rng, n=None, scale=1.0):
    """scale: the same triangulation stated in another length unit (Mesh.from_triangulation takes coordinates in any unit: metres, nm, ...)"""
    from tdgl.finite_volume.mesh import Mesh
    from scipy.spatial import Delaunay
    _quiet()
    n = n or int(rng.integers(8, 30))
    pts = rng.uniform(0, 1, size=(n, 2)) * np.array([rng.uniform(0.5, 3), rng.uniform(0.5, 3)])
    tri = Delaunay(pts)
    return Mesh.from_triangulation(pts * scale, tri.simplices, create_submesh=True)


def dense_specs(mesh, A=None, fixed=None):
    """reference matrices from docs/background.rst (gradient, divergence, laplacian, grad-psi, laplacian-psi)"""
    em = mesh.edge_mesh
    N, E = len(mesh.sites), len(em.edges)
    a = mesh.areas
    D = np.zeros((N, E))
    G = np.zeros((E, N), dtype=complex)
    Lp = np.zeros((N, N), dtype=complex)
    fixed = set(int(x) for x in (fixed if fixed is not None else []))
    for e, (i, j) in enumerate(em.edges):
        s, l = em.dual_edge_lengths[e], em.edge_lengths[e]
        U = np.exp(-1j * np.dot(A[e], em.directions[e])) if A is not None else 1.0
        D[i, e] += s / a[i]
        D[j, e] -= s / a[j]
        G[e, j] += U / l
        G[e, i] -= 1 / l
        if i not in fixed:
            Lp[i, j] += s / l * U / a[i]
            Lp[i, i] -= s / l / a[i]
        if j not in fixed:
            Lp[j, i] += s / l * np.conj(U) / a[j]
            Lp[j, j] -= s / l / a[j]
    for f in fixed:
        Lp[f, f] += 1
    Bm = np.zeros((N, len(em.boundary_edge_indices)))
    for b, e in enumerate(em.boundary_edge_indices):
        i, j = em.edges[e]
        Bm[i, b] += em.edge_lengths[e] / (2 * a[i])
        Bm[j, b] += em.edge_lengths[e] / (2 * a[j])
    return D, G, Lp, Bm


def search(seed=0, trials=40, tol=1e-9):
    """-> list of failing inputs (dicts); empty when the real code agrees with the reference on every trial"""
    import tdgl.finite_volume.operators as ops
    from tdgl.finite_volume.operators import MeshOperators
    rng = np.random.default_rng(seed)
    bad = []
    n_cmp = 0
    for t in range(trials):
        scale = (1.0, 1.0, 1e-9, 1e6, 1e-4)[t % 5]          # coordinates in units of order one, and the same kind of mesh in metres / nm / ...
        mesh = random_mesh(rng, scale=scale)
        E = len(mesh.edge_mesh.edges)
        N = len(mesh.sites)

        def cmp(name, got, want, info):
            nonlocal n_cmp
            n_cmp += 1
            got = got.toarray() if hasattr(got, "toarray") else np.asarray(got)
            err = np.abs(got - want).max() / ((1 if scale == 1.0 else 0) + np.abs(want).max() + 1e-300)
            if not err < tol:
                bad.append(dict(what=name, trial=t, seed=seed, n_sites=N, n_edges=E, length_scale_of_the_coordinates=scale, max_rel_err=float(err), **info))
        A = rng.normal(size=(E, 2)) * rng.choice([0, 0.3, 3]) / scale
        nfix = int(rng.integers(0, max(1, N // 3)))
        fixed = rng.choice(N, size=nfix, replace=False).astype(np.int64)
        D, G, _, Bm = dense_specs(mesh)
        cmp("build_divergence", ops.build_divergence(mesh), D, {})
        cmp("build_gradient[scalar]", ops.build_gradient(mesh), G, {})
        cmp("build_neumann_boundary_laplacian", ops.build_neumann_boundary_laplacian(mesh), Bm, {})
        _, GA, LA, _ = dense_specs(mesh, A)
        cmp("build_gradient[covariant]", ops.build_gradient(mesh, link_exponents=A), GA, {})
        cmp("build_laplacian[scalar]", ops.build_laplacian(mesh)[0], dense_specs(mesh)[2], {})
        cmp("build_laplacian[covariant_free]", ops.build_laplacian(mesh, link_exponents=A)[0], LA, {})
        cmp("build_laplacian[covariant_pinned]", ops.build_laplacian(mesh, link_exponents=A, fixed_sites=fixed)[0],
            dense_specs(mesh, A, fixed)[2], dict(fixed=fixed.tolist()))
        if t == 0:
            import tdgl as _t
            from tdgl.geometry import box as _box
            _d = _t.Device('d', layer=_t.Layer(coherence_length=1.0, london_lambda=1, thickness=0.1), film=_t.Polygon('film', points=_box(4, 2)), length_units='um')
            _d.make_mesh(max_edge_length=0.6, smooth=0)
            mesh0, mesh = mesh, _d.mesh
            # Mesh.smooth returns a new mesh; the mesh it was called on (and meshes smoothed earlier) keep their geometry, so operators built
            # from them stay exact on linear functions
            keep = mesh.sites.copy()
            sm1 = mesh.smooth(2)
            sm1_sites = sm1.sites.copy()
            sm2 = mesh.smooth(4)
            n_cmp += 1
            if not np.array_equal(mesh.sites, keep) or not np.array_equal(sm1.sites, sm1_sites):
                bad.append(dict(what="Mesh.smooth modified the mesh it was called on / a mesh returned earlier", trial=t,
                                max_site_displacement=float(max(np.abs(mesh.sites - keep).max(), np.abs(sm1.sites - sm1_sites).max()))))
            for mm_ in (mesh, sm1, sm2):
                Gm = ops.build_gradient(mm_)
                lin = mm_.sites @ np.array([0.3, -1.1]) + 0.7
                dirs = mm_.edge_mesh.directions
                want = (dirs @ np.array([0.3, -1.1])) / mm_.edge_mesh.edge_lengths ** 1
                n_cmp += 1
                got = np.real(Gm @ lin)
                if not np.allclose(got * mm_.edge_mesh.edge_lengths, dirs @ np.array([0.3, -1.1]), atol=1e-9):
                    bad.append(dict(what="gradient is not exact on a linear function (mesh geometry stale after smoothing)", trial=t,
                                    max_err=float(np.abs(got * mm_.edge_mesh.edge_lengths - dirs @ np.array([0.3, -1.1])).max())))
                    break
            mesh = mesh0
        if t < 6:
            from tdgl.solver.options import SparseSolver
            for solver in (SparseSolver.SUPERLU, SparseSolver.PARDISO, SparseSolver.UMFPACK):
                try:
                    mo = MeshOperators(mesh, solver, fixed_sites=(fixed if solver is SparseSolver.SUPERLU and len(fixed) else None), fix_psi=bool(solver is SparseSolver.SUPERLU and len(fixed)))
                    mo.build_operators()
                except Exception:       # optional back end not installed: the branch cannot run here
                    continue
                Ds, Gs0, Ls0, Bs = dense_specs(mesh)
                cmp(f"build_operators.mu_laplacian[{solver.name}]", mo.mu_laplacian, Ls0, {})
                cmp(f"build_operators.mu_gradient[{solver.name}]", mo.mu_gradient, Gs0, {})
                cmp(f"build_operators.divergence[{solver.name}]", mo.divergence, Ds, {})
                cmp(f"build_operators.mu_boundary_laplacian[{solver.name}]", mo.mu_boundary_laplacian, Bs, {})
                if mo.mu_laplacian_lu is not None:
                    rhs = Ls0.real @ rng.normal(size=N)
                    x = mo.mu_laplacian_lu(rhs)
                    n_cmp += 1
                    res = np.abs(Ls0.real @ x - rhs).max() / ((1 if scale == 1.0 else 0) + np.abs(rhs).max() + 1e-300)
                    if not res < 1e-6:
                        bad.append(dict(what=f"build_operators.factorisation_solves_the_scalar_laplacian[{solver.name}]", trial=t, residual=float(res)))
        for fix_psi in (True, False):
            mo = MeshOperators(mesh, None, fixed_sites=fixed, fix_psi=fix_psi)
            seq = []
            for c in range(int(rng.integers(1, 6))):
                kind = rng.choice(["rand", "zero", "repeat", "small", "partial", "partial"])
                if kind == "partial" and seq:
                    # the potential changes on SOME edges only (a localised source switched on, a vortex far away): a random subset, a contiguous block
                    Ac = seq[-1].copy()
                    sel = (rng.random(E) < 0.3) if rng.random() < 0.5 else (np.arange(E) < int(rng.integers(1, E)))
                    Ac[sel] += rng.normal(size=(int(sel.sum()), 2)) / scale
                elif kind == "zero":
                    Ac = np.zeros((E, 2))
                elif kind == "repeat" and seq:
                    Ac = seq[-1].copy()
                elif kind == "small":
                    Ac = (seq[-1] if seq else np.zeros((E, 2))) + 1e-3 * rng.normal(size=(E, 2)) / scale
                else:
                    Ac = rng.normal(size=(E, 2)) * 2 / scale
                seq.append(Ac)
                mo.set_link_exponents(Ac)
                _, Gs, Ls, _ = dense_specs(mesh, Ac, fixed if fix_psi else None)
                info = dict(call=c, fix_psi=fix_psi, fixed=fixed.tolist(), history=[k for k in range(len(seq))])
                cmp("set_link_exponents.gradient", mo.psi_gradient, Gs, info)
                cmp("set_link_exponents.laplacian", mo.psi_laplacian, Ls, info)
    # short-lived meshes that share one triangulation but not their geometry (a parameter sweep re-meshes and drops devices all the time): each must
    # get ITS operators - the builders' results are functions of their arguments alone, whatever was built before and wherever the mesh object lives
    from tdgl.finite_volume.mesh import Mesh as _Mesh
    base = random_mesh(rng, n=60)
    for q in range(24):
        fac = (1.0 + 0.37 * q) * (1e-3 if q % 3 == 2 else 1.0)
        m_q = _Mesh.from_triangulation(base.sites * fac, base.elements)
        D_q, G_q, L_q, _ = dense_specs(m_q)
        n_cmp += 3
        for name, got, want in (("build_gradient[scalar]", ops.build_gradient(m_q), G_q), ("build_divergence", ops.build_divergence(m_q), D_q),
                                ("build_laplacian[scalar]", ops.build_laplacian(m_q)[0], L_q)):
            got = got.toarray()
            err = np.abs(got - want).max() / (np.abs(want).max() + 1e-300)
            if not err < tol:
                bad.append(dict(what=name + " on a mesh built after other meshes of the same triangulation were built and dropped: operators of an EARLIER mesh are returned",
                                mesh_number=q, n_sites=len(m_q.sites), max_rel_err=float(err)))
        del m_q, D_q, G_q, L_q
    return bad, n_cmp


def replay_any(unit, obl, seed=0):
    bad, n = search(seed=seed, trials=25)
    import tdgl
    if bad:
        return dict(confirmed=True, note="obligation about the generic mesh: failing input found in the seeded library of small concrete meshes "
                    "(real builders vs dense reference from the docs)", failing_input=bad[0], n_failing=len(bad), comparisons=n, tdgl_file=tdgl.__file__)
    return dict(confirmed=False, comparisons=n, note="no concrete mesh in the seeded library reproduces the failure", tdgl_file=tdgl.__file__)


def bounded(seed=0, trials=60):
    bad, n = search(seed=seed, trials=trials)
    out = dict(kind="bounded", evaluations=n, failing=len(bad), bound=f"{trials} random Delaunay meshes of 8..30 sites, 1..5 refreshes each, seed {seed}",
               samples=bad[:3])
    if bad:
        out["broken"] = [f"native differential run disagrees with the proved stencil contracts: {bad[0]}"]
    return out
