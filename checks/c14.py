"""C14 -- saved devices, meshes, solutions and parameters load back unchanged.

h5py is replaced by an abstract store (pyvc/models/fsmodel.py: groups = maps, attrs, datasets copy on write, None not
storable, Empty = value-less attribute); the REAL save/load code runs on it with symbolic field values / arrays, so a
round trip is proved for arbitrary contents, and for every combination of optional fields by enumeration of the
presence pattern.  Polygon / Device round trips go through shapely and real h5py: bounded native run only."""
import dataclasses
import itertools

import z3

from pyvc import sym, instrument, vc as vcm
from pyvc.arr import SymArray, check_same
from pyvc.harness import Unit
from pyvc import harness as _h
from pyvc.models import fsmodel
from pyvc.models.npmodel import NP, BUILTINS
from pyvc.sym import SB, SI, SR, check, explore

PROPERTY = "C14"
LEVEL = "proof"
TRUSTED = ["abstract HDF5 store (fsmodel): what is stored is what is read back; None is not storable; h5py.Empty is a value-less attribute",
           "pickle / cloudpickle (real)", "Device / Polygon (de)serialisation under contract over the abstract store with stand-ins for the components' own "
           "round trips; what the Polygon constructor (shapely: orientation, validity) makes of the stored vertices: bounded native run only",
           "h5py iterates the members of a group in name order (model)"]
ASSUMPTIONS = ["arrays are opaque symbolic arrays: a round trip is 'the object read back is the object stored' (identity of the array term)",
               "frames: the real writer (save_fixed_values / save_time_step) followed by the real frame reader (TDGLData.from_hdf5, load_state_data) over the abstract store, "
               "symbolic array sizes, fixed or per-frame applied potential / epsilon: every field read back for frame f is what the f-th call was handed",
               "mesh_restore_equals_recompute is covered only by the bounded native run"]
EXPLANATION = "round-trip contracts of the real to_hdf5/from_hdf5 pairs over an abstract store with symbolic contents; options incl. None; parameters via pickling (C16)"
SOL = "tdgl.solution.solution"


class NPS(NP):
    """numpy model for storage code: array constructors are the identity on stored values"""

    @staticmethod
    def array(x, dtype=None):
        import numpy as _np
        if isinstance(x, fsmodel.Dataset):
            return x.value
        if isinstance(x, (SymArray,)):
            return x
        return _np.array(x, dtype=dtype)

    @staticmethod
    def asarray(x, dtype=None):
        return NPS.array(x, dtype)

    @staticmethod
    def cumsum(x):
        import numpy as _np
        return _np.cumsum(x)

    @staticmethod
    def concatenate(xs, axis=0, dtype=None):
        import numpy as _np
        if all(isinstance(a, _np.ndarray) for a in xs):
            return _np.concatenate(xs, axis=axis)
        return NP.concatenate(xs)

    @staticmethod
    def split(a, idx):
        import numpy as _np
        return _np.split(a, idx)

    class linalg:
        @staticmethod
        def norm(a, axis=None):
            return SymArray.fresh("norm", a.shape[:1])


def run_options(mutate=None):
    """every field of SolverOptions, every special value including None: reloaded == saved (real Solution save/load code)"""
    mut = [(o, n) for (m, o, n) in (mutate or []) if m == SOL]
    fs = fsmodel.FS()
    L = instrument.load(SOL, rebind={"h5py": fsmodel.H5(fs)}, mutate=mut, vc=vcm.VC())
    from tdgl.solver.options import SolverOptions, SparseSolver

    def body():
        import datetime
        Real = L["Solution"]
        specials = {
            "terminal_psi": [None, 0.0, 0.5, 1.0, 0.3 + 0.4j], "output_file": [None, "run.h5"], "progress_interval": [None, 0, 7],
            "adaptive": [False, True], "pause_on_interrupt": [False, True], "include_screening": [False, True], "monitor": [False],
            "adaptive_window": [1, 10], "max_solve_retries": [0, 10], "max_iterations_per_step": [0, 1000], "monitor_update_interval": [0.0, 1.0],
            "skip_time": [0.0, 2.5], "save_every": [1, 100], "dt_init": [1e-6, 1e-3], "dt_max": [1e-1, 1e-3], "solve_time": [0.0, 10.0],
            "adaptive_time_step_multiplier": [0.25, 0.5], "screening_tolerance": [1e-3], "screening_step_size": [0.1], "screening_step_drag": [0.5, 1.0],
            "field_units": ["mT", "uT"], "current_units": ["uA", "mA"], "sparse_solver": [SparseSolver.SUPERLU], "gpu": [False],
        }
        names = [f.name for f in dataclasses.fields(SolverOptions)]
        check("C14.options.every_field_is_exercised", z3.BoolVal(set(names) <= set(specials)), note=str(set(names) - set(specials)))
        cases = [dict()]
        for nm, vals in specials.items():
            for v in vals:
                cases.append({nm: v})
        cases.append(dict(terminal_psi=None, output_file=None, progress_interval=None, adaptive=False, pause_on_interrupt=False, max_solve_retries=0))
        for case in cases:
            kw = dict(solve_time=1.0)
            kw.update(case)
            if "dt_max" in kw and kw["dt_max"] < 1e-6:
                kw["dt_init"] = kw["dt_max"]
            if kw.get("dt_init", 1e-6) > kw.get("dt_max", 1e-1):
                kw["dt_max"] = kw["dt_init"]
            opts = SolverOptions(**kw)
            tag = ",".join(f"{k}={v}" for k, v in case.items()) or "defaults"
            f = fsmodel.File(fs, "/cwd/sol.h5", "w")
            fs.existing.add("/cwd/sol.h5")
            fs.files["/cwd/sol.h5"] = f
            s = Real.__new__(Real)
            s.options = opts
            s._version_info = {"tdgl": "x"}
            s._time_created = datetime.datetime(2024, 1, 2, 3, 4, 5)
            s._current_units, s._field_units = opts.current_units, opts.field_units
            s.applied_vector_potential, s.terminal_currents, s.disorder_epsilon = 0.1, 2.5, 1.0
            s.total_seconds = 1.5
            saved_dev = []
            s.device = type("Dev", (), {"to_hdf5": lambda self_, g, save_mesh=True: saved_dev.append(g)})()
            try:
                s._save_to_hdf5_file(f, save_tdgl_data=False)
            except Exception as e:
                check(f"C14.options.save_raises_nothing[{tag}]", False, note=f"{type(e).__name__}: {e}")
                continue
            got = {}

            class SolStub:
                def __init__(self_, **k):
                    got.update(k)
            L.ns["Solution"] = SolStub
            L.ns["Device"] = type("DevL", (), {"from_hdf5": staticmethod(lambda g: "DEVICE")})
            try:
                Real.from_hdf5("/cwd/sol.h5")
            except Exception as e:
                check(f"C14.options.load_raises_nothing[{tag}]", False, note=f"{type(e).__name__}: {e}")
                continue
            finally:
                L.ns["Solution"] = Real
            lo = got.get("options")
            diffs = [nm for nm in names if getattr(lo, nm, "<missing>") != getattr(opts, nm)
                     or type(getattr(lo, nm, None)) is not type(getattr(opts, nm))] if lo is not None else ["<no options>"]
            # numpy scalar types from h5py would still compare equal; the model stores python values, so types must agree except for enum round trip
            diffs = [d for d in diffs if not (d == "sparse_solver" and getattr(lo, d) == getattr(opts, d))]
            check(f"C14.options.reloaded_equals_saved[{tag}]", z3.BoolVal(not diffs), note=f"fields that differ: {[(d, getattr(opts, d), getattr(lo, d, None)) for d in diffs]}")
            check(f"C14.solution_attrs_round_trip[{tag}]", z3.BoolVal(got.get("applied_vector_potential") == 0.1 and got.get("terminal_currents") == 2.5
                                                                       and got.get("disorder_epsilon") == 1.0 and got.get("total_seconds") == 1.5 and got.get("device") == "DEVICE"))
    obls, n = explore(body)
    return dict(obls=obls, paths=n, sources=[L.info()], consistent=True)


def run_solve_step(mutate=None, prefixes=("C14.",)):
    """Solution(..., _solve_step=k) / from_hdf5(path, solve_step=k) load the data of step k (0 -> first, negative -> from the end)"""
    mut = [(o, n) for (m, o, n) in (mutate or []) if m == SOL]
    fs = fsmodel.FS()
    L = instrument.load(SOL, rebind={"h5py": fsmodel.H5(fs)}, mutate=mut, vc=vcm.VC())

    def body():
        sym.ctx().record_prefixes = tuple(prefixes)
        Real = L["Solution"]
        from tdgl.solver.options import SolverOptions
        k = SI(z3.Int("solve_step"))
        smin, smax = SI(z3.Int("step_min")), SI(z3.Int("step_max"))
        sym.assume(smin >= 0, smax >= smin)
        calls = []
        real_load = Real.load_tdgl_data
        Real.load_tdgl_data = lambda self_, solve_step=-1, h5file=None: calls.append(solve_step)
        try:
            dev = type("Dev", (), {"copy": lambda self_: type("D2", (), {})(), "mesh": "MESH"})()
            Real(device=dev, options=SolverOptions(solve_time=1.0), path="/cwd/s.h5", applied_vector_potential=0.0, terminal_currents=None,
                 disorder_epsilon=1.0, total_seconds=0.0, _solve_step=k)
        finally:
            Real.load_tdgl_data = real_load
        check("C14.solve_step.constructor_loads_the_requested_step", z3.BoolVal(len(calls) == 1) if len(calls) != 1 else sym.eq(calls[0], k))
        # load_tdgl_data: which stored step is read
        got = {}
        f = fsmodel.File(fs, "/cwd/s.h5", "r")
        L.ns["get_data_range"] = lambda h: (smin, smax)
        L.ns["TDGLData"] = type("T", (), {"from_hdf5": staticmethod(lambda h, step: got.update(step=step) or type("TD", (), {"supercurrent": "JS", "normal_current": "JN"})())})
        L.ns["DynamicsData"] = type("Dy", (), {"from_hdf5": staticmethod(lambda h, a, b: got.update(rng=(a, b)) or "DYN")})
        L.ns["get_edge_quantity_data"] = lambda q, mesh: ("N", "D", None)

        class Q:
            def to(self_, u):
                return self_

            def __mul__(self_, o):
                return self_
            __rmul__ = __mul__
        s = Real.__new__(Real)
        s.path = "/cwd/s.h5"
        s.device = type("Dev", (), {"mesh": "MESH", "K0": Q(), "length_units": "um"})()
        s._current_units = "uA"

        class Idx:
            def __getitem__(self_, key):
                return Q()
        L.ns["np"] = type("NPn", (), {"newaxis": None})
        orig_geq = L.ns["get_edge_quantity_data"]
        L.ns["get_edge_quantity_data"] = lambda q, mesh: (Idx(), Q(), None)
        s.load_tdgl_data(k, h5file=f)
        want = sym.ite(k.e == 0, smin, sym.ite(k.e < 0, smax + 1 + k, k))
        check("C14.solve_step.step_loaded_is_the_requested_one", z3.And(sym.eq(got["step"], want), sym.eq(s._solve_step, want)))
        check("C14.solve_step.dynamics_over_the_full_range", z3.And(sym.eq(got["rng"][0], smin), sym.eq(got["rng"][1], smax)))
        check("C05.reader.records_read_over_all_frames_whatever_frame_is_loaded", z3.And(sym.eq(got["rng"][0], smin), sym.eq(got["rng"][1], smax)))
    obls, n = explore(body)
    return dict(obls=obls, paths=n, sources=[L.info()], consistent=True)


def run_layer(mutate=None):
    mut = [(o, n) for (m, o, n) in (mutate or []) if m == "tdgl.device.layer"]
    fs = fsmodel.FS()
    L = instrument.load("tdgl.device.layer", rebind={"h5py": fsmodel.H5(fs)}, mutate=mut, vc=vcm.VC())

    def body():
        Layer = L["Layer"]
        R = z3.Real
        for has_sigma in (False, True):
            lay = Layer(london_lambda=SR(R("lam")), coherence_length=SR(R("xi")), thickness=SR(R("d")), conductivity=SR(R("sigma")) if has_sigma else None,
                        u=SR(R("u")), gamma=SR(R("gamma")), z0=SR(R("z0")))
            g = fsmodel.Group(fs)
            lay.to_hdf5(g)
            back = Layer.from_hdf5(g)
            for nm in ("london_lambda", "coherence_length", "thickness", "u", "gamma", "z0"):
                check(f"C14.layer.{nm}[conductivity={'set' if has_sigma else 'None'}]", sym.eq(getattr(back, nm), getattr(lay, nm)))
            check(f"C14.layer.conductivity[{'set' if has_sigma else 'None'}]",
                  sym.eq(back.conductivity, lay.conductivity) if has_sigma else z3.BoolVal(back.conductivity is None))
    obls, n = explore(body)
    return dict(obls=obls, paths=n, sources=[L.info()], consistent=True)


def run_meshes(mutate=None):
    """EdgeMesh, Mesh (full / compressed / restorable test), TDGLData, DynamicsData with opaque symbolic arrays"""
    fs = fsmodel.FS()
    mods = {}
    for m in ("tdgl.finite_volume.edge_mesh", "tdgl.finite_volume.mesh", "tdgl.solution.data"):
        mut = [(o, n) for (mm, o, n) in (mutate or []) if mm == m]
        rb = {"h5py": fsmodel.H5(fs), "np": NPS}
        rb.update(BUILTINS)
        mods[m] = instrument.load(m, rebind=rb, mutate=mut, vc=vcm.VC())

    def body():
        import numpy as np
        E, N = SI(z3.Int("E")), SI(z3.Int("N"))
        EM = mods["tdgl.finite_volume.edge_mesh"]["EdgeMesh"]
        mods["tdgl.finite_volume.mesh"].ns["EdgeMesh"] = EM
        Mesh = mods["tdgl.finite_volume.mesh"]["Mesh"]
        fields = dict(centers=SymArray.input("centers", (E, 2)), edges=SymArray.input("edges", (E, 2), "i"), boundary_edge_indices=SymArray.input("bei", (SI(z3.Int("B")),), "i"),
                      directions=SymArray.input("directions", (E, 2)), edge_lengths=SymArray.input("elen", (E,)), dual_edge_lengths=SymArray.input("dual", (E,)))
        em = EM.__new__(EM)
        for k, v in fields.items():
            setattr(em, k, v)
        em.normalized_directions = SymArray.input("ndir", (E, 2))
        g = fsmodel.Group(fs)
        em.to_hdf5(g)
        back = EM.from_hdf5(g)
        for k, v in fields.items():
            check_same(f"C14.edge_mesh.{k}", [(getattr(back, k), v)])
        # missing data -> IOError, not a silently wrong mesh
        g2 = fsmodel.Group(fs)
        g2["centers"] = fields["centers"]
        try:
            EM.from_hdf5(g2)
            check("C14.edge_mesh.incomplete_group_rejected", False)
        except IOError:
            check("C14.edge_mesh.incomplete_group_rejected", True)
        # Mesh, full
        m = Mesh.__new__(Mesh)
        mf = dict(sites=SymArray.input("sites", (N, 2)), elements=SymArray.input("elements", (SI(z3.Int("T")), 3), "i"), boundary_indices=SymArray.input("bidx", (SI(z3.Int("Bs")),), "i"),
                  areas=SymArray.input("areas", (N,)), dual_sites=SymArray.input("dual_sites", (SI(z3.Int("T")), 2)))
        for k, v in mf.items():
            setattr(m, k, v)
        m.edge_mesh = em
        polys = [np.array([[0.0, 0.0], [1.0, 0.0], [0.0, 1.0]]), np.array([[0.0, 0.0], [1.0, 0.0], [1.0, 1.0], [0.0, 1.0]]), np.array([[2.0, 0.0], [3.0, 0.0], [2.0, 1.0]])]
        m.voronoi_polygons = polys
        gm = fsmodel.Group(fs)
        m.to_hdf5(gm)
        check("C14.mesh_full.is_restorable", z3.BoolVal(Mesh.is_restorable(gm) is True))
        captured = {}
        real_init = Mesh.__init__

        def init(self_, **kw):
            captured.update(kw)
        Mesh.__init__ = init
        try:
            Mesh.from_hdf5(gm)
        finally:
            Mesh.__init__ = real_init
        for k, v in mf.items():
            check_same(f"C14.mesh_full.{k}", [(captured.get(k), v)])
        check_same("C14.mesh_full.edge_mesh", [(getattr(captured.get("edge_mesh"), k, None), v) for k, v in fields.items()])
        vp = captured.get("voronoi_polygons")
        check("C14.mesh_full.voronoi_polygons_split_back", z3.BoolVal(vp is not None and len(vp) == len(polys) and all(np.array_equal(a, b) for a, b in zip(vp, polys))))
        # compressed: only sites and elements stored; not restorable -> recomputed from the triangulation (same stored sites/elements)
        gc = fsmodel.Group(fs)
        m.to_hdf5(gc, compress=True)
        check("C14.mesh_compressed.stores_only_triangulation", z3.BoolVal(set(gc.keys()) == {"sites", "elements"} and Mesh.is_restorable(gc) is False))
        seen = {}
        real_ft = Mesh.from_triangulation
        Mesh.from_triangulation = staticmethod(lambda sites, elements, create_submesh=True: seen.update(sites=sites, elements=elements) or "RECOMPUTED")
        try:
            r = Mesh.from_hdf5(gc)
        finally:
            Mesh.from_triangulation = real_ft
        check_same("C14.mesh_compressed.recomputed_from_stored_triangulation", [(seen.get("elements"), mf["elements"]), (seen.get("sites"), mf["sites"])], also=(r == "RECOMPUTED"))
        # DynamicsData through to_hdf5 / from_hdf5 (the stored-dynamics branch)
        DD = mods["tdgl.solution.data"]["DynamicsData"]
        for has_mu, has_it in itertools.product((False, True), (False, True)):
            d = DD.__new__(DD)
            d.dt = SymArray.input("dt", (SI(z3.Int("n")),))
            d.theta = SymArray.input("theta", (SI(2), SI(z3.Int("n"))))
            d.mu = SymArray.input("mu", (SI(2), SI(z3.Int("n")))) if has_mu else None
            d.screening_iterations = SymArray.input("its", (SI(z3.Int("n")),)) if has_it else None
            gd = fsmodel.Group(fs)
            d.to_hdf5(gd)
            got = {}
            real_dd = mods["tdgl.solution.data"].ns["DynamicsData"]

            class ddstub(real_dd):
                """the real class (its helpers stay reachable) with a constructor that records what it is handed"""
                def __init__(self_, dt, mu=None, theta=None, screening_iterations=None):
                    got.update(dt=dt, mu=mu, theta=theta, screening_iterations=screening_iterations)
            mods["tdgl.solution.data"].ns["DynamicsData"] = ddstub
            try:
                real_dd.from_hdf5(gd)
            finally:
                mods["tdgl.solution.data"].ns["DynamicsData"] = real_dd
            check_same(f"C14.dynamics[mu={has_mu},iterations={has_it}]", [(got.get("dt"), d.dt), (got.get("theta"), d.theta), (got.get("mu"), d.mu),
                                                                          (got.get("screening_iterations"), d.screening_iterations)])
    obls, n = explore(body, safety=False)
    return dict(obls=obls, paths=n, sources=[v.info() for v in mods.values()], consistent=True)


def run_solution_equals(mutate=None):
    """Solution.equals / __eq__: two solutions are equal exactly when device, options, loaded step, applied potential, terminal currents, epsilon, the raw
    data of the loaded step and the per-step records are all equal (and, for ==, the creation times).  Every component is a stand-in whose own
    equality is a free boolean; the paths of the short-circuit evaluation are enumerated."""
    mut = [(o, n) for (m, o, n) in (mutate or []) if m == SOL]
    L = instrument.load(SOL, mutate=mut, vc=vcm.VC())
    NAMES = ("device", "options", "solve_step", "applied_vector_potential", "terminal_currents", "disorder_epsilon", "tdgl_data", "dynamics")

    def body():
        Real = L["Solution"]
        ParamReal = L.ns["Parameter"]
        flags = {}

        class Comp:
            def __init__(self, name):
                self.name = name

            def __eq__(self, o):
                if self.name not in flags:
                    flags[self.name] = SB(z3.Bool(f"same_{self.name}"))
                return bool(flags[self.name])

            def __ne__(self, o):
                return not self.__eq__(o)
            __hash__ = object.__hash__

        class ParamComp(Comp, ParamReal):      # a Parameter: compared with ==
            def __init__(self, name):
                Comp.__init__(self, name)

        class S2(Real):
            solve_step = None
            time_created = None

        def mk():
            s = S2.__new__(S2)
            for nm in NAMES:
                if nm == "solve_step":
                    continue
                setattr(s, nm, ParamComp(nm) if nm == "applied_vector_potential" else Comp(nm))
            return s
        a, b = mk(), mk()
        S2.solve_step = Comp("solve_step")
        S2.time_created = Comp("time_created")
        want_all = lambda: z3.And(*[flags[nm].e if nm in flags else z3.BoolVal(True) for nm in NAMES])
        r1 = a.equals(b)
        # components that were never asked on this path: the short-circuit evaluation stopped at an unequal one, or they are not compared at all - a result
        # True with a component never compared is the failure this obligation looks for
        asked = set(flags)
        check("C14.equals.true_only_if_every_component_was_compared_and_equal", z3.BoolVal(r1 is False or asked >= set(NAMES)), note=f"compared: {sorted(asked)}")
        check("C14.equals.is_the_conjunction_of_the_component_equalities", z3.BoolVal(isinstance(r1, bool)) if not isinstance(r1, bool) else (z3.BoolVal(r1) == want_all()))
        r2 = (a == b)
        ts = flags.get("time_created")
        # (whether == also demands the same creation time is the library's choice; the property needs: == never holds for solutions that differ in a component)
        check("C14.eq_operator.holds_only_for_solutions_equal_in_every_component", z3.BoolVal(isinstance(r2, bool)) if not isinstance(r2, bool) else z3.Implies(z3.BoolVal(r2), want_all()))
        check("C14.equals.a_solution_equals_itself", z3.BoolVal(a.equals(a) is True))
        check("C14.equals.other_types_are_unequal", z3.BoolVal(a.equals("not a solution") is False))
    obls, n = explore(body, safety=False)
    return dict(obls=obls, paths=n, sources=[L.info()], consistent=True)


def run_data_equals(mutate=None):
    """TDGLData.__eq__ / DynamicsData.__eq__ (dataclass_equals, array_safe_equals): what "compares equal" MEANS for the raw data of a step and the per-step
    records.  Arrays are stand-ins (field, side, symbolic shape); np.allclose of a pair answers a free boolean and records which pair it was asked about.
    Equal exactly when, for EVERY field, the two values of that field have the same shape and are close (scalars / other values: their own ==); a field
    never compared cannot make the result True; values of different fields are never paired; the same object equals itself; objects of different classes
    are unequal; the compared objects are not written."""
    DATA = "tdgl.solution.data"
    mut = [(o, n) for (m, o, n) in (mutate or []) if m == DATA]
    calls, flags = [], {}

    class Amb:
        def __bool__(self):
            raise ValueError("The truth value of an array with more than one element is ambiguous.")

    class Arr:
        """stand-in for numpy.ndarray"""
        def __init__(self, field, side, shape):
            self.field, self.side, self.shape = field, side, shape

        def __deepcopy__(self, memo):
            return Arr(self.field, self.side, self.shape)

        def __eq__(self, o):
            return Amb()
        __hash__ = object.__hash__

    class Comp:
        def __init__(self, field, side):
            self.field, self.side = field, side

        def __deepcopy__(self, memo):
            return Comp(self.field, self.side)

        def __eq__(self, o):
            if not isinstance(o, Comp):
                return False
            calls.append(("eq", self.field, o.field, {self.side, o.side}))
            if self.field != o.field:
                return False
            if self.field not in flags:
                flags[self.field] = SB(z3.Bool(f"same_{self.field}"))
            return bool(flags[self.field])

        def __ne__(self, o):
            return not self.__eq__(o)
        __hash__ = object.__hash__

    class NPE(NP):
        ndarray = Arr

        @staticmethod
        def allclose(a, b, rtol=1e-05, atol=1e-08, equal_nan=False):
            calls.append(("allclose", a.field, b.field, {a.side, b.side}, rtol, atol))
            key = "close_" + a.field + ("" if a.field == b.field else "_vs_" + b.field)
            if key not in flags:
                flags[key] = SB(z3.Bool(key))
            return bool(flags[key])
    rb = {"np": NPE}
    L = instrument.load(DATA, rebind=rb, mutate=mut, vc=vcm.VC())

    CASES = (("TDGLData", ("epsilon", "psi", "mu", "applied_vector_potential", "induced_vector_potential", "supercurrent", "normal_current"), ("step", "state")),
             ("DynamicsData", ("dt", "time", "mu", "theta", "screening_iterations"), ()))

    def body(case):
        for cls_name, arrays, others in (case,):
            del calls[:]
            flags.clear()
            cls = L[cls_name]
            names = [f.name for f in dataclasses.fields(cls)]
            check(f"C14.data_equals.harness_knows_every_field[{cls_name}]", z3.BoolVal(sorted(names) == sorted(arrays + others)), note=str(names))
            shp = {}

            def mk(side):
                o = cls.__new__(cls)
                for f in arrays:
                    n_ = SI(z3.Int(f"n_{f}_{side}"))
                    shp[(f, side)] = n_
                    setattr(o, f, Arr(f, side, (n_,)))
                for f in others:
                    setattr(o, f, Comp(f, side))
                return o
            a, b = mk("a"), mk("b")
            before = {(side, f): getattr(o, f) for side, o in (("a", a), ("b", b)) for f in names}
            r = (a == b)
            want = [z3.And(shp[(f, "a")].e == shp[(f, "b")].e, flags["close_" + f].e if "close_" + f in flags else z3.BoolVal(True)) for f in arrays]
            want += [flags[f].e if f in flags else z3.BoolVal(True) for f in others]
            compared = {c[1] for c in calls if c[0] in ("allclose", "eq")}
            res_true = (r is True) or (isinstance(r, SB) and bool(r))
            check(f"C14.data_equals.result_is_a_truth_value[{cls_name}]", z3.BoolVal(isinstance(r, (bool, SB))))
            check(f"C14.data_equals.equal_only_if_every_field_was_compared[{cls_name}]", z3.BoolVal((not res_true) or compared >= set(names)), note=f"compared: {sorted(compared)} of {names}")
            check(f"C14.data_equals.is_the_conjunction_over_the_fields_of_same_shape_and_close[{cls_name}]", z3.BoolVal(res_true) == z3.And(*want))
            check(f"C14.data_equals.values_are_paired_field_by_field_across_the_two_objects[{cls_name}]", z3.BoolVal(all(c[1] == c[2] and c[3] == {"a", "b"} for c in calls)), note=str([c[:3] for c in calls if c[1] != c[2]][:3]))
            check(f"C14.data_equals.closeness_not_looser_than_numpy_default[{cls_name}]", z3.BoolVal(all(c[4] <= 1e-05 and c[5] <= 1e-08 for c in calls if c[0] == "allclose")))
            check(f"C14.data_equals.compared_objects_not_written[{cls_name}]", z3.BoolVal(all(getattr(o, f) is before[(side, f)] for side, o in (("a", a), ("b", b)) for f in names)))
            check(f"C14.data_equals.an_object_equals_itself[{cls_name}]", z3.BoolVal((a == a) is True))

    def body_classes():
        t, d = L["TDGLData"], L["DynamicsData"]
        x, y = t.__new__(t), d.__new__(d)
        check("C14.data_equals.objects_of_different_classes_are_unequal", z3.BoolVal((x == y) is False and (y == x) is False and (x != y) is True))
    obls, n = [], 0
    for b_ in (lambda: body(CASES[0]), lambda: body(CASES[1]), body_classes):
        o_, n_ = explore(b_, safety=False)
        obls += o_
        n += n_
    return dict(obls=obls, paths=n, sources=[L.info()], consistent=True)


def run_param_pickle(mutate=None):
    from checks import c16
    r = c16.run_induction(mutate)
    r["obls"] = [o for o in r["obls"] if o.name.startswith(("C16.pickle", "C16.ctor_establishes_inv.attributes_defined"))]
    for o in r["obls"]:
        o.name = o.name.replace("C16.", "C14.parameter.")
    return r



def _bounded_quick():
    bad, n = native(0)
    bad2, n2 = native_data_equals()
    return bad + bad2, n + n2


def units():
    return [Unit("Solution options/attrs save->load", SOL + ":Solution._save_to_hdf5_file / Solution.from_hdf5", run_options, props=["C14"], timeout=600),
            Unit("Solution solve_step", SOL + ":Solution.__init__ / load_tdgl_data", run_solve_step, props=["C14"], timeout=300),
            Unit("save_time_step -> TDGLData.from_hdf5", "tdgl.solver.runner:DataHandler.save_fixed_values / save_time_step -> tdgl.solution.data:TDGLData.from_hdf5 / load_state_data",
                 lambda m=None: __import__("checks.writer_common", fromlist=["x"]).run_frame_round_trip(m, prefixes=("C14.", "C05.")), props=["C14", "C05"], timeout=300),
            Unit("Solution.equals", SOL + ":Solution.equals / __eq__", run_solution_equals, props=["C14"], timeout=300),
            Unit("TDGLData / DynamicsData ==", "tdgl.solution.data:array_safe_equals, dataclass_equals, TDGLData.__eq__, DynamicsData.__eq__", run_data_equals, props=["C14"], timeout=300),
            Unit("Layer.to_hdf5/from_hdf5", "tdgl.device.layer:Layer.to_hdf5 / from_hdf5", run_layer, props=["C14"], timeout=300),
            Unit("EdgeMesh/Mesh/DynamicsData to_hdf5/from_hdf5", "tdgl.finite_volume.edge_mesh:EdgeMesh, tdgl.finite_volume.mesh:Mesh, tdgl.solution.data:DynamicsData", run_meshes, props=["C14"], timeout=300),
            Unit("Device.to_hdf5/from_hdf5", "tdgl.device.device:Device.to_hdf5 / Device.from_hdf5",
                 lambda m=None: __import__("checks.device_io_common", fromlist=["x"]).run_device_io(m), props=["C14"], timeout=300),
            Unit("Polygon.to_hdf5/from_hdf5", "tdgl.device.polygon:Polygon.to_hdf5 / Polygon.from_hdf5",
                 lambda m=None: __import__("checks.device_io_common", fromlist=["x"]).run_polygon_io(m), props=["C14"], timeout=300),
            Unit("CompositeParameter pickle", "tdgl.parameter:CompositeParameter.__getstate__/__setstate__", run_param_pickle, props=["C14", "C16"], timeout=600),
            _h.bounded_unit("real h5py round trips [bounded]", "Device / Mesh / Solution to_hdf5, from_hdf5 (real h5py)", "C14", _bounded_quick, "devices_meshes_and_solutions_survive_the_round_trip", timeout=900)]


def native(seed=0):
    """BOUNDED: real h5py round trips of devices (holes / terminals / probes present or not, mesh present or not), solutions at every
    recorded step, restored mesh == recomputed mesh"""
    import logging
    import os
    import tempfile
    import numpy as np
    os.environ.setdefault("TQDM_DISABLE", "1")
    logging.disable(logging.CRITICAL)
    import h5py
    import tdgl
    from tdgl.geometry import box, circle
    from tdgl.finite_volume.mesh import Mesh
    bad = []
    n = 0
    layer = tdgl.Layer(coherence_length=0.5, london_lambda=2, thickness=0.1, gamma=1)
    with tempfile.TemporaryDirectory() as td:
        for holes, terms, probes, meshed in itertools.product((False, True), (False, True), (False, True), (False, True)):
            film = tdgl.Polygon("film", points=box(3, 2))
            hs = [tdgl.Polygon("h", points=circle(0.3))] if holes else None
            ts = None
            if terms:
                src = tdgl.Polygon("source", points=box(0.1, 2)).translate(dx=-1.5)
                ts = [src, src.scale(xfact=-1).set_name("drain")]
            dev = tdgl.Device("d", layer=layer, film=film, holes=hs, terminals=ts, probe_points=[(-1, 0), (1, 0)] if probes else None, length_units="um")
            if meshed:
                dev.make_mesh(max_edge_length=0.5, smooth=3)
            p = os.path.join(td, f"d{n}.h5")
            dev.to_hdf5(p)
            back = tdgl.Device.from_hdf5(p)
            n += 1
            if back != dev:
                bad.append(dict(what="device round trip", holes=holes, terminals=terms, probes=probes, meshed=meshed))
            if meshed:
                m0, m1 = dev.mesh, back.mesh
                for nm in ("sites", "elements", "areas", "boundary_indices"):
                    if not np.array_equal(getattr(m0, nm), getattr(m1, nm)):
                        bad.append(dict(what=f"mesh.{nm} differs after round trip"))
                rec = Mesh.from_triangulation(m0.sites, m0.elements)
                for nm in ("areas", "boundary_indices"):
                    if not np.allclose(getattr(rec, nm), getattr(m1, nm), rtol=1e-12, atol=0):
                        bad.append(dict(what=f"restored mesh.{nm} differs from recomputed mesh"))
                if not np.array_equal(rec.edge_mesh.edges, m1.edge_mesh.edges) or not np.allclose(rec.edge_mesh.dual_edge_lengths, m1.edge_mesh.dual_edge_lengths):
                    bad.append(dict(what="restored edge mesh differs from recomputed"))
        # meshes of very different sizes (index arrays must survive whatever integer width is used on disk): every stored array, the
        # Voronoi polygons and the edge mesh come back equal, and a compressed group recomputes the same mesh
        for mel, npts, hole in ((0.6, 41, False), (0.45, 61, True), (0.25, 101, True), (0.07, 101, True), (0.032, 201, True)):      # 106 ... 19464 sites
            film = tdgl.Polygon("film", points=box(3, 2, points=npts))
            dev = tdgl.Device("d", layer=layer, film=film, holes=[tdgl.Polygon("h", points=circle(0.3, points=max(9, npts // 4)))] if hole else None, length_units="um")
            dev.make_mesh(max_edge_length=mel, smooth=0)
            m0 = dev.mesh
            for compress in (False, True):
                p = os.path.join(td, f"m{n}.h5")
                with h5py.File(p, "w") as f:
                    m0.to_hdf5(f.create_group("mesh"), compress=compress)
                with h5py.File(p, "r") as f:
                    m1 = Mesh.from_hdf5(f["mesh"])
                n += 1
                case = dict(sites=len(m0.sites), compress=compress)
                for nm in ("sites", "elements", "boundary_indices", "areas", "dual_sites"):
                    a0, a1 = getattr(m0, nm), getattr(m1, nm)
                    if a0 is None or a1 is None:
                        continue
                    if a0.shape != a1.shape or not np.allclose(a0, a1, rtol=1e-12, atol=1e-15):
                        bad.append(dict(case, what=f"mesh.{nm} differs after the round trip"))
                v0, v1 = m0.voronoi_polygons, m1.voronoi_polygons
                if v0 is not None and v1 is not None and (len(v0) != len(v1) or any(a.shape != b.shape or not np.allclose(a, b, rtol=1e-12, atol=1e-15) for a, b in zip(v0, v1))):
                    bad.append(dict(case, what="mesh.voronoi_polygons differ after the round trip",
                                    n_different=int(sum(1 for a, b in zip(v0, v1) if a.shape != b.shape or not np.allclose(a, b))) if len(v0) == len(v1) else None))
                for nm in ("edges", "boundary_edge_indices", "edge_lengths", "dual_edge_lengths", "centers"):
                    a0, a1 = getattr(m0.edge_mesh, nm), getattr(m1.edge_mesh, nm)
                    if a0.shape != a1.shape or not np.allclose(a0, a1, rtol=1e-12, atol=1e-15):
                        bad.append(dict(case, what=f"edge_mesh.{nm} differs after the round trip"))
        dev = tdgl.Device("d", layer=layer, film=tdgl.Polygon("film", points=box(3, 2)), length_units="um")
        dev.make_mesh(max_edge_length=0.5, smooth=3)
        # a solution that only lives in memory (output_file=None), written with to_hdf5 and read back: equal, dynamics included
        sol_m = tdgl.solve(dev, tdgl.SolverOptions(solve_time=0.3, save_every=10, adaptive=False, dt_init=1e-2, output_file=None), applied_vector_potential=0.2)
        pm = os.path.join(td, "mem.h5")
        sol_m.to_hdf5(pm)
        back_m = tdgl.Solution.from_hdf5(pm)
        n += 1
        if back_m.dynamics is None or sol_m.dynamics is None or len(back_m.dynamics.dt) != len(sol_m.dynamics.dt) or not np.array_equal(back_m.dynamics.dt, sol_m.dynamics.dt):
            bad.append(dict(what="per-step records of an in-memory solution are lost by to_hdf5 / from_hdf5", written=len(sol_m.dynamics.dt) if sol_m.dynamics is not None else None,
                            read_back=len(back_m.dynamics.dt) if back_m.dynamics is not None else None))
        elif not (back_m == sol_m) or not np.array_equal(back_m.times, sol_m.times):
            bad.append(dict(what="in-memory solution differs from its copy read back from disk"))
        for tp in (None, 0.0, 0.3 + 0.4j):
            opts = tdgl.SolverOptions(solve_time=0.5, save_every=10, terminal_psi=tp, adaptive=False, dt_init=1e-2, pause_on_interrupt=False, progress_interval=None,
                                      output_file=os.path.join(td, f"s{tp}.h5"))
            sol = tdgl.solve(dev, opts, applied_vector_potential=0.2)
            for step in range(sol.data_range[0], sol.data_range[1] + 1):
                lo = tdgl.Solution.from_hdf5(sol.path, solve_step=step)
                n += 1
                with h5py.File(sol.path, "r") as f:
                    raw = np.array(f["data"][str(step)]["psi"])
                    raw_all = {k_: np.array(f["data"][str(step)][k_]) for k_ in ("mu", "supercurrent", "normal_current", "induced_vector_potential")}
                off = [k_ for k_, v_ in raw_all.items() if not np.array_equal(getattr(lo.tdgl_data, k_), v_)]
                if off:
                    bad.append(dict(what="the data of a loaded step are not the stored datasets", step=step, fields=off,
                                    max_abs_diff=float(max(np.abs(getattr(lo.tdgl_data, k_) - raw_all[k_]).max() for k_ in off))))
                    break
                if lo.options != sol.options:
                    bad.append(dict(what="options differ after round trip", saved=str(sol.options), loaded=str(lo.options)))
                    break
                if lo.solve_step != step or not np.array_equal(lo.tdgl_data.psi, raw):
                    bad.append(dict(what="Solution.from_hdf5(solve_step=k) does not hold the data of step k", step=step, loaded_step=lo.solve_step))
                    break
        # ONE loaded solution moved from frame to frame (solution.solve_step = k) with a time-dependent applied potential and epsilon: after every move
        # all its raw data - the per-frame potential and epsilon included - are the datasets stored for the frame it is at
        from tdgl.sources import ConstantField, LinearRamp

        def eps_t(r, *, t):
            return 1.0 - 0.5 * t
        ramp = LinearRamp(tmin=0.0, tmax=0.4) * ConstantField(0.4, field_units="mT", length_units="um")
        opts = tdgl.SolverOptions(solve_time=0.4, save_every=10, adaptive=False, dt_init=1e-2, field_units="mT", output_file=os.path.join(td, "ramp.h5"))
        sol_r = tdgl.solve(dev, opts, applied_vector_potential=ramp, disorder_epsilon=eps_t)
        moved = tdgl.Solution.from_hdf5(sol_r.path)
        with h5py.File(sol_r.path, "r") as f:
            for step in (moved.data_range[1], 1, moved.data_range[1] - 1, 0, 2):
                moved.solve_step = step
                n += 1
                g = f["data"][str(step)]
                off = [k_ for k_ in ("psi", "mu", "supercurrent", "normal_current", "induced_vector_potential", "applied_vector_potential", "epsilon")
                       if k_ in g and not np.array_equal(getattr(moved.tdgl_data, k_), np.array(g[k_]))]
                if off:
                    bad.append(dict(what="a loaded solution moved to another frame (solution.solve_step = k) holds data that are not the datasets stored for that frame", frame=step, fields=off))
                    break
    logging.disable(logging.NOTSET)
    return bad, n


def replay_scope(unit, obl):
    """the native replay of this property searches per unit, not per obligation (composite parameters: per obligation)"""
    return (obl or {}).get("name", "") if unit.startswith("CompositeParameter") else "unit"


def native_data_equals():
    """real numpy: data objects that differ in exactly one field (values or shape) are unequal, exact copies are equal"""
    import copy
    import numpy as np
    from tdgl.solution.data import TDGLData, DynamicsData
    rng = np.random.default_rng(0)
    bad, n = [], 0
    t0 = TDGLData(step=3, epsilon=rng.random(7), psi=rng.random(7) + 1j * rng.random(7), mu=rng.random(7), applied_vector_potential=rng.random((11, 2)),
                  induced_vector_potential=rng.random((11, 2)), supercurrent=rng.random(11), normal_current=rng.random(11), state=dict(step=3, time=0.5, dt=0.1))
    d0 = DynamicsData(dt=rng.random(9) + 0.1, mu=rng.random((2, 9)), theta=rng.random((2, 9)), screening_iterations=rng.integers(0, 5, 9))
    for base in (t0, d0):
        n += 1
        if not (base == copy.deepcopy(base)) or not (base == base):
            bad.append(dict(what=f"{type(base).__name__}: an exact copy does not compare equal"))
        for f in dataclasses.fields(base):
            v = getattr(base, f.name)
            variants = []
            if isinstance(v, np.ndarray):
                w = v.copy().astype(complex if np.iscomplexobj(v) else float)
                w.flat[-1] += 0.25
                variants = [("one entry changed by 0.25", w), ("last entry / row dropped", v[:-1].copy() if v.ndim == 1 else v[:, :-1].copy())]
            elif isinstance(v, dict):
                variants = [("time entry changed", dict(v, time=0.75))]
            elif isinstance(v, int):
                variants = [("step + 1", v + 1)]
            for what, w in variants:
                other = copy.deepcopy(base)
                object.__setattr__(other, f.name, w)
                n += 1
                try:
                    same = bool(base == other) or bool(other == base)
                except Exception as e:   # noqa
                    same = False
                if same:
                    bad.append(dict(what=f"{type(base).__name__} objects that differ only in `{f.name}` ({what}) compare equal"))
    return bad, n


def replay(unit, obl):
    if unit.startswith("TDGLData / DynamicsData"):
        import tdgl
        bad, n = native_data_equals()
        return dict(confirmed=bool(bad), failing_input=bad[0] if bad else None, n_failing=len(bad), evaluations=n, tdgl_file=tdgl.__file__)
    if unit.startswith("CompositeParameter"):
        from checks import c16
        return c16.replay(unit, dict(obl, name=obl.get("name", "").replace("C14.parameter.", "C16.")))
    import tdgl
    bad, n = native(0)
    if bad:
        return dict(confirmed=True, failing_input=bad[0], n_failing=len(bad), evaluations=n, tdgl_file=tdgl.__file__)
    return dict(confirmed=False, evaluations=n, tdgl_file=tdgl.__file__)


P_ = "tdgl.parameter"
MUTANTS = [
    dict(name="device: mesh saved regardless of save_mesh", edits=[("tdgl.device.device", "            if save_mesh and self.mesh is not None:", "            if self.mesh is not None:")], units=["Device.to_hdf5/from_hdf5"]),
    dict(name="device: probe points not read back", edits=[("tdgl.device.device", "            if \"probe_points\" in f:\n                probe_points = np.array(f[\"probe_points\"])", "            if False:\n                probe_points = np.array(f[\"probe_points\"])")], units=["Device.to_hdf5/from_hdf5"]),
    dict(name="polygon: mesh flag not stored", edits=[("tdgl.device.polygon", "        h5_group.attrs[\"mesh\"] = self.mesh\n", "        h5_group.attrs[\"mesh\"] = True\n")], units=["Polygon.to_hdf5/from_hdf5"]),
    dict(name="falsy options dropped on save", edits=[(SOL, "                if v is None:\n                    # None cannot be stored in an HDF5 attribute:\n                    # store an empty attribute instead.\n                    v = h5py.Empty(\"f\")\n                options_grp.attrs[k] = v", "                if v:\n                    options_grp.attrs[k] = v")]),
    dict(name="None options skipped again", edits=[(SOL, "                    v = h5py.Empty(\"f\")\n                options_grp.attrs[k] = v", "                    continue\n                options_grp.attrs[k] = v")]),
    dict(name="layer z0 stored as thickness", edits=[("tdgl.device.layer", "h5_group.attrs[\"z0\"] = self.z0", "h5_group.attrs[\"z0\"] = self.thickness")]),
    dict(name="edge mesh directions loaded from centers", edits=[("tdgl.finite_volume.edge_mesh", "directions=np.array(h5group[\"directions\"]),", "directions=np.array(h5group[\"centers\"]),")]),
    dict(name="mesh areas not stored", edits=[("tdgl.finite_volume.mesh", "            h5group[\"areas\"] = self.areas\n", "")]),
] + __import__("checks.writer_common", fromlist=["x"]).MUTANTS_FRAME + [
    dict(name="solutions compared without their per-step records", units=["Solution.equals"], edits=[(SOL, "            and (self.tdgl_data == other.tdgl_data)\n            and (self.dynamics == other.dynamics)\n", "            and (self.tdgl_data == other.tdgl_data)\n")]),
    dict(name="solutions compared without the loaded step", units=["Solution.equals"], edits=[(SOL, "            and (self.solve_step == other.solve_step)\n", "")]),
    dict(name="benign: == ignores the creation time", units=["Solution.equals"], edits=[(SOL, "        return self.equals(other, require_same_timestamp=True)", "        return self.equals(other)")], expect="pass"),
    dict(name="arrays compared by shape only", units=["TDGLData / DynamicsData =="], edits=[("tdgl.solution.data", "        return a.shape == b.shape and np.allclose(a, b)", "        return a.shape == b.shape")]),
    dict(name="last field of the data classes not compared", units=["TDGLData / DynamicsData =="], edits=[("tdgl.solution.data", "    return all(array_safe_equals(a1, a2) for a1, a2 in zip(t1, t2))", "    return all(array_safe_equals(a1, a2) for a1, a2 in zip(t1[:-1], t2))")]),
    dict(name="data classes equal if ANY field agrees", units=["TDGLData / DynamicsData =="], edits=[("tdgl.solution.data", "    return all(array_safe_equals(a1, a2) for a1, a2 in zip(t1, t2))", "    return any(array_safe_equals(a1, a2) for a1, a2 in zip(t1, t2))")]),
    dict(name="arrays compared with a loose tolerance", units=["TDGLData / DynamicsData =="], edits=[("tdgl.solution.data", "        return a.shape == b.shape and np.allclose(a, b)", "        return a.shape == b.shape and np.allclose(a, b, rtol=1e-2)")]),
    dict(name="composite pickle drops slots", edits=[(P_, "        for name in (\"time_dependent\", \"_cache\", \"_use_cache\"):\n            if hasattr(self, name):\n                state[name] = getattr(self, name)\n        return state", "        return state")]),
]


def thorough(seed=0):
    from pyvc import harness
    summary, broken = harness.run_mutants("checks.c14", units(), MUTANTS)
    bad, n = native(seed)
    bnd = dict(kind="bounded", evaluations=n, failing=len(bad), samples=bad[:3], bound="16 device configurations (real h5py), 2 solutions x every recorded step")
    if bad:
        broken.append(f"native round trip fails: {bad[0]}")
    return dict(coverage=dict(mutants=summary, bounded=bnd, mutants_killed=sum(1 for m in summary if m["verdict"] in ("killed", "not-proved") and m["expect"] == "killed"),
                              mutants_total=sum(1 for m in summary if m["expect"] == "killed")), broken=broken)
