"""tdgl.geometry helpers under contract (C18: stored vertices are closed, rotations are rigid; C07: the outline handed to the mesher):
   close_curve    appends the first point iff the curve is not closed already (np.allclose of the first and the last point, assumed contract A4)
   ensure_unique  keeps exactly the first occurrence of every point, in the original order: rows of the input gathered at the SORTED first-occurrence
                  indices reported by np.unique(axis=0, return_index=True)
   rotate         every point is mapped by the rotation matrix of the angle in DEGREES, counter-clockwise; lemmas: lengths and signed areas are preserved
All for a symbolic number of points."""
import math

import z3

from pyvc import sym, instrument, vc as vcm
from pyvc.arr import SymArray, small_concrete
from pyvc.models.npmodel import NP, BUILTINS
from pyvc.sym import SB, SI, SR, check, assume, explore, FreshInt, Unsupported

G_ = "tdgl.geometry"
_COS = z3.Function("cos", z3.RealSort(), z3.RealSort())
_SIN = z3.Function("sin", z3.RealSort(), z3.RealSort())


def _patch():
    from checks import mesh_common
    mesh_common._patch_smooth()        # gather tags, .T
    if getattr(SymArray, "_geometry_patched", False):
        return
    orig = SymArray.__getitem__

    def getitem(self, key):
        if isinstance(key, int) and not isinstance(key, bool) and key < 0:
            return orig(self, self.shape[0] + key)
        return orig(self, key)
    SymArray.__getitem__ = getitem

    def rmatmul(self, left):
        # (2, 2) concrete-shaped matrix @ (2, n)
        if isinstance(left, SymArray) and left.ndim == 2 and left.shape[0].concrete() == 2 and left.shape[1].concrete() == 2 and self.ndim == 2 and self.shape[0].concrete() == 2:
            me = self
            return SymArray((SI(2), self.shape[1]), lambda r, j: SR.lift(left.at(r, SI(0))) * SR.lift(me.at(SI(0), j)) + SR.lift(left.at(r, SI(1))) * SR.lift(me.at(SI(1), j)))
        raise Unsupported("matmul")
    SymArray.__rmatmul__ = rmatmul
    SymArray.__matmul__ = lambda self, o: o.__rmatmul__(self) if isinstance(o, SymArray) else (_ for _ in ()).throw(Unsupported("matmul"))
    SymArray._geometry_patched = True


def _model(calls):
    class NPGm(NP):
        pi = math.pi

        @staticmethod
        def allclose(a, b, rtol=1e-05, atol=1e-08):
            r = SB(sym.FreshBool("allclose"))
            calls.setdefault("allclose", []).append((a, b, r))
            return bool(r)

        @staticmethod
        def concatenate(xs, axis=0, dtype=None):
            from checks import mesh_common
            xs = list(xs)
            if xs and all(isinstance(x, SymArray) and x.ndim == 2 for x in xs) and axis == 0:
                return mesh_common._rowcat(xs)
            return NP.concatenate(xs)

        @staticmethod
        def unique(x, return_index=False, return_inverse=False, return_counts=False, axis=None):
            m = SI(FreshInt("n_distinct"))
            assume(m >= 0)
            u = SymArray.fresh("unique_rows", (m,) + tuple(x.shape[1:]))
            ix = SymArray.fresh("first_occurrence", (m,), "i")
            calls.setdefault("unique", []).append(dict(x=x, axis=axis, return_index=return_index, return_counts=return_counts, return_inverse=return_inverse, ix=ix))
            out = (u,) + ((ix,) if return_index else ())
            if return_inverse or return_counts:
                raise Unsupported("np.unique outputs")
            return out if len(out) > 1 else u

        @staticmethod
        def sort(x, axis=-1):
            if not (isinstance(x, SymArray) and x.ndim == 1):
                raise Unsupported("sort")
            s = SymArray.fresh("sorted", x.shape, x.kind or "i")
            calls.setdefault("sort", []).append((x, s))
            return s

        @staticmethod
        def radians(a):
            return SR.lift(a) * SR(math.pi) / 180

        @staticmethod
        def cos(a):
            return SR(_COS(SR.lift(a).e))

        @staticmethod
        def sin(a):
            return SR(_SIN(SR.lift(a).e))

        @staticmethod
        def array(x, dtype=None):
            if isinstance(x, list) and len(x) == 2 and all(isinstance(r, list) and len(r) == 2 for r in x):
                import numpy as _np
                a = _np.empty((2, 2), dtype=object)
                for p in range(2):
                    for q in range(2):
                        a[p, q] = x[p][q]
                return small_concrete(a)
            return NP.array(x, dtype)

        @staticmethod
        def asarray(x, dtype=None):
            return x
    return NPGm


def run_geometry(mutate=None, prefixes=("C18.", "C07.")):
    _patch()
    calls = {}
    mut = [(o, n) for (m, o, n) in (mutate or []) if m == G_]
    rb = {"np": _model(calls)}
    rb.update(BUILTINS)
    L = instrument.load(G_, rebind=rb, mutate=mut, vc=vcm.VC())

    def body():
        c = sym.ctx()
        c.record_prefixes = tuple(prefixes)
        calls.clear()
        n = SI(z3.Int("n_points"))
        assume(n >= 2)
        pts = SymArray.input("points", (n, 2))
        i, k = SI(FreshInt("i")), SI(FreshInt("k"))
        assume(i >= 0, i < n, k >= 0, k < 2)
        # ---- close_curve
        out = L["close_curve"](pts)
        ac = calls.get("allclose", [])
        okc = len(ac) == 1 and all(isinstance(v, SymArray) and v.ndim == 1 for v in ac[0][:2])
        if not okc:
            # another way of deciding closedness: this contract cannot follow it (undecided, not a violation); the native oracle decides
            raise sym.Undecided("close_curve does not decide closedness by one np.allclose of two points")
        if okc:
            a, b, flag = ac[0]
            first = z3.And(sym.eq(a.at(k), pts.at(SI(0), k)), sym.eq(b.at(k), pts.at(n - 1, k)))
            swapped = z3.And(sym.eq(b.at(k), pts.at(SI(0), k)), sym.eq(a.at(k), pts.at(n - 1, k)))
            check("C18.close_curve.compares_the_first_and_the_last_point", z3.Or(first, swapped))
            closed = bool(flag)
            oko = isinstance(out, SymArray) and out.ndim == 2
            if closed:
                check("C18.close_curve.closed_curve_returned_unchanged", z3.BoolVal(False) if not oko else z3.And(sym.eq(out.shape[0], n), sym.eq(out.at(i, k), pts.at(i, k))))
            else:
                check("C18.close_curve.open_curve_gets_its_first_point_appended",
                      z3.BoolVal(False) if not oko else z3.And(sym.eq(out.shape[0], n + 1), sym.eq(out.at(i, k), pts.at(i, k)), sym.eq(out.at(n, k), pts.at(SI(0), k))))
        # ---- ensure_unique
        calls.clear()
        res = L["ensure_unique"](pts)
        us, ss = calls.get("unique", []), calls.get("sort", [])
        oku = len(us) == 1 and us[0]["axis"] == 0 and us[0]["return_index"] is True and us[0]["x"] is pts
        if not oku:
            raise sym.Undecided("ensure_unique does not take the first occurrences from np.unique(axis=0, return_index=True) of its argument")
        g = getattr(res, "gather_of", None)
        oks = len(ss) == 1 and ss[0][0] is us[0]["ix"] and g is not None and g[1] is ss[0][1]
        check("C07.ensure_unique.points_kept_in_their_original_order", z3.BoolVal(oks), note="the result must be the input gathered at the SORTED first-occurrence indices")
        check("C07.ensure_unique.returns_points_of_this_outline", z3.BoolVal(g is not None and _same(g[0], pts, i, k)))
        # ---- rotate
        ang = SR(z3.Real("angle_degrees"))
        rot = L["rotate"](pts, ang)
        rad = ang * SR(math.pi) / 180
        cs, sn = SR(_COS(rad.e)), SR(_SIN(rad.e))
        okr = isinstance(rot, SymArray) and rot.ndim == 2
        x, y = SR.lift(pts.at(i, SI(0))), SR.lift(pts.at(i, SI(1)))
        check("C18.rotate.counter_clockwise_by_the_angle_in_degrees",
              z3.BoolVal(False) if not okr else z3.And(sym.eq(rot.shape[0], n), sym.eq(rot.shape[1], 2), sym.eq(rot.at(i, SI(0)), cs * x - sn * y), sym.eq(rot.at(i, SI(1)), sn * x + cs * y)))
        if okr:
            j = SI(FreshInt("j"))
            assume(j >= 0, j < n)
            unit = [(cs * cs + sn * sn).e == 1]
            x2, y2 = SR.lift(pts.at(j, SI(0))), SR.lift(pts.at(j, SI(1)))
            rx, ry, rx2, ry2 = [SR.lift(rot.at(q, SI(d))) for q in (i, j) for d in (0, 1)]
            check("C18.rotate.distances_preserved", sym.eq((rx - rx2) ** 2 + (ry - ry2) ** 2, (x - x2) ** 2 + (y - y2) ** 2), extra=unit)
            check("C18.rotate.signed_areas_preserved", sym.eq(rx * ry2 - ry * rx2, x * y2 - y * x2), extra=unit)
    obls, n_ = explore(body)
    return dict(obls=obls, paths=n_, sources=[L.info()], consistent=sym.consistent())


def _same(a, b, i, k):
    if a is b:
        return True
    if not (isinstance(a, SymArray) and isinstance(b, SymArray) and a.ndim == b.ndim == 2):
        return False
    return bool(sym.quick_prove(sym.ctx().hyps(), z3.And(a.shape[0].e == b.shape[0].e, sym.eq(a.at(i, k), b.at(i, k))), 3000))


def native(seed=0):
    """BOUNDED replay oracle on the real functions"""
    import numpy as np
    from tdgl import geometry as g
    rng = np.random.default_rng(seed)
    bad, n = [], 0
    for trial in range(20):
        m = int(rng.integers(3, 12))
        pts = rng.normal(size=(m, 2))
        out = g.close_curve(pts)
        n += 1
        if out.shape != (m + 1, 2) or not np.array_equal(out[:m], pts) or not np.array_equal(out[m], pts[0]):
            bad.append(dict(what="close_curve: an open curve does not get exactly its first point appended", points=pts.tolist()))
        again = g.close_curve(out)
        n += 1
        if again.shape != out.shape or not np.array_equal(again, out):
            bad.append(dict(what="close_curve: a closed curve is changed", points=out.tolist()))
        for scale in (1.0, 1e-9, 1e7):
            # distinct points stay distinct whatever the length scale of the outline (devices are stated in nm as well as in mm)
            p_ = pts * scale
            dup = np.concatenate([p_, p_[rng.integers(0, m, size=3)], p_[:1]])
            perm_free = g.ensure_unique(dup)
            n += 1
            if perm_free.shape != p_.shape or not np.array_equal(perm_free, p_):
                bad.append(dict(what="ensure_unique: not exactly the first occurrences of the distinct points in the original order", scale=scale, points=dup.tolist(), got=perm_free.tolist()))
        ang = float(rng.uniform(-360, 360))
        r = g.rotate(pts, ang)
        cth, sth = np.cos(np.radians(ang)), np.sin(np.radians(ang))
        want = np.stack([cth * pts[:, 0] - sth * pts[:, 1], sth * pts[:, 0] + cth * pts[:, 1]], axis=1)
        n += 1
        if r.shape != pts.shape or not np.allclose(r, want, rtol=1e-12, atol=1e-12):
            bad.append(dict(what="rotate: not the counter-clockwise rotation by the angle in degrees", angle=ang))
    return bad, n


MUTANTS = [
    dict(name="close_curve appends the last point", units=["tdgl.geometry helpers"], edits=[(G_, "points = np.concatenate([points, points[:1]], axis=0)", "points = np.concatenate([points, points[-1:]], axis=0)")]),
    dict(name="close_curve compares the first two points", units=["tdgl.geometry helpers"], edits=[(G_, "if not np.allclose(points[0], points[-1]):", "if not np.allclose(points[0], points[1]):")]),
    dict(name="close_curve closes closed curves", units=["tdgl.geometry helpers"], edits=[(G_, "if not np.allclose(points[0], points[-1]):", "if np.allclose(points[0], points[-1]):")]),
    dict(name="ensure_unique returns the points in lexicographic order", units=["tdgl.geometry helpers"], edits=[(G_, "    coords = coords[np.sort(ix)]\n", "    coords = coords[ix]\n")]),
    dict(name="rotate is clockwise", units=["tdgl.geometry helpers"], edits=[(G_, "return np.array([[c, -s], [s, c]])", "return np.array([[c, s], [-s, c]])")]),
    dict(name="rotate takes the angle in radians", units=["tdgl.geometry helpers"], edits=[(G_, "R = rotation_matrix(np.radians(angle_degrees))", "R = rotation_matrix(angle_degrees)")]),
]
