"""native gauge-covariance harness (replay of C04 obligations / bounded stand-in): real MeshOperators and the real step on
small random meshes under a random gauge function chi."""
import numpy as np
from checks.ops_native import random_mesh, _quiet


def search(seed=0, trials=25, tol=1e-9):
    import scipy.sparse as sp
    from tdgl.finite_volume.operators import MeshOperators
    from tdgl.solver.solver import TDGLSolver
    _quiet()
    rng = np.random.default_rng(seed)
    bad = []
    n = 0
    for t in range(trials):
        mesh = random_mesh(rng)
        em = mesh.edge_mesh
        E, N = len(em.edges), len(mesh.sites)
        A = rng.normal(size=(E, 2))
        chi = rng.normal(size=N) * 2
        psi = rng.normal(size=N) + 1j * rng.normal(size=N)
        # A' with A'.d = A.d + chi_j - chi_i : add grad(chi) along the edge direction
        dchi = chi[em.edges[:, 1]] - chi[em.edges[:, 0]]
        Ap = A + (dchi / em.edge_lengths ** 2)[:, None] * em.directions
        psip = psi * np.exp(1j * chi)
        o1 = MeshOperators(mesh, None, fixed_sites=np.array([], dtype=np.int64), fix_psi=False)
        o1.set_link_exponents(A)
        o2 = MeshOperators(mesh, None, fixed_sites=np.array([], dtype=np.int64), fix_psi=False)
        o2.set_link_exponents(Ap)
        checks = {
            "grad_covariant": np.abs(o2.psi_gradient @ psip - np.exp(1j * chi[em.edges[:, 0]]) * (o1.psi_gradient @ psi)).max(),
            "lap_covariant": np.abs(o2.psi_laplacian @ psip - np.exp(1j * chi) * (o1.psi_laplacian @ psi)).max(),
            "supercurrent_invariant": np.abs(o2.get_supercurrent(psip) - o1.get_supercurrent(psi)).max(),
        }
        mu = rng.normal(size=N)
        eps = rng.uniform(-1, 1, size=N)
        kw = dict(gamma=float(rng.choice([0, 1, 10])), u=5.79, dt=float(10 ** rng.uniform(-4, -1)))
        r1 = TDGLSolver.solve_for_psi_squared(psi=psi, abs_sq_psi=np.abs(psi) ** 2, mu=mu, epsilon=eps, psi_laplacian=o1.psi_laplacian, **kw)
        r2 = TDGLSolver.solve_for_psi_squared(psi=psip, abs_sq_psi=np.abs(psip) ** 2, mu=mu, epsilon=eps, psi_laplacian=o2.psi_laplacian, **kw)
        if (r1 is None) != (r2 is None):
            checks["step_same_decision"] = 1.0
        elif r1 is not None:
            checks["step_psi_rotates"] = np.abs(r2[0] - r1[0] * np.exp(1j * chi)).max()
            checks["step_modulus"] = np.abs(r2[1] - r1[1]).max()
        for k, v in checks.items():
            n += 1
            if not v < tol * (1 + np.abs(psi).max() ** 3 * 10):
                bad.append(dict(what=k, trial=t, seed=seed, n_sites=N, err=float(v)))
    return bad, n


def replay(unit, obl):
    import tdgl
    bad, n = search(seed=0, trials=20)
    if bad:
        return dict(confirmed=True, failing_input=bad[0], n_failing=len(bad), comparisons=n, tdgl_file=tdgl.__file__,
                    note="generic-mesh obligation replayed on the seeded library of small concrete meshes with random gauge functions")
    return dict(confirmed=False, comparisons=n, tdgl_file=tdgl.__file__)


def bounded(seed=0):
    bad, n = search(seed=seed, trials=40)
    out = dict(kind="bounded", evaluations=n, failing=len(bad), bound=f"40 random meshes x random chi/A/psi, seed {seed}", samples=bad[:3])
    if bad:
        out["broken"] = [f"native gauge run disagrees with the proved covariance: {bad[0]}"]
    return out
