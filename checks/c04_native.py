"""native gauge-covariance harness (replay of C04 obligations / bounded stand-in): real MeshOperators and the real step on
small random meshes under a random gauge function chi."""
import numpy as np
from checks.ops_native import random_mesh, _quiet


def search(seed=0, trials=25, tol=1e-9):
    import scipy.sparse as sp
    from tdgl.finite_volume.operators import MeshOperators
    from tdgl.solver.solver import TDGLSolver
    _quiet()
    rng = np.random.default_rng(seed)
    bad = []
    n = 0
    for t in range(trials):
        mesh = random_mesh(rng)
        em = mesh.edge_mesh
        E, N = len(em.edges), len(mesh.sites)
        A = rng.normal(size=(E, 2))
        chi = rng.normal(size=N) * 2
        psi = rng.normal(size=N) + 1j * rng.normal(size=N)
        # A' with A'.d = A.d + chi_j - chi_i : add grad(chi) along the edge direction
        dchi = chi[em.edges[:, 1]] - chi[em.edges[:, 0]]
        Ap = A + (dchi / em.edge_lengths ** 2)[:, None] * em.directions
        psip = psi * np.exp(1j * chi)
        o1 = MeshOperators(mesh, None, fixed_sites=np.array([], dtype=np.int64), fix_psi=False)
        o1.set_link_exponents(A)
        o2 = MeshOperators(mesh, None, fixed_sites=np.array([], dtype=np.int64), fix_psi=False)
        o2.set_link_exponents(Ap)
        checks = {
            "grad_covariant": np.abs(o2.psi_gradient @ psip - np.exp(1j * chi[em.edges[:, 0]]) * (o1.psi_gradient @ psi)).max(),
            "lap_covariant": np.abs(o2.psi_laplacian @ psip - np.exp(1j * chi) * (o1.psi_laplacian @ psi)).max(),
            "supercurrent_invariant": np.abs(o2.get_supercurrent(psip) - o1.get_supercurrent(psi)).max(),
        }
        mu = rng.normal(size=N)
        eps = rng.uniform(-1, 1, size=N)
        kw = dict(gamma=float(rng.choice([0, 1, 10])), u=5.79, dt=float(10 ** rng.uniform(-4, -1)))
        r1 = TDGLSolver.solve_for_psi_squared(psi=psi, abs_sq_psi=np.abs(psi) ** 2, mu=mu, epsilon=eps, psi_laplacian=o1.psi_laplacian, **kw)
        r2 = TDGLSolver.solve_for_psi_squared(psi=psip, abs_sq_psi=np.abs(psip) ** 2, mu=mu, epsilon=eps, psi_laplacian=o2.psi_laplacian, **kw)
        if (r1 is None) != (r2 is None):
            checks["step_same_decision"] = 1.0
        elif r1 is not None:
            checks["step_psi_rotates"] = np.abs(r2[0] - r1[0] * np.exp(1j * chi)).max()
            checks["step_modulus"] = np.abs(r2[1] - r1[1]).max()
        for k, v in checks.items():
            n += 1
            if not v < tol * (1 + np.abs(psi).max() ** 3 * 10):
                bad.append(dict(what=k, trial=t, seed=seed, n_sites=N, err=float(v)))
    return bad, n


def replay(unit, obl):
    import tdgl
    bad, n = search(seed=0, trials=20)
    if bad:
        return dict(confirmed=True, failing_input=bad[0], n_failing=len(bad), comparisons=n, tdgl_file=tdgl.__file__,
                    note="generic-mesh obligation replayed on the seeded library of small concrete meshes with random gauge functions")
    return dict(confirmed=False, comparisons=n, tdgl_file=tdgl.__file__)


def bounded(seed=0):
    bad, n = search(seed=seed, trials=40)
    out = dict(kind="bounded", evaluations=n, failing=len(bad), bound=f"40 random meshes x random chi/A/psi, seed {seed}", samples=bad[:3])
    if bad:
        out["broken"] = [f"native gauge run disagrees with the proved covariance: {bad[0]}"]
    return out


PHASE_SIGNS = (+1, -1)       # narrowed to the convention of the code after the first scenario


def run_pairs(seed=0):
    """whole-run clause, bounded: the same simulation in two gauges (A and A + c with psi_0 -> psi_0 exp(i c.r), c a uniform vector) gives the
    same |psi|, supercurrent, normal current and potential differences at every recorded step.  Scenarios: static field with / without
    screening, and zero field with screening and a bias current."""
    import logging
    import os
    import tempfile
    logging.disable(logging.CRITICAL)
    import h5py
    import tdgl
    from tdgl.solver.solver import TDGLSolver
    from checks import update_native
    dev = update_native.device()
    bad, n = [], 0
    c = np.array([0.7, -0.4])

    def frames(path):
        out = []
        with h5py.File(path, "r") as f:
            for k in sorted(f["data"], key=int):
                g = f["data"][k]
                mu = np.array(g["mu"])
                out.append(dict(abs_psi=np.abs(np.array(g["psi"])), js=np.array(g["supercurrent"]), jn=np.array(g["normal_current"]), dmu=mu - mu[0]))
        return out
    with tempfile.TemporaryDirectory() as td:
        for tag, B, screening, cur, tpsi in (("static field", 0.3, False, None, 0.0), ("static field, screening", 0.3, True, None, 0.0),
                                             ("zero field, screening, bias current", 0.0, True, dict(source=3.0, drain=-3.0), 0.0),
                                             # superconducting contacts: a non-zero (complex) terminal value is a gauge-dependent number; the run must still be invariant
                                             ("static field, bias current, terminal value 0.6+0.3j", 0.3, False, dict(source=3.0, drain=-3.0), 0.6 + 0.3j)):
            runs = {}
            for sign in (0, +1):
                def field(x, y, z, sign=sign, B=B):
                    return np.stack([-0.5 * B * y + sign * c[0], 0.5 * B * x + sign * c[1], 0 * x], axis=1)
                o = tdgl.SolverOptions(solve_time=0.3, include_screening=screening, adaptive=False, dt_init=1e-2, save_every=20, field_units="mT", terminal_psi=tpsi,
                                       output_file=os.path.join(td, f"g{n}_{sign}.h5"))
                s = TDGLSolver(dev, o, applied_vector_potential=field, terminal_currents=cur)
                runs[sign] = (s, o)
            s0 = runs[0][0]
            A0 = np.array(s0.current_A_applied)
            ref = frames(s0.solve().path)
            ok_any, devs = False, {}
            for sign in (+1,):
                s1 = runs[sign][0]
                # the user-level shift c (in field x length units) in the solver's dimensionless units: A_scale * c.  (Taken from the
                # specification of the run, not from the solver's internal copy of A, which an implementation is free to re-gauge.)
                shift = float(s0.A_scale) * sign * c
                for phase_sign in PHASE_SIGNS:
                    s2 = TDGLSolver(dev, runs[sign][1], applied_vector_potential=s1.applied_vector_potential, terminal_currents=cur)
                    s2.psi_init = s2.psi_init * np.exp(phase_sign * 1j * (np.asarray(dev.mesh.sites) @ shift))
                    got = frames(s2.solve().path)
                    dev_max = max(float(np.abs(a[k] - b[k]).max()) for a, b in zip(ref, got) for k in a)
                    devs[(sign, phase_sign)] = dev_max
            n += 1
            best = min(devs.values())
            if best <= 1e-7 and len(devs) > 1:
                globals()["PHASE_SIGNS"] = (min(devs, key=devs.get)[1],)
            if best > 1e-7:
                bad.append(dict(what="the run depends on the gauge: no uniformly shifted vector potential (with the gauge-transformed initial state) reproduces the frames",
                                scenario=tag, smallest_max_deviation=best, deviations={str(k): v for k, v in devs.items()}))
    logging.disable(logging.NOTSET)
    return bad, n
