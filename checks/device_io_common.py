"""C14: the REAL Device.to_hdf5 / Device.from_hdf5 and Polygon.to_hdf5 / Polygon.from_hdf5 over the abstract HDF5 store (pyvc/models/fsmodel.py).

Device level: Layer, Polygon and Mesh are recording stand-ins (their own round trips are separate units); decided for every presence pattern of
terminals (0/1/3), holes (0/1/3, stored sorted by name), probe points, mesh and the save_mesh flag: every component that was written is read back
into the same role (holes in name order, terminals as the same collection), nothing else is invented, the constructor gets exactly the stored values, and the mesh is attached iff one
was stored.  Polygon level: name (set / None), mesh flag (both values) and the vertex array are handed to the constructor as stored."""
import itertools

import z3

from pyvc import sym, instrument, vc as vcm
from pyvc.arr import SymArray
from pyvc.models import fsmodel
from pyvc.sym import SI, check, explore

D_ = "tdgl.device.device"
P_ = "tdgl.device.polygon"


class H5G:
    """h5py as the (de)serialisation code sees it when it is handed an open group: the classes for isinstance tests (no file is opened here)"""
    File = fsmodel.File
    Group = fsmodel.Group
    Dataset = fsmodel.Dataset
    Empty = fsmodel.Empty


class NPD:
    """numpy as used by the (de)serialisation code: array constructors are the identity on stored values"""
    ndarray = SymArray

    @staticmethod
    def array(x, dtype=None):
        if isinstance(x, fsmodel.Dataset):
            return x.value
        return x

    asarray = array


def run_device_io(mutate=None, prefixes=("C14.",)):
    mut = [(o, n) for (m, o, n) in (mutate or []) if m == D_]
    fs = fsmodel.FS()
    L = instrument.load(D_, rebind={"h5py": H5G, "np": NPD}, mutate=mut, vc=vcm.VC())

    def body():
        sym.ctx().record_prefixes = tuple(prefixes)
        Device = L["Device"]

        class Part:
            """a component with its own serialisation: stores an identity token, is read back as a token-keyed object"""
            registry = {}

            def __init__(self, kind, name=None):
                self.kind, self.name = kind, name
                self.token = f"{kind}:{name}:{len(Part.registry)}"
                Part.registry[self.token] = self

            def to_hdf5(self, g, **kw):
                g.attrs["token"] = self.token
                g.attrs["kw"] = repr(sorted(kw.items()))

            @classmethod
            def read(cls, g):
                return ("read", g.attrs["token"])

        class LayerS(Part):
            @staticmethod
            def from_hdf5(g):
                return Part.read(g)

        L.ns["Layer"] = type("Layer", (), {"from_hdf5": staticmethod(lambda g: Part.read(g))})
        L.ns["Polygon"] = type("Polygon", (), {"from_hdf5": staticmethod(lambda g: Part.read(g))})
        L.ns["Mesh"] = type("Mesh", (), {"from_hdf5": staticmethod(lambda g: Part.read(g))})
        made = []

        def ctor(self_, name, *, layer, film, holes=None, terminals=None, probe_points=None, length_units="um"):
            made.append(dict(name=name, layer=layer, film=film, holes=holes, terminals=terminals, probe_points=probe_points, length_units=length_units))
            self_.mesh = None
        cases = list(itertools.product((0, 1, 3), (0, 1, 3), (False, True), (False, True), (True, False)))
        for n_term, n_hole, has_probe, has_mesh, save_mesh in cases:
            tag = f"terminals={n_term},holes={n_hole},probes={has_probe},mesh={has_mesh},save_mesh={save_mesh}"
            Part.registry.clear()
            del made[:]
            dev = Device.__new__(Device)
            dev.name = "dev"
            dev._length_units = "mm"
            dev.layer = Part("layer")
            dev.film = Part("film", "film")
            # terminal order is user order (not sorted); hole names are chosen so that sorting by name differs from the given order
            dev.terminals = tuple(Part("terminal", nm) for nm in ("zz_source", "aa_drain", "mm_gate")[:n_term])
            dev.holes = tuple(Part("hole", nm) for nm in ("h_c", "h_a", "h_b")[:n_hole])
            probes = SymArray.input("probe_points", (SI(2), SI(2)))
            dev.probe_points = probes if has_probe else None
            dev.mesh = Part("mesh") if has_mesh else None
            g = fsmodel.Group(fs)
            try:
                dev.to_hdf5(g, save_mesh=save_mesh)
            except Exception as e:  # noqa
                check(f"C14.device_io.save_raises_nothing[{tag}]", False, note=f"{type(e).__name__}: {e}")
                continue
            real_init = Device.__init__
            Device.__init__ = ctor
            try:
                back = Device.from_hdf5(g)
            except Exception as e:  # noqa
                check(f"C14.device_io.load_raises_nothing[{tag}]", False, note=f"{type(e).__name__}: {e}")
                continue
            finally:
                Device.__init__ = real_init
            ok_one = len(made) == 1
            check(f"C14.device_io.one_device_constructed[{tag}]", z3.BoolVal(ok_one))
            if not ok_one:
                continue
            kw = made[0]
            tok = lambda p: ("read", p.token)
            check(f"C14.device_io.name_and_length_units[{tag}]", z3.BoolVal(kw["name"] == "dev" and kw["length_units"] == "mm"))
            check(f"C14.device_io.layer_and_film[{tag}]", z3.BoolVal(kw["layer"] == tok(dev.layer) and kw["film"] == tok(dev.film)))
            # (h5py returns the members of a group in name order: the terminals come back as the same collection, possibly in another order, which
            # Device.__eq__ and terminal_info() do not depend on)
            want_terms = sorted(tok(t) for t in dev.terminals) if n_term else None
            check(f"C14.device_io.every_terminal_read_back_once[{tag}]", z3.BoolVal((sorted(kw["terminals"]) if kw["terminals"] is not None else None) == want_terms),
                  note=f"{kw['terminals']} vs {want_terms}")
            want_holes = [tok(h) for h in sorted(dev.holes, key=lambda h: h.name)] if n_hole else None
            check(f"C14.device_io.holes_sorted_by_name_both_ways[{tag}]", z3.BoolVal((list(kw["holes"]) if kw["holes"] is not None else None) == want_holes),
                  note=f"{kw['holes']} vs {want_holes}")
            check(f"C14.device_io.probe_points[{tag}]", z3.BoolVal((kw["probe_points"] is probes) if has_probe else kw["probe_points"] is None))
            want_mesh = tok(dev.mesh) if (has_mesh and save_mesh) else None
            check(f"C14.device_io.mesh_attached_iff_stored[{tag}]", z3.BoolVal(back.mesh == want_mesh), note=f"{back.mesh} vs {want_mesh}")
    obls, n = explore(body)
    return dict(obls=obls, paths=n, sources=[L.info()], consistent=True)


def run_polygon_io(mutate=None, prefixes=("C14.",)):
    mut = [(o, n) for (m, o, n) in (mutate or []) if m == P_]
    fs = fsmodel.FS()
    L = instrument.load(P_, rebind={"h5py": fsmodel.H5(fs), "np": NPD}, mutate=mut, vc=vcm.VC())

    def body():
        sym.ctx().record_prefixes = tuple(prefixes)
        Polygon = L["Polygon"]
        made = []

        def ctor(self_, name=None, *, points, mesh=True):
            made.append(dict(name=name, points=points, mesh=mesh))
        for name, mesh in itertools.product(("film", None), (True, False)):
            tag = f"name={name},mesh={mesh}"
            del made[:]
            p = Polygon.__new__(Polygon)
            pts = SymArray.input("vertices", (SI(z3.Int("n_vertices")), SI(2)))
            p.name, p.mesh, p._points = name, mesh, pts
            g = fsmodel.Group(fs)
            try:
                p.to_hdf5(g)
            except Exception as e:  # noqa
                check(f"C14.polygon_io.save_raises_nothing[{tag}]", False, note=f"{type(e).__name__}: {e}")
                continue
            real_init = Polygon.__init__
            Polygon.__init__ = ctor
            try:
                Polygon.from_hdf5(g)
            except Exception as e:  # noqa
                check(f"C14.polygon_io.load_raises_nothing[{tag}]", False, note=f"{type(e).__name__}: {e}")
                continue
            finally:
                Polygon.__init__ = real_init
            ok_one = len(made) == 1
            check(f"C14.polygon_io.one_polygon_constructed[{tag}]", z3.BoolVal(ok_one))
            if ok_one:
                kw = made[0]
                check(f"C14.polygon_io.name_mesh_flag_and_vertices_as_stored[{tag}]", z3.BoolVal(kw["name"] == name and kw["mesh"] is mesh and kw["points"] is pts),
                      note=f"name={kw['name']!r} mesh={kw['mesh']!r} same vertex array={kw['points'] is pts}")
    obls, n = explore(body)
    return dict(obls=obls, paths=n, sources=[L.info()], consistent=True)
