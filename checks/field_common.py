"""The applied uniform field under contract (C08: unit covariance and flux per triangle; C04: recentring is a gauge choice):
   tdgl.em:uniform_Bz_vector_potential              A = (B/2) (-(y - y_c), x - x_c, 0) in tesla * metre, (x_c, y_c) ONE point for all evaluation points
   tdgl.sources.constant:constant_field_vector_potential   the same in the user's field x length units, for SYMBOLIC unit scale factors: the numbers
                                                    returned do not depend on the unit system at all
   lemma (over these postconditions, no further code): circulation around a triangle = B x area for any (x_c, y_c)
Real code on the pint model (pyvc/models/pintmodel.py) with a symbolic number of evaluation points; min / max / ptp of the coordinates are
uninterpreted reductions of the array (assumed: the same array has the same minimum; no ordering facts are needed)."""
import z3

from pyvc import sym, instrument, vc as vcm
from pyvc.arr import SymArray
from pyvc.models import pintmodel
from pyvc.models.npmodel import NP, BUILTINS
from pyvc.sym import SB, SI, SR, check, assume, explore, FreshInt, Unsupported

EM = "tdgl.em"
CF = "tdgl.sources.constant"
_RED = {}


def _red(kind, arr):
    """uninterpreted reduction (min / max) of a 1-d symbolic array: one real constant per (kind, array contents at a probe index)"""
    key = (kind, arr.at(SI(z3.Int("red_probe"))).e.sexpr(), arr.shape[0].e.sexpr())
    if key not in _RED:
        _RED[key] = SR(z3.Real(sym.fresh_name(kind)))
    return _RED[key]


def _patch_q():
    Q = pintmodel.Q
    if getattr(Q, "_field_patched", False):
        return
    Q.__sub__ = lambda self, o: self.__add__(-o) if isinstance(o, Q) else (_ for _ in ()).throw(pintmodel.DimensionalityError("sub"))
    Q.__rsub__ = lambda self, o: (-self).__add__(o)

    def qmin(self):
        if not (isinstance(self.mag, SymArray) and self.mag.ndim == 1):
            raise Unsupported("min of a non 1-d quantity")
        return Q(_red("min", self.mag), self.dims, self.scale)

    def qmax(self):
        return Q(_red("max", self.mag), self.dims, self.scale)
    Q.min, Q.max = qmin, qmax
    Q.shape = property(lambda self: self.mag.shape)
    Q.ndim = property(lambda self: self.mag.ndim)
    Q._field_patched = True


class NPF(NP):
    @staticmethod
    def atleast_2d(x):
        m = x.mag if isinstance(x, pintmodel.Q) else x
        if isinstance(m, SymArray) and m.ndim == 2:
            return x
        raise Unsupported("atleast_2d")

    @staticmethod
    def ptp(x):
        if isinstance(x, pintmodel.Q):
            return pintmodel.Q(_red("max", x.mag) - _red("min", x.mag), x.dims, x.scale)
        return _red("max", x) - _red("min", x)

    @staticmethod
    def zeros_like(x, dtype=None):
        if isinstance(x, pintmodel.Q):
            return pintmodel.Q(SymArray(x.mag.shape, lambda *i: SR(0)), x.dims, x.scale)
        return SymArray(x.shape, lambda *i: SR(0))

    @staticmethod
    def ones_like(x, dtype=None):
        return SymArray(x.shape, lambda *i: SR(1))

    @staticmethod
    def stack(xs, axis=0):
        xs = list(xs)
        if axis != 1 or not xs:
            raise Unsupported("stack")
        if all(isinstance(x, pintmodel.Q) for x in xs):
            first = xs[0]
            cols = [first.mag] + [x.to(pintmodel.Q(1, first.dims, first.scale)).mag for x in xs[1:]]      # pint converts to the units of the first
            return pintmodel.Q(_cols(cols), first.dims, first.scale)
        if any(isinstance(x, pintmodel.Q) for x in xs):
            raise pintmodel.DimensionalityError("stack of quantities and numbers")
        return _cols(xs)

    @staticmethod
    def array(x, dtype=None):
        if isinstance(x, list) and x and all(isinstance(a, SymArray) and a.ndim == 1 for a in x):
            rows = list(x)
            a = SymArray((SI(len(rows)), rows[0].shape[0]), lambda r, k: _pick(rows, r, k))
            return a
        return NP.array(x, dtype)


def _pick(rows, r, k):
    rc = r.concrete()
    if rc is not None:
        return rows[rc].at(k)
    out = rows[-1].at(k)
    for q in range(len(rows) - 2, -1, -1):
        out = sym.ite(r.e == q, rows[q].at(k), out)
    return out


def _cols(cols):
    from pyvc.arr import _shape_ob
    for c_ in cols[1:]:
        _shape_ob(cols[0].shape, c_.shape)

    def fn(i, k):
        kc = k.concrete()
        if kc is not None:
            return cols[kc].at(i)
        out = cols[-1].at(i)
        for q in range(len(cols) - 2, -1, -1):
            out = sym.ite(k.e == q, cols[q].at(i), out)
        return out
    return SymArray((cols[0].shape[0], SI(len(cols))), fn)


def _load(mutate):
    from checks import c07
    c07._patch_symarray()      # .T
    _patch_q()
    ureg = pintmodel.make_registry()
    mute = [(o, n) for (m, o, n) in (mutate or []) if m == EM]
    mutc = [(o, n) for (m, o, n) in (mutate or []) if m == CF]
    rb = {"np": NPF, "pint": type("PintModule", (), {"Quantity": pintmodel.Q, "UnitRegistry": staticmethod(lambda *a, **k: ureg), "Unit": pintmodel.Q})}
    rb.update({k: v for k, v in BUILTINS.items() if k != "float"})      # `float` is used as a TYPE in isinstance() here
    LE = instrument.load(EM, rebind=rb, mutate=mute, vc=vcm.VC())
    LC = instrument.load(CF, rebind=rb, mutate=mutc, vc=vcm.VC())
    LE.ns["pint"] = rb["pint"]
    return LE, LC


def run_uniform_field(mutate=None, prefixes=("C08.", "C04.")):
    LE, LC = _load(mutate)

    def body():
        c = sym.ctx()
        c.record_prefixes = tuple(prefixes)
        _RED.clear()
        R = z3.Real
        ureg = pintmodel.make_registry()
        ell = ureg.user_unit("LEN", pintmodel.LENGTH, "ell")
        phi = ureg.user_unit("FIELD", pintmodel.FIELD, "phi")
        LE.ns["ureg"] = ureg
        LC.ns["ureg"] = ureg
        n = SI(z3.Int("n_points"))
        assume(n >= 1)
        i, j = SI(FreshInt("i")), SI(FreshInt("j"))
        assume(i >= 0, i < n, j >= 0, j < n)
        # ---- uniform_Bz_vector_potential: positions in metres, field as a quantity in any field unit
        pos = SymArray.input("positions_m", (n, 3))
        Bnum = SR(R("B_num"))
        Bq = pintmodel.Q(Bnum, pintmodel.FIELD, phi)
        A = LE["uniform_Bz_vector_potential"](pos, Bq)
        okA = isinstance(A, pintmodel.Q) and isinstance(A.mag, SymArray) and A.mag.ndim == 2
        want_dims = tuple(a + b for a, b in zip(pintmodel.FIELD, pintmodel.LENGTH))
        check("C08.uniform_field.potential_is_field_times_length_in_tesla_metre", z3.BoolVal(okA and A.dims == want_dims) if not okA else z3.And(z3.BoolVal(A.dims == want_dims), sym.eq(A.scale, 1)))
        if okA:
            def si(q, a, b):
                return SR.lift(q.mag.at(a, SI(b))) * SR.lift(q.scale)
            Bsi = Bnum * phi
            x_i, y_i, x_j, y_j = [SR.lift(pos.at(q, SI(d))) for q in (i, j) for d in (0, 1)]
            # the centre (x_c, y_c) is not named: stated through differences between two evaluation points (any common centre cancels)
            check("C08.uniform_field.A_is_half_B_cross_r_about_one_common_centre",
                  z3.And(sym.eq(si(A, i, 0) - si(A, j, 0), -Bsi * (y_i - y_j) / 2), sym.eq(si(A, i, 1) - si(A, j, 1), Bsi * (x_i - x_j) / 2), sym.eq(si(A, i, 2), 0)))
            # C04: the centre does not depend on the evaluation point (so moving it is a gauge transformation by a linear function): A_i + B/2 (y_i, -x_i) is the same for all i
            check("C04.recentre_is_gauge.centre_is_common_to_all_evaluation_points",
                  z3.And(sym.eq(si(A, i, 0) + Bsi * y_i / 2, si(A, j, 0) + Bsi * y_j / 2), sym.eq(si(A, i, 1) - Bsi * x_i / 2, si(A, j, 1) - Bsi * x_j / 2)))
        # ---- constant_field_vector_potential: coordinates in the user's length unit, field value in the user's field unit
        LC.ns["uniform_Bz_vector_potential"] = LE["uniform_Bz_vector_potential"]
        xs, ys, zs = SymArray.input("x_user", (n,)), SymArray.input("y_user", (n,)), SymArray.input("z_user", (n,))
        Bu = SR(R("Bz_user"))
        out = LC["constant_field_vector_potential"](xs, ys, zs, Bz=Bu, field_units="FIELD", length_units="LEN")
        oko = isinstance(out, SymArray) and out.ndim == 2
        check("C08.constant_field.returns_bare_numbers_per_point_and_component", z3.BoolVal(oko) if not oko else z3.And(sym.eq(out.shape[0], n), sym.eq(out.shape[1], 3)))
        if oko:
            xi_, yi_, xj_, yj_ = [SR.lift(a.at(q)) for q in (i, j) for a in (xs, ys)]
            # numbers in field_units * length_units: no unit scale factor appears (the same numbers in every unit system)
            check("C08.constant_field.numbers_in_field_times_length_units_are_independent_of_the_unit_system",
                  z3.And(sym.eq(SR.lift(out.at(i, SI(0))) - SR.lift(out.at(j, SI(0))), -Bu * (yi_ - yj_) / 2),
                         sym.eq(SR.lift(out.at(i, SI(1))) - SR.lift(out.at(j, SI(1))), Bu * (xi_ - xj_) / 2), sym.eq(out.at(i, SI(2)), 0)))
            # flux per triangle (lemma over the postcondition above): the circulation of A around the triangle of three evaluation points is B x area
            k = SI(FreshInt("k"))
            assume(k >= 0, k < n)
            P = [(SR.lift(xs.at(q)), SR.lift(ys.at(q))) for q in (i, j, k)]
            Av = [(SR.lift(out.at(q, SI(0))), SR.lift(out.at(q, SI(1)))) for q in (i, j, k)]

            def leg(a, b):      # midpoint rule is exact for a linear field: (A_a + A_b)/2 . (r_b - r_a)
                return ((Av[a][0] + Av[b][0]) / 2) * (P[b][0] - P[a][0]) + ((Av[a][1] + Av[b][1]) / 2) * (P[b][1] - P[a][1])
            area = ((P[1][0] - P[0][0]) * (P[2][1] - P[0][1]) - (P[1][1] - P[0][1]) * (P[2][0] - P[0][0])) / 2
            d01 = [sym.eq(Av[1][0] - Av[0][0], -Bu * (P[1][1] - P[0][1]) / 2), sym.eq(Av[1][1] - Av[0][1], Bu * (P[1][0] - P[0][0]) / 2),
                   sym.eq(Av[2][0] - Av[0][0], -Bu * (P[2][1] - P[0][1]) / 2), sym.eq(Av[2][1] - Av[0][1], Bu * (P[2][0] - P[0][0]) / 2)]
            check("C08.flux_per_triangle.circulation_of_the_returned_potential_is_B_times_area", sym.eq(leg(0, 1) + leg(1, 2) + leg(2, 0), Bu * area), extra=d01)
    obls, n_ = explore(body)
    return dict(obls=obls, paths=n_, sources=[LE.info(), LC.info()], consistent=sym.consistent())


def native(seed=0):
    """BOUNDED replay oracle: the real functions (real pint) at random points, three unit systems"""
    import numpy as np
    from tdgl.em import uniform_Bz_vector_potential, ureg
    from tdgl.sources.constant import constant_field_vector_potential
    rng = np.random.default_rng(seed)
    bad, n = [], 0
    for trial in range(6):
        m = int(rng.integers(3, 30))
        pos = rng.normal(size=(m, 3)) * 10.0 ** rng.integers(-7, -3)
        B = float(rng.normal())
        A = uniform_Bz_vector_potential(pos, B * ureg("mT")).to("T * m").magnitude
        n += 1
        d = A - A[0]
        want = np.stack([-(B * 1e-3) * (pos[:, 1] - pos[0, 1]) / 2, (B * 1e-3) * (pos[:, 0] - pos[0, 0]) / 2, np.zeros(m)], axis=1)
        if not np.allclose(d, want, rtol=1e-9, atol=1e-18):
            bad.append(dict(what="uniform_Bz_vector_potential is not (B/2)(-(y - yc), x - xc, 0) about one common centre", B_mT=B, points=m))
        x, y, z = rng.normal(size=m), rng.normal(size=m), np.zeros(m)
        ref = None
        for lu, fu in (("um", "mT"), ("nm", "T"), ("mm", "uT")):
            got = constant_field_vector_potential(x, y, z, Bz=B, field_units=fu, length_units=lu)
            n += 1
            w = np.stack([-B * (y - y[0]) / 2, B * (x - x[0]) / 2, np.zeros(m)], axis=1)
            if got.shape != (m, 3) or not np.allclose(got - got[0], w, rtol=1e-9, atol=1e-12):
                bad.append(dict(what="constant_field_vector_potential: numbers in field x length units depend on the unit system / are not (B/2)(-(y-yc), x-xc, 0)", length_units=lu, field_units=fu))
            if ref is not None and not np.allclose(got, ref, rtol=1e-9, atol=1e-12):
                bad.append(dict(what="constant_field_vector_potential: the same numbers are not returned in another unit system", length_units=lu, field_units=fu))
            ref = got if ref is None else ref
    return bad, n


MUTANTS = [
    dict(name="uniform field: Ax without the minus sign", units=["uniform_Bz_vector_potential / ConstantField"], edits=[(EM, "    Ax = -Bz * ys / 2\n", "    Ax = Bz * ys / 2\n")]),
    dict(name="uniform field: no factor 1/2 in Ay", units=["uniform_Bz_vector_potential / ConstantField"], edits=[(EM, "    Ay = Bz * xs / 2\n", "    Ay = Bz * xs\n")]),
    dict(name="uniform field: y centred on the x range", units=["uniform_Bz_vector_potential / ConstantField"], edits=[(EM, "    ys = ys - (ys.min() + dy / 2)", "    ys = ys - (ys.min() + dx / 2)")], expect="pass"),
    dict(name="uniform field: centre depends on the point", units=["uniform_Bz_vector_potential / ConstantField"], edits=[(EM, "    xs = xs - (xs.min() + dx / 2)", "    xs = xs - xs / 2")]),
    dict(name="constant field: positions not converted to metres", units=["uniform_Bz_vector_potential / ConstantField"], edits=[(CF, "    positions = (positions * ureg(length_units)).to(\"m\").magnitude", "    positions = (positions * ureg(length_units)).magnitude")]),
    dict(name="constant field: result left in tesla metre", units=["uniform_Bz_vector_potential / ConstantField"], edits=[(CF, "    return A.to(f\"{field_units} * {length_units}\").magnitude", "    return A.magnitude")]),
    dict(name="constant field: x and y swapped", units=["uniform_Bz_vector_potential / ConstantField"], edits=[(CF, "positions = np.array([x.squeeze(), y.squeeze(), z.squeeze()]).T", "positions = np.array([y.squeeze(), x.squeeze(), z.squeeze()]).T")]),
]


# ------------------------------------------------------------------------------------------------------------------ current loop source

LP = "tdgl.sources.loop"


def run_loop_source(mutate=None, prefixes=("C20.", "C08.")):
    """tdgl.sources.loop: loop_vector_potential hands current_loop_vector_potential the evaluation points as (x, y, z) rows and the loop's centre, radius,
    current and units by the right names, and returns the result converted to the user's field x length units as bare numbers; CurrentLoop builds a
    (time-independent) parameter around it with every argument under its own name.  The closed form itself is the contract of
    current_loop_vector_potential (checks/c20.py)."""
    from checks import c07
    c07._patch_symarray()
    _patch_q()
    ureg = pintmodel.make_registry()
    mut = [(o, n) for (m, o, n) in (mutate or []) if m == LP]
    rb = {"np": NPF}
    rb.update({k: v for k, v in BUILTINS.items() if k != "float"})
    L = instrument.load(LP, rebind=rb, mutate=mut, vc=vcm.VC())

    def body():
        c = sym.ctx()
        c.record_prefixes = tuple(prefixes)
        R = z3.Real
        ureg = pintmodel.make_registry()
        ell = ureg.user_unit("LEN", pintmodel.LENGTH, "ell")
        phi = ureg.user_unit("FIELD", pintmodel.FIELD, "phi")
        n = SI(z3.Int("n_points"))
        assume(n >= 1)
        xs, ys, zs = SymArray.input("x", (n,)), SymArray.input("y", (n,)), SymArray.input("z", (n,))
        i, k = SI(FreshInt("i")), SI(FreshInt("k"))
        assume(i >= 0, i < n, k >= 0, k < 3)
        seen = {}
        Araw = SymArray.input("A_tesla_metre", (n, 3))
        adims = tuple(a + b for a, b in zip(pintmodel.FIELD, pintmodel.LENGTH))

        def clvp(positions, **kw):
            seen.update(positions=positions, kw=kw)
            return pintmodel.Q(Araw, adims, SR(1))
        L.ns["current_loop_vector_potential"] = clvp
        cur, rad = SR(R("current")), SR(R("radius"))
        centre = (SR(R("cx")), SR(R("cy")), SR(R("cz")))
        out = L["loop_vector_potential"](xs, ys, zs, current=cur, radius=rad, center=centre, current_units="CUR", field_units="FIELD", length_units="LEN")
        P = seen.get("positions")
        okp = isinstance(P, SymArray) and P.ndim == 2
        check("C20.loop_source.evaluation_points_are_x_y_z_rows", z3.BoolVal(False) if not okp else z3.And(sym.eq(P.shape[0], n), sym.eq(P.shape[1], 3),
              sym.eq(P.at(i, SI(0)), xs.at(i)), sym.eq(P.at(i, SI(1)), ys.at(i)), sym.eq(P.at(i, SI(2)), zs.at(i))))
        kw = seen.get("kw", {})
        check("C20.loop_source.loop_described_by_its_own_centre_radius_current_and_units",
              z3.BoolVal(kw.get("loop_center") is centre and kw.get("loop_radius") is rad and kw.get("current") is cur and kw.get("current_units") == "CUR" and kw.get("length_units") == "LEN"
                         and set(kw) == {"loop_center", "loop_radius", "current", "current_units", "length_units"}), note=str(sorted(kw)))
        oko = isinstance(out, SymArray) and out.ndim == 2
        check("C08.loop_source.result_in_the_users_field_times_length_units", z3.BoolVal(False) if not oko else sym.eq(SR.lift(out.at(i, k)) * phi * ell, Araw.at(i, k)))
        got = {}

        class P_:
            def __init__(self, func, time_dependent=False, **kw2):
                got.update(func=func, time_dependent=time_dependent, kw=kw2)
        L.ns["Parameter"] = P_
        L["CurrentLoop"](current=cur, radius=rad, center=[centre[0], centre[1], centre[2]], current_units="CUR", field_units="FIELD", length_units="LEN")
        k2 = got.get("kw", {})
        check("C20.loop_source.parameter_carries_every_argument_under_its_own_name",
              z3.BoolVal(got.get("func") is L["loop_vector_potential"] and not got.get("time_dependent") and k2.get("current") is cur and k2.get("radius") is rad
                         and tuple(k2.get("center", ())) == centre and k2.get("current_units") == "CUR" and k2.get("field_units") == "FIELD" and k2.get("length_units") == "LEN"))
    obls, n_ = explore(body)
    return dict(obls=obls, paths=n_, sources=[L.info()], consistent=sym.consistent())


MUTANTS_LOOP = [
    dict(name="loop source: radius and current swapped", units=["sources.loop"], edits=[(LP, "        loop_radius=radius,\n        current=current,", "        loop_radius=current,\n        current=radius,")]),
    dict(name="loop source: result left in tesla metre", units=["sources.loop"], edits=[(LP, "    return A.to(f\"{field_units} * {length_units}\").magnitude", "    return A.magnitude")]),
    dict(name="loop source: default length units handed on", units=["sources.loop"], edits=[(LP, "        current_units=current_units,\n        length_units=length_units,\n    )\n    return A", "        current_units=current_units,\n    )\n    return A")]),
    dict(name="loop source: y and x swapped", units=["sources.loop"], edits=[(LP, "positions = np.array([x.squeeze(), y.squeeze(), z.squeeze()]).T", "positions = np.array([y.squeeze(), x.squeeze(), z.squeeze()]).T")]),
]


def native_loop(seed=0):
    """BOUNDED replay oracle: the CurrentLoop parameter against current_loop_vector_potential called directly, in two unit systems"""
    import numpy as np
    from tdgl.em import current_loop_vector_potential
    from tdgl.sources import CurrentLoop
    rng = np.random.default_rng(seed)
    bad, n = [], 0
    for lu, fu, cu in (("um", "mT", "uA"), ("nm", "uT", "mA")):
        m = 7
        x, y, z = rng.normal(size=m), rng.normal(size=m), rng.uniform(0.2, 1.0, size=m)
        cur, rad, cen = float(rng.uniform(0.5, 3)), float(rng.uniform(0.3, 2)), tuple(float(v) for v in rng.normal(size=3) * 0.3)
        p = CurrentLoop(current=cur, radius=rad, center=cen, current_units=cu, field_units=fu, length_units=lu)
        got = np.asarray(p(x, y, z))
        ref = current_loop_vector_potential(np.stack([x, y, z], axis=1), loop_center=cen, loop_radius=rad, current=cur, current_units=cu, length_units=lu).to(f"{fu} * {lu}").magnitude
        n += 1
        if got.shape != ref.shape or not np.allclose(got, ref, rtol=1e-12, atol=1e-300):
            bad.append(dict(what="CurrentLoop parameter differs from current_loop_vector_potential of the same loop in the user's field x length units", length_units=lu, field_units=fu, current_units=cu))
    return bad, n
