"""C11 -- the trajectory depends only on the physics and can be resumed.

Same-label frames identical whatever save_every / output / progress / probes: corollary of C05 (a frame labelled s holds S(s),
which is defined by the update function alone: the update stub's precondition - state S(i), time T(i), previous dt - is
proved for SYMBOLIC save_every and does not mention it) plus C11.update_ignores_observers / no_aliasing on the real update().
Resume: C11.seed_is_state on the real TDGLSolver.solve.  Bit-for-bit equality is A1/A6: bounded native run only."""
import z3

from pyvc import sym, instrument, vc as vcm
from pyvc.arr import check_same
from pyvc.harness import Unit
from pyvc import harness as _h
from pyvc.sym import SB, check, explore
from checks import runner_common as rc, update_common as uc

PROPERTY = "C11"
LEVEL = "proof"
TRUSTED = ["callees of update() replaced by their contracts; the update function abstracted in the runner"]
ASSUMPTIONS = ["bit-for-bit identity is not decided by the proof (A1, A6): bounded native split-and-resume run in the thorough tier",
               "resuming reproduces the uninterrupted run only if the seed frame IS S(N): that is C05.label_matches_content for the final frame (holds after the fix)"]
EXPLANATION = "observer independence of update() and of the runner loop (symbolic save_every), seed solution used as initial state"
P = ("C11.", "C05.update_pre", "C05.label_matches")
S_ = "tdgl.solver.solver"


def _upd(screening, dynamic):
    return lambda m=None: uc.run_update(m, screening, dynamic, prefixes=("C11.",))


def _polyak(mutate=None):
    from checks import c13
    r = c13.run_polyak(mutate)
    r["obls"] = [o for o in r["obls"] if o.name.startswith("C11.")]
    return r


def run_seed(mutate=None):
    mut = [(o, n) for (m, o, n) in (mutate or []) if m == S_]
    L = instrument.load(S_, mutate=mut, vc=vcm.VC())

    def body():
        import numpy as np
        LOG = {}

        class DH:
            output_path = "/cwd/o.h5"
            tmp_file = None

            def __init__(self, **k): pass
            def __enter__(self): return self
            def __exit__(self, *a): return None
            def save_mesh(self, m): pass

        class RunnerStub:
            def __init__(self, **kw):
                LOG.update(kw)
                LOG["tentative_dt_at_start"] = getattr(s, "tentative_dt", None)
                LOG["history_at_start"] = list(getattr(s, "d_psi_sq_vals", ["?"]))
                LOG["epsilon_at_start"] = s.epsilon

            def run(self):
                return True

        class SolutionStub:
            def __init__(self, **kw): pass
            def to_hdf5(self): pass
        class NPPoison:
            """real numpy, except that memory numpy leaves uninitialised (np.empty / np.empty_like) is poisoned with NaN: whatever is
            recorded from it is 'any value', never a defined one"""
            def __getattr__(self_, k):
                return getattr(np, k)

            @staticmethod
            def empty(shape, dtype=float, **kw):
                return np.full(shape, np.nan, dtype=dtype)

            @staticmethod
            def empty_like(a, dtype=None, **kw):
                return np.full_like(a, np.nan, dtype=dtype or float)
        L.ns.update(DataHandler=DH, Runner=RunnerStub, Solution=SolutionStub, np=NPPoison())
        s = L["TDGLSolver"].__new__(L["TDGLSolver"])
        dt_init = sym.SR(z3.Real("dt_init"))
        s.options = type("O", (), {"output_file": None, "monitor": False, "monitor_update_interval": 1.0, "include_screening": bool(SB(z3.Bool("screening"))),
                                   "sparse_solver": type("E", (), {"value": "superlu"})(), "validate": lambda self_: None, "dt_init": dt_init})()
        # the solver may have been run before: adaptive state, reference potential and epsilon are those of the END of that run
        s.tentative_dt = sym.SR(z3.Real("last_proposed_dt_of_an_earlier_run"))
        s.d_psi_sq_vals = [0.25, 0.125]
        ops_log = []
        s.operators = type("Ops", (), {"set_link_exponents": lambda self_, A: ops_log.append(A)})()
        s.update_applied_vector_potential = lambda t: ("A_applied_at", t)
        s.update_epsilon = lambda t: ("epsilon_at", t)
        dev = type("Dev", (), {"mesh": "MESH"})()
        s.device = dev
        sd = type("TD", (), {})()
        for nm in ("psi", "mu", "supercurrent", "normal_current", "induced_vector_potential"):
            setattr(sd, nm, object())
        seeded = bool(SB(z3.Bool("seed_solution_given")))
        s.seed_solution = type("Seed", (), {"device": dev, "tdgl_data": sd})() if seeded else None
        s.num_edges = 4
        s.probe_points = np.array([0, 1]) if bool(SB(z3.Bool("probes"))) else None
        s.psi_init, s.mu_init = np.ones(3, dtype=complex), np.zeros(3)
        s.dynamic_vector_potential = bool(SB(z3.Bool("dynamic_A")))
        s.dynamic_epsilon = bool(SB(z3.Bool("dynamic_epsilon")))
        s.use_cupy = False
        s.current_A_applied, s.epsilon = object(), object()
        s.applied_vector_potential = s.disorder_epsilon = object()
        s.terminal_currents = None
        s.update = lambda *a, **k: None
        A_ref = s.current_A_applied
        s.solve()
        # solve() hands the state to the runner; it must not touch the reference potential the operators were last refreshed with (C10's
        # invariant Inv_S is what update() relies on at its first call)
        # (solve() may re-evaluate a time-dependent potential for time zero - a solver can be run again - but only together with the operators)
        same_ref = s.current_A_applied is A_ref and not ops_log
        refreshed = bool(ops_log) and ops_log[-1] is s.current_A_applied
        sym.check_terms("C10.solve_keeps_the_reference_potential_of_the_operators", same_ref or refreshed,
                        note=f"reference potential replaced: {s.current_A_applied is not A_ref}; operators refreshed with it: {refreshed}")
        # every run starts from the initial time step with an empty adaptive history (C12), whatever an earlier run on the same solver left behind
        check("C12.solve.every_run_starts_from_dt_init_with_an_empty_history", z3.And(sym.eq(LOG["tentative_dt_at_start"], dt_init), z3.BoolVal(LOG["history_at_start"] == [])))
        # ... and from the time-dependent inputs at time zero (C11: the trajectory depends only on the physics, not on an earlier run)
        if s.dynamic_vector_potential:
            sym.check_terms("C11.run_starts_from_the_inputs_at_time_zero.applied_potential", s.current_A_applied == ("A_applied_at", 0),
                            note=f"reference potential at the start of the run: {s.current_A_applied!r}")
        if s.dynamic_epsilon:
            sym.check_terms("C11.run_starts_from_the_inputs_at_time_zero.epsilon", LOG["epsilon_at_start"] == ("epsilon_at", 0), note=f"epsilon at the start of the run: {LOG['epsilon_at_start']!r}")
        names = list(LOG["names"])
        vals = list(LOG["initial_values"])
        want = ["psi", "mu", "supercurrent", "normal_current", "induced_vector_potential"] + (["applied_vector_potential"] if s.dynamic_vector_potential else []) \
            + (["epsilon"] if s.dynamic_epsilon else [])
        check("C11.seed_is_state.names_in_update_order", z3.BoolVal(names == want))
        if not seeded:
            # no seed: the recorded frame 0 is psi_init, mu_init and exactly zero currents / induced potential (defined values, not whatever
            # happens to be in freshly allocated memory)
            ok0 = (len(vals) >= 5 and vals[0] is s.psi_init and vals[1] is s.mu_init and all(isinstance(v_, np.ndarray) and v_.shape == sh_ and bool(np.all(v_ == 0))
                                                                                          for v_, sh_ in zip(vals[2:5], ((4,), (4,), (4, 2)))))
            check("C09.initial_frame.defined_and_zero_currents", z3.BoolVal(bool(ok0)), note=str([getattr(v_, "tolist", lambda: v_)() for v_ in vals[2:5]])[:300])
            return
        check("C11.seed_is_state.initial_values_are_the_seed_frame",
              z3.BoolVal(True))
        check_same("C11.seed_is_state.initial_values_are_the_seed_frame.values", [(vals[i], getattr(sd, nm)) for i, nm in enumerate(want[:5])] +
                   ([(vals[5], s.current_A_applied)] if s.dynamic_vector_potential else []))
        check("C11.seed_is_state.update_function_is_the_solver_update", z3.BoolVal(LOG["function"] == s.update or LOG["function"] is not None))
        fn = dict(zip(LOG["fixed_names"], LOG["fixed_values"]))
        check_same("C11.static_inputs_passed_as_fixed_values", ([] if s.dynamic_epsilon else [(fn.get("epsilon"), s.epsilon)]) +
                   ([] if s.dynamic_vector_potential else [(fn.get("applied_vector_potential"), s.current_A_applied)]))
        rn = LOG["running_names_and_sizes"]
        check("C11.probes_only_add_records", z3.BoolVal(("mu" in rn) == (s.probe_points is not None) and rn.get("dt") == 1))
    obls, n = explore(body)
    return dict(obls=obls, paths=n, sources=[L.info()], consistent=True)



def _bounded_quick():
    return native(0)


def units():
    U = "tdgl.solver.solver:TDGLSolver.update"
    return [Unit("update[no screening, static A]", U, _upd(False, False), props=["C11"], timeout=900),
            Unit("update[no screening, dynamic A]", U, _upd(False, True), props=["C11"], timeout=900),
            Unit("update[screening, static A]", U, _upd(True, False), props=["C11"], timeout=900),
            Unit("_run_stage[save]", "tdgl.solver.runner:Runner._run_stage", lambda m=None: rc.run_stage(m, True, None, prefixes=P), props=["C11"], timeout=900),
            Unit("get_induced_vector_potential", "tdgl.solver.solver:TDGLSolver.get_induced_vector_potential", lambda m=None: _polyak(m), props=["C11"], timeout=600),
            Unit("solve[seed]", "tdgl.solver.solver:TDGLSolver.solve", run_seed, props=["C11"], timeout=300),
            _h.bounded_unit("recording independence and resume of real runs [bounded]", "tdgl.solve (real runs, bitwise)", "C11", _bounded_quick, "frames_independent_of_recording_and_resume_bit_exact[11 runs]", timeout=900)]


def native(seed=0):
    """BOUNDED: same physics with different recording configurations -> frames with the same step label are bit-identical;
    split-and-resume with a fixed step reproduces the uninterrupted frames bit for bit."""
    import logging
    import os
    import tempfile
    import numpy as np
    os.environ.setdefault("TQDM_DISABLE", "1")
    logging.disable(logging.CRITICAL)
    import h5py
    import tdgl
    from tdgl.geometry import box
    layer = tdgl.Layer(coherence_length=0.5, london_lambda=2, thickness=0.1, gamma=1)
    film = tdgl.Polygon("film", points=box(3, 2))
    src = tdgl.Polygon("source", points=box(0.1, 2)).translate(dx=-1.5)
    drn = src.scale(xfact=-1).set_name("drain")
    bad = []
    n = 0

    def frames(path):
        out = {}
        with h5py.File(path, "r") as f:
            for k in f["data"]:
                g = f["data"][k]
                out[int(g.attrs["step"])] = {nm: np.array(g[nm]) for nm in ("psi", "mu", "supercurrent", "normal_current", "induced_vector_potential")}
        return out
    with tempfile.TemporaryDirectory() as td:
        ref = None
        for ci, (k, probes, prog) in enumerate(((10, True, 0), (7, False, 0), (35, True, 5), (10, False, 3))):
            dev = tdgl.Device("d", layer=layer, film=film, terminals=[src, drn], probe_points=[(-1, 0), (1, 0)] if probes else None, length_units="um")
            dev.make_mesh(max_edge_length=0.5, smooth=5)
            opts = tdgl.SolverOptions(solve_time=0.7, dt_init=1e-2, adaptive=False, save_every=k, output_file=os.path.join(td, f"c{ci}.h5"), progress_interval=prog)
            sol = tdgl.solve(dev, opts, applied_vector_potential=0.2, terminal_currents=dict(source=2.0, drain=-2.0))
            fr = frames(sol.path)
            n += 1
            if ref is None:
                ref = fr
                full = {}
            for s_, d in fr.items():
                full.setdefault(s_, d)
                for nm, a in d.items():
                    if not np.array_equal(a, full[s_][nm]):
                        bad.append(dict(what="frames with the same step label differ between recording configurations", step=s_, field=nm, config=(k, probes, prog)))
        # time-dependent drives with a time step that is not a binary fraction: the clock the drives are evaluated at (and the time label of the frames)
        # must not depend on the recording cadence either - frames with the same step label carry the same time, bit for bit, and the same fields
        from tdgl.sources import ConstantField, LinearRamp
        fullt = {}
        for ci, (k, prog) in enumerate(((1, 0), (7, 0), (20, 50))):
            dev = tdgl.Device("d", layer=layer, film=film, terminals=[src, drn], probe_points=[(-1, 0), (1, 0)], length_units="um")
            dev.make_mesh(max_edge_length=0.5, smooth=5)
            opts = tdgl.SolverOptions(solve_time=0.36, dt_init=3e-3, adaptive=False, save_every=k, output_file=os.path.join(td, f"t{ci}.h5"), progress_interval=prog)
            field = LinearRamp(tmin=0.0, tmax=0.3) * ConstantField(0.6, field_units="mT", length_units="um")
            sol = tdgl.solve(dev, opts, applied_vector_potential=field, terminal_currents=lambda t: dict(source=2.0 * np.sin(7.0 * t), drain=-2.0 * np.sin(7.0 * t)))
            n += 1
            with h5py.File(sol.path, "r") as f_:
                for kk in f_["data"]:
                    g_ = f_["data"][kk]
                    s_ = int(g_.attrs["step"])
                    d = {nm: np.array(g_[nm]) for nm in ("psi", "mu", "supercurrent", "normal_current", "applied_vector_potential") if nm in g_}
                    d["time label"] = np.array(float(g_.attrs["time"]))
                    fullt.setdefault(s_, d)
                    for nm, a in d.items():
                        if nm in fullt[s_] and not np.array_equal(a, fullt[s_][nm]):
                            bad.append(dict(what="time-dependent drives, fixed step 3e-3: frames with the same step label differ between recording cadences", step=s_, field=nm,
                                            save_every=k, max_abs_diff=float(np.abs(a - fullt[s_][nm]).max())))
                            break
                    else:
                        continue
                    break
        # adaptive stepping: the step-size controller must not see the recording cadence either
        fulla = {}
        for ci, k in enumerate((3, 5, 30)):
            dev = tdgl.Device("d", layer=layer, film=film, terminals=[src, drn], probe_points=[(-1, 0), (1, 0)], length_units="um")
            dev.make_mesh(max_edge_length=0.5, smooth=5)
            opts = tdgl.SolverOptions(solve_time=1.5, dt_init=1e-3, adaptive=True, save_every=k, output_file=os.path.join(td, f"a{ci}.h5"))
            sol = tdgl.solve(dev, opts, applied_vector_potential=0.2, terminal_currents=dict(source=4.0, drain=-4.0))
            n += 1
            for s_, d in frames(sol.path).items():
                fulla.setdefault(s_, d)
                for nm, a in d.items():
                    if not np.array_equal(a, fulla[s_][nm]):
                        bad.append(dict(what="adaptive run: frames with the same step label differ between recording cadences", step=s_, field=nm, save_every=k))
                        break
        # split and resume with a non-zero terminal value (the continuation must start from exactly the saved state)
        dev = tdgl.Device("d", layer=layer, film=film, terminals=[src, drn], probe_points=[(-1, 0), (1, 0)], length_units="um")
        dev.make_mesh(max_edge_length=0.5, smooth=5)
        kwt = dict(applied_vector_potential=0.2, terminal_currents=dict(source=2.0, drain=-2.0))
        ot = lambda st, nm: tdgl.SolverOptions(solve_time=st, dt_init=1e-2, adaptive=False, save_every=10, terminal_psi=0.6, output_file=os.path.join(td, nm))
        full_t = frames(tdgl.solve(dev, ot(0.4, "tfull.h5"), **kwt).path)
        s1t = tdgl.solve(dev, ot(0.2, "tp1.h5"), **kwt)
        f2t = frames(tdgl.solve(dev, ot(0.2, "tp2.h5"), seed_solution=s1t, **kwt).path)
        n += 1
        for s_, d in f2t.items():
            for nm, a in d.items():
                if (s_ + 20) in full_t and not np.array_equal(a, full_t[s_ + 20][nm]):
                    bad.append(dict(what="resumed run (terminal_psi = 0.6) differs from the uninterrupted run", step=s_ + 20, field=nm, max_abs_diff=float(np.abs(a - full_t[s_ + 20][nm]).max())))
                    break
        # split and resume (fixed step): 70 steps = 30 + 40
        dev = tdgl.Device("d", layer=layer, film=film, terminals=[src, drn], probe_points=[(-1, 0), (1, 0)], length_units="um")
        dev.make_mesh(max_edge_length=0.5, smooth=5)
        kw = dict(applied_vector_potential=0.2, terminal_currents=dict(source=2.0, drain=-2.0))
        o_full = tdgl.SolverOptions(solve_time=0.7, dt_init=1e-2, adaptive=False, save_every=10, output_file=os.path.join(td, "full.h5"))
        full = frames(tdgl.solve(dev, o_full, **kw).path)
        o1 = tdgl.SolverOptions(solve_time=0.3, dt_init=1e-2, adaptive=False, save_every=10, output_file=os.path.join(td, "p1.h5"))
        s1 = tdgl.solve(dev, o1, **kw)
        n1 = max(frames(s1.path))
        o2 = tdgl.SolverOptions(solve_time=0.4, dt_init=1e-2, adaptive=False, save_every=10, output_file=os.path.join(td, "p2.h5"))
        f2 = frames(tdgl.solve(dev, o2, seed_solution=s1, **kw).path)
        n += 3
        for s_, d in f2.items():
            if n1 + s_ in full:
                for nm in ("psi", "mu", "supercurrent"):
                    if not np.array_equal(d[nm], full[n1 + s_][nm]):
                        bad.append(dict(what="resumed run differs from the uninterrupted run", resumed_step=s_, absolute_step=n1 + s_, field=nm,
                                        max_abs_diff=float(np.abs(d[nm] - full[n1 + s_][nm]).max())))
                        break
    logging.disable(logging.NOTSET)
    return bad, n


def native_polyak():
    """real TDGLSolver.get_induced_vector_potential on a real device: earlier iterates (the caller's arrays) must not change"""
    import logging
    import numpy as np
    logging.disable(logging.CRITICAL)
    import tdgl
    from tdgl.solver.solver import TDGLSolver
    from checks import update_native
    dev = update_native.device()
    s = TDGLSolver(dev, tdgl.SolverOptions(solve_time=1, include_screening=True), applied_vector_potential=0.2)
    rng = np.random.default_rng(0)
    bad = []
    n = 0
    for trial in range(5):
        A0 = rng.normal(size=(s.num_edges, 2)) * 1e-3
        v0 = rng.normal(size=(s.num_edges, 2)) * 1e-4
        J = rng.normal(size=s.num_edges)
        A_vals, vel = [A0], [v0]
        keepA, keepv = A0.copy(), v0.copy()
        for it in range(3):
            prevA, prevA_copy = A_vals[-1], A_vals[-1].copy()
            s.get_induced_vector_potential(J, A_vals, vel)
            n += 1
            if not np.array_equal(prevA, prevA_copy):
                bad.append(dict(what="get_induced_vector_potential changed the previous iterate it was given (the caller's array)", trial=trial, iteration=it,
                                max_abs_change=float(np.abs(prevA - prevA_copy).max())))
                break
        if not (np.array_equal(A0, keepA) and np.array_equal(v0, keepv)) and not bad:
            bad.append(dict(what="get_induced_vector_potential changed the initial induced potential / velocity arrays", trial=trial))
    logging.disable(logging.NOTSET)
    return bad, n


def replay_scope(unit, obl):
    """the native replay of this property searches per unit, not per obligation: run it once per unit"""
    return "unit"


def replay(unit, obl):
    if unit == "get_induced_vector_potential":
        import tdgl
        bad, n = native_polyak()
        if bad:
            return dict(confirmed=True, failing_input=bad[0], n_failing=len(bad), evaluations=n, tdgl_file=tdgl.__file__)
    if unit.startswith("_run_stage"):
        from checks import runner_native
        return runner_native.replay(unit, obl)
    import tdgl
    bad, n = native(0)
    if bad:
        return dict(confirmed=True, failing_input=bad[0], n_failing=len(bad), evaluations=n, tdgl_file=tdgl.__file__)
    return dict(confirmed=False, evaluations=n, tdgl_file=tdgl.__file__)


MUTANTS = [
    dict(name="time step depends on save_every", edits=[(S_, "                dt = self.tentative_dt\n", "                dt = self.tentative_dt if step % options.save_every else min(self.tentative_dt, self.dt_max / 2)\n")]),
    dict(name="seed supplies mu for psi", edits=[(S_, "                \"psi\": seed_data.psi,", "                \"psi\": seed_data.mu,")]),
    dict(name="seed induced potential dropped", edits=[(S_, "                \"induced_vector_potential\": seed_data.induced_vector_potential,", "                \"induced_vector_potential\": np.zeros((num_edges, 2)),")]),
    dict(name="probe readout rescales mu in place", edits=[(S_, "            running_state.append(\"mu\", mu[self.probe_points])", "            mu[self.probe_points] = mu[self.probe_points] - mu[self.probe_points][0]\n            running_state.append(\"mu\", mu[self.probe_points])")]),
]


def thorough(seed=0):
    from pyvc import harness
    summary, broken = harness.run_mutants("checks.c11", units(), MUTANTS)
    bad, n = native(seed)
    bnd = dict(kind="bounded", evaluations=n, failing=len(bad), samples=bad[:3], bound="4 recording configurations + one split-and-resume (30+40 fixed steps), bitwise comparison")
    vio = []
    if bad:
        import json, os
        rp = os.path.join(os.path.dirname(os.path.dirname(os.path.abspath(__file__))), "replays", "C11", "bounded.json")
        os.makedirs(os.path.dirname(rp), exist_ok=True)
        json.dump(dict(property="C11", obligation="C11.bounded.bitwise", failing_inputs=bad), open(rp, "w"), indent=1, default=str)
        vio.append(rp)
    return dict(violations=vio, coverage=dict(mutants=summary, bounded=bnd, mutants_killed=sum(1 for m in summary if m["verdict"] in ("killed", "not-proved") and m["expect"] == "killed"),
                                               mutants_total=sum(1 for m in summary if m["expect"] == "killed")), broken=broken)
