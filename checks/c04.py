"""C04 -- observables are invariant under gauge transformations.

Operator level (all meshes, all A, all site functions chi): with A'_e.d_e = A_e.d_e + chi_j - chi_i and psi' = psi cis(chi):
the REAL build_gradient / get_supercurrent are executed twice (A and A'), and the covariance identities are proved at the
generic edge; the Laplacian identity is a per-edge lemma on its stencil (stencil proved in C03).
Step level: the REAL solve_for_psi_squared executed twice (psi, L psi) and (psi X, (L psi) X), |X| = 1.
Whole-run clause: corollary by induction over steps, written out in lemmas/gauge_run.md (premises = these obligations,
C12, C13, A5)."""
import z3

from pyvc import sym, arr
from pyvc.arr import SymArray
from pyvc.harness import Unit
from pyvc import harness
from pyvc.sym import SB, SC, SI, SR, check, explore, assume, cis
from checks import ops_common as oc, c02

PROPERTY = "C04"
LEVEL = "proof"
TRUSTED = ["numpy / scipy.sparse models", "cis(theta) laws: cis(a+b)=cis(a)cis(b), cis(-a)=conj(cis(a)), |cis|=1 (normal form of pyvc.sym.cis)",
           "whole-run clause is a written corollary (lemmas/gauge_run.md), not a mechanical proof"]
ASSUMPTIONS = ["valid_mesh (see C03)", "a gauge-transformed potential A' enters only through its edge projections A'.d = A.d + chi_j - chi_i "
               "(exactly the property's hypothesis for the discrete gradient of chi)",
               "A5: mu is determined by the gauge-invariant right-hand side up to the additive constant of the singular Neumann problem",
               "C04.recentre_is_gauge (uniform_Bz_vector_potential) is decided with the pint model in C08"]
EXPLANATION = "covariance of the real covariant gradient / supercurrent and of one Euler step, for all chi, A, psi, meshes"


class GaugeShifted(SymArray):
    """A' = A + grad(chi) on the edges: an (E,2) array known through its projection on the edge directions"""

    def __init__(self, A, chi, M):
        super().__init__(A.shape, lambda k, c: SR(sym.FreshReal("Aprime_component")))
        self.A, self.chi, self.M = A, chi, M

    def einsum_with(self, directions):
        A, chi, M = self.A, self.chi, self.M
        if directions is not M.edge_mesh.directions:
            raise sym.Unsupported("gauge-shifted potential projected on something other than the edge directions")
        base = A.at
        return SymArray(A.shape[:1], lambda k: base(k, SI(0)) * SR(M.dir(k.e, 0)) + base(k, SI(1)) * SR(M.dir(k.e, 1))
                        + chi.at(SI(M.j(k.e))) - chi.at(SI(M.i(k.e))))


def run_operators(mutate=None):
    L = oc.load_ops(mutate)

    def body():
        M = oc.setup_mesh()
        arr.COO.mesh_axioms = staticmethod(lambda idxs: oc.edge_ax(M)(idxs))
        A = M.A_field("A")
        chi = SymArray.input("chi", (M.N,))
        psi = SymArray.input("psi", (M.N,), kind="c")
        Ap = GaugeShifted(A, chi, M)
        psip = SymArray((M.N,), lambda k: psi.at(k) * cis(chi.at(k)), kind="c")
        e = SI(sym.FreshInt("e"))
        assume(e >= 0, e < M.E)
        sym.ctx().pc += M.edge_axioms([e])
        out = {}
        for tag, Ax, px in (("A", A, psi), ("Ap", Ap, psip)):
            ops = oc.make_operators(L, M, fix_psi=False)
            ops.set_link_exponents(Ax)
            grad = ops.psi_gradient @ px
            js = ops.get_supercurrent(px)
            out[tag] = (grad.at(e), js.at(e))
        Xi = cis(chi.at(SI(M.i(e.e))))
        check("C04.grad_covariant", sym.eq(out["Ap"][0], Xi * out["A"][0]))
        check("C04.supercurrent_invariant", sym.eq(out["Ap"][1], out["A"][1]))
        check("C04.supercurrent_is_real", z3.BoolVal(isinstance(out["A"][1], SR)))
        # covariant Laplacian: contribution of edge e to rows i and j (stencil of C03) transforms with cis(chi_row)
        i_, j_ = SI(M.i(e.e)), SI(M.j(e.e))
        W = M.s(e) / M.l(e)

        def contrib(U, p):
            ri = (W / M.a(i_)) * (U * p.at(j_) - p.at(i_))
            rj = (W / M.a(j_)) * (U.conjugate() * p.at(i_) - p.at(j_))
            return ri, rj
        U = oc.U_spec(M, A, e)
        Up = cis(-(A.at(e, SI(0)) * SR(M.dir(e.e, 0)) + A.at(e, SI(1)) * SR(M.dir(e.e, 1)) + chi.at(j_) - chi.at(i_)))
        ri, rj = contrib(U, psi)
        rpi, rpj = contrib(Up, psip)
        check("C04.lap_covariant.row_i", sym.eq(rpi, cis(chi.at(i_)) * ri))
        check("C04.lap_covariant.row_j", sym.eq(rpj, cis(chi.at(j_)) * rj))
    obls, n = explore(body)
    return dict(obls=obls, paths=n, sources=[L.info()], consistent=sym.consistent())


def _one_step(fn, a):
    c = sym.ctx()
    g = c.ghost
    for k in ("opaque", "opaque_def", "any"):
        g.pop(k, None)
    n0 = len(g.get("reveal", {}).get("z", []))
    res = fn(**a)
    anys = list(g.get("any", []))
    return res, anys, g["opaque"]["z"], g["opaque"]["w"]


def run_step(mutate=None):
    """solve_for_psi_squared under psi -> psi X, L psi -> (L psi) X (|X|=1) and under mu -> mu + c"""
    L = c02.load(mutate)
    fn = L["TDGLSolver"].solve_for_psi_squared
    from pyvc import vc as vcm

    def body():
        R = z3.Real
        a = c02.inputs()
        assume(a["gamma"] >= 0, a["u"] > 0, a["dt"] > 0, a["abs_sq_psi"] == a["psi"].abs2())
        X = sym.cis_atom(R("chi_site"))
        lap = a["psi_laplacian"].val
        r1, any1, z1, w1 = _one_step(fn, a)

        class Rot:
            def __matmul__(self, v):
                return lap * X
        b = dict(a)
        b["psi"] = a["psi"] * X
        b["psi_laplacian"] = Rot()
        r2, any2, z2, w2 = _one_step(fn, b)
        rev = vcm.reveal("z", "w") + sym.congruence_axioms()
        l1 = z3.And(sym.eq(z2, z1 * X), sym.eq(w2, w1 * X))
        check("C04.step_covariant.z_w_rotate", l1, extra=rev)
        def parts(z, w):
            c_ = w.re * z.re + w.im * z.im
            b_ = 2 * c_ + 1
            return b_, w.abs2(), b_ * b_ - 4 * z.abs2() * w.abs2()
        b1, ww1, D1 = parts(z1, w1)
        b2, ww2, D2 = parts(z2, w2)
        l1b = z3.And(b2.e == b1.e, ww2.e == ww1.e, D2.e == D1.e)
        check("C04.step_covariant.c_w2_discriminant_unchanged", l1b, extra=[l1])
        if len(any1) == 1 and len(any2) == 1:
            check("C04.step_covariant.same_refusal_test", any1[0][1] == any2[0][1], extra=[l1b])
        check("C04.step_covariant.same_decision_shape", z3.BoolVal((r1 is None) == (r2 is None)) if len(any1) != 1 else z3.BoolVal(True))
        if r1 is not None and r2 is not None:
            l2 = r2[1].e == r1[1].e
            check("C04.step_covariant.modulus_unchanged", l2, extra=[l1b] + sym.congruence_axioms())
            check("C04.step_covariant.psi_rotates", sym.eq(r2[0], r1[0] * X), extra=[l1, l2])
        # mu -> mu + c (site independent): common factor cis(-c dt); |psi'|^2 and the refusal test unchanged
        cc = SR(R("mu_shift"))
        d = dict(a)
        d["mu"] = a["mu"] + cc
        r3, any3, z3_, w3 = _one_step(fn, d)
        Y = cis(-(cc * a["dt"]))
        rev = vcm.reveal("z", "w") + sym.congruence_axioms()
        m1 = z3.And(sym.eq(z3_, z1 * Y), sym.eq(w3, w1 * Y))
        check("C04.mu_constant_is_global_phase.z_w", m1, extra=rev)
        b3, ww3, D3 = parts(z3_, w3)
        m1b = z3.And(b3.e == b1.e, ww3.e == ww1.e, D3.e == D1.e)
        check("C04.mu_constant_is_global_phase.c_w2_discriminant_unchanged", m1b, extra=[m1])
        if r1 is not None and r3 is not None:
            m2 = r3[1].e == r1[1].e
            check("C04.mu_constant_is_global_phase.modulus_unchanged", m2, extra=[m1b] + sym.congruence_axioms())
            check("C04.mu_constant_is_global_phase.psi", sym.eq(r3[0], r1[0] * Y), extra=[m1, m2])
        if len(any1) == 1 and len(any3) == 1:
            check("C04.mu_constant_is_global_phase.same_refusal_test", any1[0][1] == any3[0][1], extra=[m1b])
    obls, n = explore(body)
    return dict(obls=obls, paths=n, sources=[L.info()], consistent=sym.consistent())


def units():
    return [Unit("covariant_operators", "tdgl.finite_volume.operators:build_gradient / MeshOperators.get_supercurrent / laplacian stencil", run_operators, props=["C04"], timeout=600),
            Unit("step_covariance", "tdgl.solver.solver:TDGLSolver.solve_for_psi_squared", run_step, props=["C04"], timeout=600),
            harness.bounded_unit("whole runs in two gauges [bounded]", "tdgl.solver.solver:TDGLSolver.solve (real runs)", "C04", _pairs,
                                 "whole_run_reproduced_in_a_uniformly_shifted_gauge[3 scenarios]", timeout=900)]


def _pairs():
    from checks import c04_native
    return c04_native.run_pairs(0)


def replay_scope(unit, obl):
    """the native replay of this property searches per unit, not per obligation: run it once per unit"""
    return "unit"


def replay(unit, obl):
    from checks import c04_native
    if "bounded" in unit:
        bad, n = c04_native.run_pairs(0)
        return dict(confirmed=bool(bad), failing_input=(bad or [None])[0], evaluations=n)
    return c04_native.replay(unit, obl)


M_ = "tdgl.finite_volume.operators"
S_ = "tdgl.solver.solver"
MUTANTS = [
    dict(name="supercurrent uses psi_j conjugate", edits=[(M_, "return (psi.conjugate()[self.edges[:, 0]] * (self.psi_gradient @ psi)).imag", "return (psi.conjugate()[self.edges[:, 1]] * (self.psi_gradient @ psi)).imag")], units=["covariant_operators"]),
    dict(name="gradient link exponent sign", edits=[(M_, "link_variable_weights = np.exp(\n            -1j * np.einsum(\"ij, ij -> i\", link_exponents, edge_mesh.directions)\n        )\n    rows", "link_variable_weights = np.exp(\n            1j * np.einsum(\"ij, ij -> i\", link_exponents, edge_mesh.directions)\n        )\n    rows")], units=["covariant_operators"]),
    dict(name="not a C04 violation: real part of the gauge-invariant bilinear is gauge invariant too", expect="pass", edits=[(M_, "(self.psi_gradient @ psi)).imag", "(self.psi_gradient @ psi)).real")], units=["covariant_operators"]),
    dict(name="temporal link dropped in w", edits=[(S_, "w = z * abs_sq_psi + U * (", "w = z * abs_sq_psi + (")], units=["step_covariance"]),
    dict(name="c computed with psi instead of z", edits=[(S_, "c = w.real * z.real + w.imag * z.imag", "c = w.real * psi.real + w.imag * psi.imag")], units=["step_covariance"]),
]


def thorough(seed=0):
    from pyvc import harness
    from checks import c04_native
    summary, broken = harness.run_mutants("checks.c04", units(), MUTANTS)
    bnd = c04_native.bounded(seed)
    broken = broken + bnd.get("broken", [])
    return dict(coverage=dict(mutants=summary, bounded=bnd, mutants_killed=sum(1 for m in summary if m["verdict"] in ("killed", "not-proved") and m["expect"] == "killed"),
                              mutants_total=sum(1 for m in summary if m["expect"] == "killed")), broken=broken)
