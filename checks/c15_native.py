"""native replay / bounded stand-in for C15: real Runner + DataHandler + h5py, faults injected into the mock update and
into the frame writer at every call index of short runs, with and without pre-existing files."""
import os
import tempfile

from checks.runner_native import drive


def search(seed=0, max_calls=6):
    bad = []
    n = 0
    for k in (1, 2, 3):
        for skip in (0.0, 0.25):
            for where in ("update", "writer"):
                for kind in ("error", "interrupt"):
                    for at in range(0, max_calls + 1):
                        for pre in (False, True):
                            td = tempfile.mkdtemp(prefix="pyvc_c15_")
                            try:
                                out = drive(k, [0.1], 0.35, skip_time=skip, fault=(where, at, kind), outdir=td, pre_existing=pre)
                            finally:
                                files = sorted(os.listdir(td))
                                import shutil
                                shutil.rmtree(td, ignore_errors=True)
                            n += 1
                            case = dict(save_every=k, skip_time=skip, fault=where, kind=kind, at_call=at, pre_existing=pre)
                            tmp_left = [f for f in files if f.endswith(".tmp")]
                            if tmp_left:
                                bad.append(dict(case, problem=f"temporary files remain: {tmp_left}"))
                            if pre and not out.get("pre_existing_intact", True):
                                bad.append(dict(case, problem="the pre-existing file at the output path was modified"))
                            if pre and out.get("output_path", "").endswith("o.h5"):
                                bad.append(dict(case, problem="the pre-existing output path was reused"))
                            expected_files = {"o.h5"} | ({"o-1.h5"} if pre else set())
                            extra = set(files) - expected_files
                            if extra:
                                bad.append(dict(case, problem=f"unexpected files left behind: {sorted(extra)}"))
                            if not out.get("readable", False):
                                bad.append(dict(case, problem="output file is not readable after the stop: " + str(out.get("read_error"))))
                                continue
                            if "dyn_error" in out and out["frames"]:
                                bad.append(dict(case, problem="partial solution not loadable: " + out["dyn_error"]))
                            # frames: consecutive multiples of k from 0 (+ possibly one final partial frame), each with its own label
                            steps = [fr["step"] for fr in out["frames"]]
                            if len(set(steps)) != len(steps) and where == "update":
                                bad.append(dict(case, problem=f"the frames recorded before the stop are not distinct steps: {steps}"))
                            base = out["frames"][0]["n_updates"] if out["frames"] else 0
                            for fr in out["frames"]:
                                if fr["n_updates"] - base != fr["step"] and where == "update":
                                    bad.append(dict(case, problem=f"frame {fr['step']} holds the state after {fr['n_updates'] - base:.0f} recorded updates"))
                            # an error raised by the update (e.g. "failed to converge") must come out of the run unchanged - unless the run ended first
                            n_calls_made = len(out.get("calls", []))
                            if where == "update" and kind == "error" and n_calls_made > at and out["error"] != "Stop":
                                bad.append(dict(case, problem=f"the error raised by update call {at} did not propagate out of the run (run ended with {out['error']!r})"))
                            n_therm_calls_ = 3 if skip else 0
                            if where == "update" and kind == "interrupt" and n_calls_made > at >= n_therm_calls_ and out["error"] is None and out.get("generated") is not True:
                                bad.append(dict(case, problem=f"a run cancelled in the recorded stage reports that no data was generated (run() returned {out.get('generated')!r}): "
                                                              "the caller then returns no partial solution"))
                            if where == "update" and kind == "interrupt" and n_calls_made > at and out["error"] not in (None,):
                                bad.append(dict(case, problem=f"a cancellation during update call {at} escaped as {out['error']!r} instead of ending the run"))
                            # cancellation during thermalisation must not be followed by a recorded stage
                            n_therm_calls = 3 if skip else 0
                            if where == "update" and kind == "interrupt" and skip and at < n_therm_calls and len(steps) > 0:
                                bad.append(dict(case, problem=f"cancelled during thermalisation but frames {steps} were recorded afterwards"))
    b2, n2 = solve_cases()
    return bad + b2, n + n2


def solve_cases():
    """real tdgl.solve into a path where a file (an earlier solution) already exists: the old file keeps its bytes, the new run goes to a fresh
    name, and the returned Solution is the new run"""
    import hashlib
    import logging
    import numpy as np
    logging.disable(logging.CRITICAL)
    import h5py
    import tdgl
    from checks import update_native
    dev = update_native.device()
    bad, n = [], 0
    td = tempfile.mkdtemp(prefix="pyvc_c15s_")
    try:
        p0 = os.path.join(td, "run.h5")
        first = tdgl.solve(dev, tdgl.SolverOptions(solve_time=0.4, output_file=p0, save_every=10, adaptive=False, dt_init=1e-2), applied_vector_potential=0.1)
        digest = hashlib.sha256(open(p0, "rb").read()).hexdigest()
        second = tdgl.solve(dev, tdgl.SolverOptions(solve_time=0.2, output_file=p0, save_every=10, adaptive=False, dt_init=1e-2), applied_vector_potential=0.3)
        n += 1
        case = dict(existing_file="run.h5 (earlier solution, 40 steps)", new_run="20 steps")
        if hashlib.sha256(open(p0, "rb").read()).hexdigest() != digest:
            bad.append(dict(case, problem="the pre-existing file at the output path was modified"))
        if os.path.abspath(second.path) == os.path.abspath(p0):
            bad.append(dict(case, problem="the returned solution points at the pre-existing file, not at the file of this run", path=second.path))
        else:
            try:
                back = tdgl.Solution.from_hdf5(second.path)
                if back.data_range[1] != 2 or second.data_range[1] != 2 or first.data_range[1] != 4:
                    bad.append(dict(case, problem=f"the solution of the new run reports frames up to {second.data_range[1]} / reloads up to {back.data_range[1]} (expected 2: steps 0, 10, 20)"))
            except Exception as e:  # noqa
                bad.append(dict(case, problem=f"the file of the new run cannot be loaded as a solution: {type(e).__name__}: {str(e)[:100]}"))
        left = sorted(f for f in os.listdir(td) if f.endswith(".tmp"))
        if left:
            bad.append(dict(case, problem=f"temporary files remain: {left}"))
        # the existing file is the frame-less output of a run that stopped while thermalising: it is the user's file all the same
        def eps_stop(r, *, t):
            if t > 0.05:
                raise RuntimeError("stopped while thermalising")
            return 1.0
        p5 = os.path.join(td, "sweep.h5")
        try:
            tdgl.solve(dev, tdgl.SolverOptions(solve_time=0.2, skip_time=0.2, output_file=p5, save_every=10, adaptive=False, dt_init=1e-2), applied_vector_potential=0.1, disorder_epsilon=eps_stop)
        except RuntimeError:
            pass
        n += 1
        if not os.path.exists(p5):
            bad.append(dict(problem="harness: the stopped run left no output file (scenario not reached)"))
        else:
            d5 = hashlib.sha256(open(p5, "rb").read()).hexdigest()
            third = tdgl.solve(dev, tdgl.SolverOptions(solve_time=0.1, output_file=p5, save_every=10, adaptive=False, dt_init=1e-2), applied_vector_potential=0.1)
            n += 1
            if not os.path.exists(p5) or hashlib.sha256(open(p5, "rb").read()).hexdigest() != d5 or os.path.abspath(third.path) == os.path.abspath(p5):
                bad.append(dict(existing_file="sweep.h5 (output of a run stopped by an error while thermalising: no frame yet)", new_run="10 steps",
                                problem="the pre-existing file at the output path was modified (replaced by the new run) instead of a fresh name being chosen"))
        # Ctrl-C in the recorded stage of a real solve: a usable partial solution comes back and can be reloaded
        hits = [0]

        def eps(r, *, t):
            if t > 0.085:
                raise KeyboardInterrupt()
            return 1.0
        p3 = os.path.join(td, "cancel.h5")
        try:
            part = tdgl.solve(dev, tdgl.SolverOptions(solve_time=5.0, output_file=p3, save_every=3, adaptive=False, dt_init=1e-2, pause_on_interrupt=False),
                              applied_vector_potential=0.1, disorder_epsilon=eps)
            n += 1
            if part is None:
                bad.append(dict(problem="a real solve cancelled with Ctrl-C in the recorded stage returned None instead of the partial solution"))
            else:
                back = tdgl.Solution.from_hdf5(part.path)
                if back.data_range != part.data_range:
                    bad.append(dict(problem="partial solution of a cancelled run does not reload", returned=str(part.data_range), reloaded=str(back.data_range)))
        except KeyboardInterrupt:
            bad.append(dict(problem="KeyboardInterrupt escaped from tdgl.solve (pause_on_interrupt=False)"))
        except Exception as e:  # noqa
            bad.append(dict(problem=f"cancelled real solve: {type(e).__name__}: {str(e)[:120]}"))
        # no output file requested (output_file=None): the scratch directory of every run is removed when the run ends, also when ONE options object
        # serves several runs and a later run is stopped by an error; the caller's options are not rewritten by a run
        import dataclasses as _dc
        scratch_root = os.path.join(td, "tmproot")
        os.makedirs(scratch_root)
        old_tmp = tempfile.tempdir
        tempfile.tempdir = scratch_root
        try:
            o_none = tdgl.SolverOptions(solve_time=0.1, output_file=None, save_every=5, adaptive=False, dt_init=1e-2, pause_on_interrupt=False)
            given = {f_.name: getattr(o_none, f_.name) for f_ in _dc.fields(o_none)}
            tdgl.solve(dev, o_none, applied_vector_potential=0.1)
            now = {f_.name: getattr(o_none, f_.name) for f_ in _dc.fields(o_none)}
            n += 1
            diff = sorted(k_ for k_ in given if k_ != "sparse_solver" and given[k_] != now[k_])
            if diff:
                bad.append(dict(problem=f"a run rewrote the caller's options: {diff}", output_file_before=str(given.get("output_file")), output_file_after=str(now.get("output_file"))))

            def eps2(r, *, t):
                if t > 0.045:
                    raise RuntimeError("injected")
                return 1.0
            try:
                tdgl.solve(dev, o_none, applied_vector_potential=0.1, disorder_epsilon=eps2)
            except RuntimeError:
                pass
            n += 1
            left = sorted(os.path.join(dp_, f_)[len(scratch_root) + 1:] for dp_, _, fs_ in os.walk(scratch_root) for f_ in fs_)
            if left:
                bad.append(dict(problem=f"no output file was requested, yet files remain in the temporary area after a completed and a stopped run with one options object: {left[:4]}"))
        finally:
            tempfile.tempdir = old_tmp
    finally:
        import shutil
        shutil.rmtree(td, ignore_errors=True)
        logging.disable(logging.NOTSET)
    return bad, n


def replay(unit, obl):
    import tdgl
    name0 = (obl or {}).get("name", "")
    if "enter" in name0 or "solve_paths" in name0:
        b0, n0 = solve_cases()
        b0 = [b for b in b0 if "pre-existing" in b.get("problem", "")]
        if b0:
            return dict(confirmed=True, failing_input=b0[0], n_failing=len(b0), evaluations=n0, tdgl_file=tdgl.__file__, note="real solves into a path where a file already exists")
    bad, n = search(0, 5)
    if bad:
        name = (obl or {}).get("name", "")
        kw = ("pre-existing", "returned solution", "new run") if "solve_paths" in name else ("propagate",) if "propagates" in name else ("distinct",) if "records_once" in name else ("temporary", "unexpected files") if ("leak" in name or "exit" in name or "enter" in name) else (("thermalisation",) if "thermalisation" in name or "cancel" in name else ())
        pick = next((b for b in bad if any(w in b["problem"] for w in kw)), bad[0])
        return dict(confirmed=True, failing_input=pick, n_failing=len(bad), evaluations=n, tdgl_file=tdgl.__file__,
                    note="faults injected at every call index of short real runs (real h5py files)")
    return dict(confirmed=False, evaluations=n, tdgl_file=tdgl.__file__)


def bounded(seed=0):
    bad, n = search(seed, 6)
    out = dict(kind="bounded", evaluations=n, failing=len(bad), samples=bad[:3], bound="save_every 1..3 x stages x update/writer x error/interrupt x call index 0..6 x pre-existing file")
    if bad:
        out["broken"] = [f"native fault injection violates C15: {bad[0]}"]
    return out
