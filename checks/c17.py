"""C17 -- the uniform superconducting state psi = 1, mu = 0 is exactly stationary (real-arithmetic fixpoint of one step;
induction over steps).  'No change from rounding' is NOT decided (A1); the thorough tier has a bounded native run."""
import z3

from pyvc import sym, arr
from pyvc.arr import SymArray
from pyvc.harness import Unit
from pyvc.sym import SB, SC, SI, SR, check, explore, assume
from checks import ops_common as oc, c02

PROPERTY = "C17"
LEVEL = "proof"
TRUSTED = ["numpy / scipy.sparse models", "finite-sum meta-lemma 4 (row action = sum of per-edge contributions)",
           "A5 at a zero right-hand side: the factorised solve returns mu = 0 (linearity of forward/back substitution)"]
ASSUMPTIONS = ["valid_mesh (see C03)", "exactness under floating-point rounding is not decided (A1); bounded native runs (one device in the quick tier, more in the thorough tier)",
               "the time-step clause (dt grows to dt_max when delta = 0) is the C12 window rule at delta = 0: min(0.5(dt + dt_init*1e10), dt_max), "
               "which equals dt_max iff dt_init*1e10 >= 2 dt_max - dt (true for the defaults; stated, not assumed silently)"]
EXPLANATION = "fixpoint of the real step function and of the real operators at psi=1, mu=0, A=0, epsilon=1, zero currents"


class ZeroAction:
    def __matmul__(self, v):
        return SC(0, 0)


def run_step(mutate=None):
    L = c02.load(mutate)
    fn = L["TDGLSolver"].solve_for_psi_squared

    def body():
        R = z3.Real
        a = dict(psi=SC(1, 0), abs_sq_psi=SR(1), mu=SR(0), epsilon=SR(1), gamma=SR(R("gamma")), u=SR(R("u")), dt=SR(R("dt")), psi_laplacian=ZeroAction())
        assume(a["gamma"] >= 0, a["u"] > 0, a["dt"] > 0)
        res = fn(**a)
        from pyvc import vc as vcm
        rev = vcm.reveal("z", "w") + sym.congruence_axioms()
        anys = sym.ctx().ghost.get("any", [])
        for some, pred in anys:
            check("C17.euler_fixpoint.this_site_never_asks_for_refusal", z3.Not(pred), extra=rev)
        if res is None:
            return
        psi1, x = res
        check("C17.euler_fixpoint.psi", sym.eq(psi1, SC(1, 0)), extra=rev)
        check("C17.euler_fixpoint.abs_sq", x.e == 1, extra=rev)
    obls, n = explore(body)
    return dict(obls=obls, paths=n, sources=[L.info()], consistent=sym.consistent())


def run_operators(mutate=None):
    L = oc.load_ops(mutate)

    def body():
        M = oc.setup_mesh()
        arr.COO.mesh_axioms = staticmethod(lambda idxs: oc.edge_ax(M)(idxs))
        A0 = SymArray((M.E, 2), lambda k, c: SR(0))
        ones = SymArray((M.N,), lambda k: SC(1, 0), kind="c")
        ops = oc.make_operators(L, M, fix_psi=False)
        ops.build_operators_light = None
        ops.set_link_exponents(A0)
        e = SI(sym.FreshInt("e"))
        assume(e >= 0, e < M.E)
        sym.ctx().pc += M.edge_axioms([e])
        # supercurrent of the uniform state vanishes on every edge
        js = ops.get_supercurrent(ones)
        check("C17.no_supercurrent", sym.eq(js.at(e), 0))
        # covariant Laplacian of the constant: contributions of the generic edge to its two rows vanish at A = 0
        k = SI(sym.FreshInt("k"))
        for bi, blk in enumerate(ops.psi_laplacian.blocks):
            pass
        spec = oc.laplacian_spec(M, A0, pinned=False)
        vals = [b[4](e) for b in spec]
        check("C17.laplacian_of_constant.row_i", sym.eq(vals[0] * SC(1, 0) + vals[2] * SC(1, 0), 0))
        check("C17.laplacian_of_constant.row_j", sym.eq(vals[1] * SC(1, 0) + vals[3] * SC(1, 0), 0))
        from pyvc.meshmodel import compare_blocks
        compare_blocks("C17.laplacian_in_use_is_the_stencil", ops.psi_laplacian.blocks, spec, [], oc.edge_ax(M))
        # with screening the link variables are refreshed (with the same zero potential) at every iteration: still the stencil
        ops.set_link_exponents(SymArray((M.E, 2), lambda k_, c_: SR(0)))
        compare_blocks("C17.laplacian_in_use_after_a_refresh_is_the_stencil", ops.psi_laplacian.blocks, spec, [], oc.edge_ax(M))
        check("C17.no_supercurrent_after_a_refresh", sym.eq(ops.get_supercurrent(ones).at(e), 0))
        # zero supercurrent, zero dA/dt, zero terminal flux: rhs = D @ 0 - B @ 0 = 0; mu = 0 (A5); Jn = -G @ 0 - 0 = 0
        D = L["build_divergence"](M.mesh)
        G = L["build_gradient"](M.mesh)
        Bm = L["build_neumann_boundary_laplacian"](M.mesh)
        zero_e = SymArray((M.E,), lambda k_: js.at(k_) - SR(0))
        g = SI(sym.FreshInt("site"))
        assume(g >= 0, g < M.N)
        sym.ctx().ax.append(sym.eq(js.at(SI(sym.FreshInt("anyedge"))), 0))
        rhs = (D @ SymArray((M.E,), lambda k_: SR(0))) - (Bm @ SymArray((M.Bn,), lambda k_: SR(0)))
        check("C17.rhs_is_zero", sym.eq(rhs.at(g), 0))
        jn = -(G @ SymArray((M.N,), lambda k_: SR(0))) - SR(0)
        check("C17.no_normal_current", sym.eq(jn.at(e), 0))
    obls, n = explore(body)
    return dict(obls=obls, paths=n, sources=[L.info()], consistent=sym.consistent())


def run_native_quick(mutate=None):
    """BOUNDED stand-in executed also in the quick tier (one device): undriven real runs at half the explicit-Euler stability limit, screening off
    and on, must stay at psi = 1 up to the recorded ulp-level residue"""
    def body():
        r = bounded_native(0, n=1)
        check("C17.bounded.stable_undriven_runs_stay_stationary[1 device, screening off/on]", z3.BoolVal(not r.get("violations_detail")), note=str(r.get("violations_detail", [])[:2]))
    obls, n = explore(body)
    return dict(obls=obls, paths=n, sources=[], consistent=True)


def units():
    return [Unit("undriven runs [bounded]", "tdgl.solve (real runs)", run_native_quick, props=["C17"], timeout=600, kind="bounded"),
            Unit("euler_fixpoint", "tdgl.solver.solver:TDGLSolver.solve_for_psi_squared", run_step, props=["C17"], timeout=300),
            Unit("operators_on_uniform_state", "tdgl.finite_volume.operators:MeshOperators.get_supercurrent / build_* / set_link_exponents", run_operators, props=["C17"], timeout=600)]


def replay_scope(unit, obl):
    """the native replay of this property searches per unit, not per obligation: run it once per unit"""
    return "unit"


def replay(unit, obl):
    r = bounded_native(0, n=3)
    if r.get("violations_detail"):
        r["failing_input"] = r["violations_detail"][0]
    return r


def bounded_native(seed=0, n=4):
    """BOUNDED (never counted as proved): real undriven runs on small irregular devices; every frame must equal the
    initial state bit for bit.  A failing run whose time step exceeds the explicit-Euler stability limit of its smallest
    cell (ratio > 1) is the recorded known finding C17.bounded.stationary_under_rounding; any other failing run is new."""
    import os
    import tempfile
    import numpy as np
    import logging
    os.environ.setdefault("TQDM_DISABLE", "1")
    logging.disable(logging.CRITICAL)
    import tdgl
    import h5py
    from tdgl.geometry import box, circle
    rng = np.random.default_rng(seed)
    bad, known, ulp = [], [], []
    runs = 0
    for t in range(n):
        layer = tdgl.Layer(coherence_length=float(rng.uniform(0.3, 1)), london_lambda=2, thickness=0.1, gamma=float(rng.choice([0, 1, 10])))
        film = tdgl.Polygon("film", points=box(float(rng.uniform(2, 4)), float(rng.uniform(1.5, 3))))
        holes = [tdgl.Polygon("h", points=circle(0.3))] if t % 2 else []
        dev = tdgl.Device("d", layer=layer, film=film, holes=holes, length_units="um")
        dev.make_mesh(max_edge_length=float(rng.uniform(0.35, 0.6)), smooth=int(rng.choice([0, 10])))
        mesh = dev.mesh
        em = mesh.edge_mesh
        lam = np.zeros(len(mesh.sites))
        w = em.dual_edge_lengths / em.edge_lengths
        np.add.at(lam, em.edges[:, 0], w)
        np.add.at(lam, em.edges[:, 1], w)
        lam_max = float((lam / mesh.areas).max())
        # stable runs (time step at half the explicit-Euler stability limit of the smallest cell): must be bit-exact, anything else is new.
        # one run per device far above the limit documents the known rounding instability.
        dt_stable = 0.5 * layer.u / (np.sqrt(1 + layer.gamma ** 2) * lam_max)
        configs = [(scr, True) for scr in (False, True)] + ([(False, False)] if t < 2 else [])
        for screening, stable in configs:
            with tempfile.TemporaryDirectory() as td:
                path = os.path.join(td, "o.h5")
                adaptive = bool(t % 2 == 0)
                if stable:
                    opts = tdgl.SolverOptions(solve_time=40 * dt_stable, dt_init=(dt_stable / 8 if adaptive else dt_stable), dt_max=dt_stable, output_file=path, save_every=7,
                                              include_screening=screening, adaptive=adaptive, progress_interval=0)
                else:
                    opts = tdgl.SolverOptions(solve_time=3 if adaptive else 0.5, dt_init=1e-4 if adaptive else 0.02, output_file=path, save_every=7,
                                              include_screening=screening, adaptive=adaptive, progress_interval=0)
                dt_big = opts.dt_max if adaptive else opts.dt_init
                ratio = dt_big * np.sqrt(1 + layer.gamma ** 2) * lam_max / layer.u
                case = dict(trial=t, seed=seed, screening=screening, adaptive=adaptive, n_sites=len(mesh.sites), gamma=layer.gamma,
                            explicit_euler_stability_ratio=float(ratio))
                runs += 1
                try:
                    sol = tdgl.solve(dev, opts)
                except RuntimeError as e:
                    case["error"] = str(e)[:120]
                    (known if ratio > 1 else bad).append(case)
                    continue
                with h5py.File(sol.path, "r") as f:
                    for k in f["data"]:
                        g = f["data"][k]
                        ok = (np.all(np.array(g["psi"]) == 1) and np.all(np.array(g["mu"]) == 0) and np.all(np.array(g["supercurrent"]) == 0)
                              and np.all(np.array(g["normal_current"]) == 0) and np.all(np.array(g["induced_vector_potential"]) == 0))
                        if not ok:
                            dev_all = max(float(np.abs(np.array(g["psi"]) - 1).max()), float(np.abs(np.array(g["mu"])).max()), float(np.abs(np.array(g["supercurrent"])).max()),
                                          float(np.abs(np.array(g["normal_current"])).max()), float(np.abs(np.array(g["induced_vector_potential"])).max()))
                            case.update(frame=k, max_dev=float(np.abs(np.array(g["psi"]) - 1).max()), max_dev_any_field=dev_all)
                            if ratio > 1:
                                known.append(case)
                            elif dev_all <= 1e-13:
                                ulp.append(case)        # below the stability limit: rounding residue of a few ulp that is not amplified
                            else:
                                bad.append(case)
                            break
    # an options object that was used for a fixed-step run before and is reused with adaptive=True must still let the step grow to dt_max
    try:
        with tempfile.TemporaryDirectory() as td:
            o_re = tdgl.SolverOptions(solve_time=0.05, dt_init=1e-3, dt_max=5e-2, adaptive=False, output_file=os.path.join(td, "a.h5"), progress_interval=0)
            tdgl.solve(dev, o_re)
            o_re.adaptive, o_re.solve_time, o_re.output_file = True, 1.0, os.path.join(td, "b.h5")
            sol_re = tdgl.solve(dev, o_re)
            runs += 1
            dts = sol_re.dynamics.dt
            if o_re.dt_max != 5e-2 or dts.max() < 0.9 * 5e-2:
                bad.append(dict(what="undriven adaptive run with a reused options object: the step does not grow to the requested dt_max", dt_max_requested=5e-2,
                                dt_max_in_options_afterwards=float(o_re.dt_max), largest_step=float(dts.max())))
    except Exception as e:  # noqa
        bad.append(dict(what=f"reused-options run raised {type(e).__name__}: {str(e)[:120]}"))
    # an undriven solver built BEFORE another solver (with a field) on the same device, and solved afterwards, is still undriven
    try:
        from tdgl.solver.solver import TDGLSolver
        with tempfile.TemporaryDirectory() as td:
            lay_ = tdgl.Layer(coherence_length=0.5, london_lambda=2, thickness=0.1, gamma=1)
            dev_ = tdgl.Device("two", layer=lay_, film=tdgl.Polygon("film", points=box(3, 2)), length_units="um")
            dev_.make_mesh(max_edge_length=0.5, smooth=5)
            o0 = tdgl.SolverOptions(solve_time=0.5, dt_init=1e-3, dt_max=2e-2, output_file=os.path.join(td, "zero.h5"), save_every=10, progress_interval=0)
            o1 = tdgl.SolverOptions(solve_time=0.1, dt_init=1e-3, dt_max=2e-2, output_file=os.path.join(td, "field.h5"), save_every=10, progress_interval=0)
            s_zero = TDGLSolver(dev_, o0)
            TDGLSolver(dev_, o1, applied_vector_potential=0.8)          # only constructed
            sol0 = s_zero.solve()
            runs += 1
            d_ = sol0.tdgl_data
            dev_all = max(float(np.abs(np.abs(d_.psi) - 1).max()), float(np.abs(d_.mu).max()), float(np.abs(d_.supercurrent).max()), float(np.abs(d_.normal_current).max()))
            if dev_all > 1e-9:
                bad.append(dict(what="an undriven solver leaves the uniform state after ANOTHER solver with an applied field was constructed on the same device",
                                max_dev_any_field=dev_all, last_dt=float(sol0.dynamics.dt[-1])))
    except Exception as e:  # noqa
        bad.append(dict(what=f"interleaved solvers raised {type(e).__name__}: {str(e)[:120]}"))
    # epsilon = 1 everywhere stated as a FUNCTION of position made by a factory, after a sibling function of the same factory (same code, other captured
    # values: a weak spot) served another solver on the same device: the run follows the function it was given and stays in the uniform state
    try:
        with tempfile.TemporaryDirectory() as td:
            lay_ = tdgl.Layer(coherence_length=0.5, london_lambda=2, thickness=0.1, gamma=1)
            dev_ = tdgl.Device("sib", layer=lay_, film=tdgl.Polygon("film", points=box(3, 2)), length_units="um")
            dev_.make_mesh(max_edge_length=0.5, smooth=5)

            def spot(depth, vectorized_=False):
                if vectorized_:
                    def eps(r, *, vectorized=True):
                        return 1.0 - depth * (np.hypot(r[:, 0], r[:, 1]) < 0.6)
                else:
                    def eps(r):
                        return 1.0 - depth * float(np.hypot(r[0], r[1]) < 0.6)
                return eps
            for vec in (False, True):
                o_w = tdgl.SolverOptions(solve_time=0.1, dt_init=1e-3, dt_max=2e-2, output_file=os.path.join(td, f"weak{vec}.h5"), save_every=10, progress_interval=0)
                o_u = tdgl.SolverOptions(solve_time=0.5, dt_init=1e-3, dt_max=2e-2, output_file=os.path.join(td, f"unif{vec}.h5"), save_every=10, progress_interval=0)
                tdgl.solve(dev_, o_w, disorder_epsilon=spot(0.8, vec))
                sol_u = tdgl.solve(dev_, o_u, disorder_epsilon=spot(0.0, vec))
                runs += 1
                d_ = sol_u.tdgl_data
                dev_all = max(float(np.abs(np.abs(d_.psi) - 1).max()), float(np.abs(d_.mu).max()), float(np.abs(d_.supercurrent).max()), float(np.abs(d_.normal_current).max()))
                if dev_all > 1e-9 or np.any(np.asarray(d_.epsilon) != 1):
                    bad.append(dict(what="an undriven run whose epsilon(r) = 1 everywhere is a function made by a factory leaves the uniform state after a SIBLING function of the same "
                                         "factory (a weak spot) was used for another run on the same device", vectorized=vec, max_dev_any_field=dev_all,
                                    min_epsilon_used=float(np.min(d_.epsilon)), last_dt=float(sol_u.dynamics.dt[-1])))
    except Exception as e:  # noqa
        bad.append(dict(what=f"sibling-closure runs raised {type(e).__name__}: {str(e)[:120]}"))
    logging.disable(logging.NOTSET)
    out = dict(confirmed=bool(bad), kind="bounded", evaluations=runs, failing_new=len(bad), failing_known=len(known), samples=(bad + known)[:3],
               bound=f"{n} random devices x screening on/off at half the explicit-Euler stability limit (must be bit-exact) + 2 runs far above it (known finding), seed {seed}")
    out["known"] = []
    if known:
        out["known"].append(("C17.bounded.stationary_under_rounding", f"{len(known)} of {runs} undriven runs leave psi=1 (first: {known[0]})"))
    if ulp:
        out["known"].append(("C17.bounded.ulp_level_residue", f"{len(ulp)} of {runs} undriven runs below the stability limit deviate by at most {max(c['max_dev_any_field'] for c in ulp):.1e} (first: {ulp[0]})"))
    out["failing_ulp_level"] = len(ulp)
    if bad:
        out["violations_detail"] = bad
    return out


S_ = "tdgl.solver.solver"
M_ = "tdgl.finite_volume.operators"
MUTANTS = [
    dict(name="epsilon - 2|psi|^2", edits=[(S_, "* ((epsilon - abs_sq_psi) * psi + psi_laplacian @ psi)", "* ((epsilon - 2 * abs_sq_psi) * psi + psi_laplacian @ psi)")], units=["euler_fixpoint"]),
    dict(name="laplacian diagonal uses areas1 for row i", edits=[(M_, "            -weights / areas0,\n", "            -weights / areas1,\n")], units=["operators_on_uniform_state"]),
]


def thorough(seed=0):
    from pyvc import harness
    summary, broken = harness.run_mutants("checks.c17", [u for u in units() if "bounded" not in u.name], MUTANTS)
    bnd = bounded_native(seed)
    vio = []
    if bnd.get("violations_detail"):
        import json, os
        rp = os.path.join(os.path.dirname(os.path.dirname(os.path.abspath(__file__))), "replays", "C17", "bounded-stationary.json")
        os.makedirs(os.path.dirname(rp), exist_ok=True)
        json.dump(dict(property="C17", obligation="C17.bounded.stationary_under_rounding", failing_inputs=bnd["violations_detail"]), open(rp, "w"), indent=1)
        vio.append(rp)
    return dict(known=bnd.get("known", []), violations=vio, coverage=dict(mutants=summary, bounded=bnd, mutants_killed=sum(1 for m in summary if m["verdict"] in ("killed", "not-proved") and m["expect"] == "killed"),
                              mutants_total=sum(1 for m in summary if m["expect"] == "killed")), broken=broken)
