"""native replay harness / bounded stand-in for C05, C11, C15: the REAL Runner and the REAL DataHandler are driven by a
counting mock update function (state = number of updates applied), the HDF5 output is read back with h5py and with the
REAL DynamicsData.from_hdf5, and every frame / per-step column is compared with an executable specification."""
import logging
import os
import tempfile

os.environ.setdefault("TQDM_DISABLE", "1")
import numpy as np


class Stop(Exception):
    pass


def drive(k, dts, end_time, skip_time=0.0, n_probes=0, fault=None, outdir=None, pre_existing=False):
    """-> dict(frames=[...], dynamics=..., error=..., files=[...]); dts: list of time steps the mock returns (cycled)"""
    import h5py
    from tdgl.solver.runner import Runner, DataHandler
    from tdgl.solution.data import DynamicsData
    logging.disable(logging.CRITICAL)
    opts = type("O", (), {})()
    opts.save_every, opts.progress_interval, opts.pause_on_interrupt = k, 0, False
    opts.dt_init, opts.solve_time, opts.skip_time, opts.gpu = dts[0], end_time, skip_time, False
    calls = []

    def update(state, running_state, dt, *, psi):
        stage = "therm" if len(stage_box) and stage_box[0] == "therm" else "sim"
        n = int(psi[0])
        calls.append((int(state["step"]), float(state["time"]), float(dt), n))
        if fault and fault[0] == "update" and len(calls) - 1 == fault[1]:
            raise (KeyboardInterrupt() if fault[2] == "interrupt" else Stop("injected"))
        new_dt = dts[len(calls) % len(dts)] if len(dts) > 1 else dts[0]
        running_state.append("dt", new_dt)
        if n_probes:
            running_state.append("mu", np.arange(n_probes) + 10.0 * (len(calls)))
            running_state.append("theta", np.arange(n_probes) + 0.5)
        return new_dt, np.array([n + 1.0])
    stage_box = []
    out = dict(frames=[], error=None, calls=calls)
    td = outdir or tempfile.mkdtemp(prefix="pyvc_runner_")
    path = os.path.join(td, "o.h5")
    if pre_existing:
        with open(path, "wb") as f:
            f.write(b"precious")
    cwd = os.getcwd()
    names = {"dt": 1}
    if n_probes:
        names.update(mu=n_probes, theta=n_probes)
    try:
        os.chdir(td)
        try:
            with DataHandler(output_file="o.h5") as dh:
                out["output_path"] = dh.output_path
                r = Runner(function=update, options=opts, initial_values=[np.array([0.0])], names=["psi"], data_handler=dh,
                           running_names_and_sizes=names)
                orig = dh.save_time_step
                if fault and fault[0] == "writer":
                    cnt = [0]

                    def faulty(state, data, rs):
                        if cnt[0] == fault[1]:
                            cnt[0] += 1
                            raise (KeyboardInterrupt() if fault[2] == "interrupt" else Stop("injected writer"))
                        cnt[0] += 1
                        return orig(state, data, rs)
                    dh.save_time_step = faulty
                out["generated"] = r.run()
        except Stop as e:
            out["error"] = "Stop"
        except KeyboardInterrupt:
            out["error"] = "KeyboardInterrupt"
        except Exception as e:      # noqa
            out["error"] = f"{type(e).__name__}: {e}"
        out["files"] = sorted(os.listdir(td))
        op = out.get("output_path")
        if op and os.path.exists(op):
            try:
                with h5py.File(op, "r") as f:
                    keys = sorted(int(x) for x in f["data"])
                    for key in keys:
                        g = f["data"][str(key)]
                        fr = dict(index=key, step=int(g.attrs["step"]), time=float(g.attrs["time"]), dt=float(g.attrs["dt"]), n_updates=float(np.array(g["psi"])[0]))
                        if "running_state" in g:
                            fr["rs_dt"] = np.array(g["running_state"]["dt"])
                        out["frames"].append(fr)
                    try:
                        dyn = DynamicsData.from_hdf5(f)
                        out["dyn_dt"] = np.array(dyn.dt)
                        out["dyn_time"] = np.array(dyn.time)
                        out["dyn_mu_shape"] = None if dyn.mu is None else dyn.mu.shape
                    except Exception as e:  # noqa
                        out["dyn_error"] = f"{type(e).__name__}: {e}"
                out["readable"] = True
            except Exception as e:  # noqa
                out["readable"] = False
                out["read_error"] = repr(e)
        if pre_existing:
            with open(path, "rb") as f:
                out["pre_existing_intact"] = f.read() == b"precious"
    finally:
        os.chdir(cwd)
        logging.disable(logging.NOTSET)
        if outdir is None:
            import shutil
            shutil.rmtree(td, ignore_errors=True)
    return out


def spec_check(k, dts, end_time, out, n_probes=0):
    """executable specification of C05 for an uninterrupted save stage"""
    problems = []
    seq = [dts[0]] + [dts[(j + 1) % len(dts)] if len(dts) > 1 else dts[0] for j in range(10000)]
    # dt returned by update number j (0-based) is dts[(j+1) % len] in drive(); T(j+1) = T(j) + that
    T = [0.0]
    n_last = None
    for j in range(5000):
        if T[j] >= end_time:
            n_last = j
            break
        T.append(T[j] + (dts[(j + 1) % len(dts)] if len(dts) > 1 else dts[0]))
    want_steps = [s for s in range(0, n_last + 1) if s % k == 0]
    if n_last % k:
        want_steps.append(n_last)
    got_steps = [fr["step"] for fr in out["frames"]]
    if got_steps != want_steps:
        problems.append(f"frames at steps {got_steps}, expected {want_steps}")
    for fr in out["frames"]:
        s = fr["step"]
        if fr["n_updates"] != s:
            problems.append(f"frame labelled step {s} holds the state after {fr['n_updates']:.0f} updates")
        if s < len(T) and abs(fr["time"] - T[s]) > 1e-12 * max(1, abs(T[s])):
            problems.append(f"frame {s}: time {fr['time']} != sum of first {s} steps {T[s]}")
    if "dyn_error" in out:
        problems.append("DynamicsData.from_hdf5 raised " + out["dyn_error"])
    elif "dyn_dt" in out:
        want_dt = [T[j + 1] - T[j] for j in range(n_last)]
        got = list(out["dyn_dt"])
        if len(got) != len(want_dt) or any(abs(a - b) > 1e-12 for a, b in zip(got, want_dt)):
            problems.append(f"per-step dt records {len(got)} entries, expected {len(want_dt)} (one per step, in order)")
        if n_probes and want_dt and out.get("dyn_mu_shape") != (n_probes, len(want_dt)):
            problems.append(f"probe records have shape {out.get('dyn_mu_shape')}, expected {(n_probes, len(want_dt))}")
    return problems, n_last, T


def times_check(k, out, T):
    """Solution.times (computed with the REAL property on a stand-in object) must be the frame times"""
    from tdgl.solution.solution import Solution
    if "dyn_time" not in out:
        return []
    s = Solution.__new__(Solution)
    s.dynamics = type("D", (), {"time": out["dyn_time"]})()
    s.options = type("O", (), {"save_every": k})()
    try:
        times = list(Solution.times.fget(s))
    except Exception as e:  # noqa
        return [f"Solution.times raised {type(e).__name__}: {e}"]
    ft = [fr["time"] for fr in out["frames"]]
    scale_ = max([abs(b) for b in ft] + [1e-300])
    if len(times) != len(ft):
        return [f"Solution.times has {len(times)} entries for {len(ft)} recorded frames (frame times {[float(x) for x in ft][-3:]}, times {[float(x) for x in times][-3:]})"]
    if any(abs(a - b) > 1e-12 * scale_ for a, b in zip(times, ft)):
        return [f"Solution.times {[float(x) for x in times][:6]}... differ from the frame times {[float(x) for x in ft][:6]}..."]
    return []


def search(seed=0, max_n=7, what=("frames", "times", "records")):
    rng = np.random.default_rng(seed)
    bad = []
    n = 0
    for N in range(0, max_n + 1):
        for k in range(1, N + 3):
            for dts in ([0.1], [0.1, 0.07, 0.13, 0.02]):
                for probes in (0, 2):
                    end = 0.1 * N - 0.05 if N else 0.0
                    out = drive(k, dts, end, n_probes=probes)
                    n += 1
                    if out["error"]:
                        bad.append(dict(k=k, N=N, dts=dts, probes=probes, problem="run raised " + out["error"]))
                        continue
                    probs, n_last, T = spec_check(k, dts, end, out, probes)
                    probs += times_check(k, out, T)
                    for p in probs:
                        bad.append(dict(k=k, N=N, n_last=n_last, dts=dts, probes=probes, problem=p))
    # other time scales, and a last partial interval that is tiny compared with the elapsed time (a long quiet phase followed by a short final step, a step
    # cut down by retries): the final frame is still a frame of its own, with its own time
    if "times" in what:
        for dts, end in (([1e-9], 4.5e-9), ([1e-9], 5.5e-9), ([2e3], 9e3), ([50.0, 50.0, 1e-4], 100.00005), ([10.0, 10.0, 10.0, 10.0, 1e-5], 40.000005), ([0.3, 0.3, 1e-9], 0.6000000005)):
            for k in (1, 2, 3, 4):
                out = drive(k, dts, end, n_probes=0)
                n += 1
                if out["error"]:
                    bad.append(dict(k=k, dts=dts, end=end, problem="run raised " + out["error"]))
                    continue
                for p in times_check(k, out, None):
                    bad.append(dict(k=k, dts=dts, solve_time=end, problem=p))
    return bad, n


def thermalisation_cases(seed=0):
    """thermalisation steps are never recorded and recorded time restarts from zero after them"""
    bad = []
    n = 0
    for k in (1, 2, 3, 5, 40, 100):
        for skip in (0.25, 0.5):
            for end in (0.0, 0.05, 0.15, 0.45):
                out = drive(k, [0.1], end, skip_time=skip, n_probes=2)
                n += 1
                if out["error"]:
                    bad.append(dict(k=k, skip=skip, end=end, problem="run raised " + out["error"]))
                    continue
                n_therm = len([c for c in out["calls"]]) - 0
                frames = out["frames"]
                if not frames or frames[0]["step"] != 0 or abs(frames[0]["time"]) > 0:
                    bad.append(dict(k=k, skip=skip, end=end, problem="recorded time/step does not restart from zero after thermalisation"))
                    continue
                base = frames[0]["n_updates"]          # state at the start of the recorded stage
                n_rec = frames[-1]["step"]
                for fr in frames:
                    if fr["n_updates"] - base != fr["step"]:
                        bad.append(dict(k=k, skip=skip, end=end, problem=f"frame {fr['step']} holds {fr['n_updates'] - base:.0f} recorded-stage updates"))
                    if abs(fr["time"] - 0.1 * fr["step"]) > 1e-12:
                        bad.append(dict(k=k, skip=skip, end=end, problem=f"frame {fr['step']} time {fr['time']}"))
                if "dyn_dt" in out and len(out["dyn_dt"]) != n_rec:
                    bad.append(dict(k=k, skip=skip, end=end, problem=f"{len(out['dyn_dt'])} per-step records for {n_rec} recorded steps (thermalisation leaked?)"))
    return bad, n


def replay(unit, obl):
    import tdgl
    bad, n = search(0, 6)
    bad2, n2 = thermalisation_cases(0)
    bad += bad2
    if bad:
        name = (obl or {}).get("name", "")
        kw = ("holds the state",) if "label" in name else (("per-step", "records") if "record" in name or "padding" in name else (("times",) if "time" in name else ()))
        pick = next((b for b in bad if any(w in b["problem"] for w in kw)), bad[0])
        return dict(confirmed=True, failing_input=pick, n_failing=len(bad), evaluations=n + n2, tdgl_file=tdgl.__file__,
                    note="obligation about all (save_every, N, dt) histories replayed by driving the real Runner + DataHandler with a counting mock update")
    return dict(confirmed=False, evaluations=n + n2, tdgl_file=tdgl.__file__)


def bounded(seed=0, max_n=9):
    bad, n = search(seed, max_n)
    bad2, n2 = thermalisation_cases(seed)
    out = dict(kind="bounded", evaluations=n + n2, failing=len(bad) + len(bad2), samples=(bad + bad2)[:3],
               bound=f"save_every 1..N+2, N 0..{max_n}, fixed and varying dt, 0/2 probes, exhaustively; 24 thermalisation cases", exhaustive_within_bound=True)
    if bad or bad2:
        out["broken"] = [f"native runner run violates the executable specification: {(bad + bad2)[0]}"]
    return out
