"""C16 -- parameter arithmetic means pointwise arithmetic of its operands.

Structural induction = modular verification on the REAL classes: the operands of a composite are *abstract parameters*
(real Parameter / CompositeParameter instances around leaf functions that return uninterpreted symbolic values) that satisfy
the class contract Inv_P; every composite built from them through the real operator overloads must satisfy Inv_P again and
evaluate to op(V_left, V_right).  Since operands are only used through Inv_P, the result holds for trees of any depth."""
import itertools
import operator
import pickle

import z3

from pyvc import sym, instrument, vc as vcm
from pyvc.harness import Unit
from pyvc import harness as _h
from pyvc.sym import SB, SI, SR, check, explore

PROPERTY = "C16"
LEVEL = "proof"
TRUSTED = ["numpy (real, used on object arrays of symbolic values by Parameter._evaluate)", "pickle / cloudpickle (real)",
           "a ** b with a symbolic exponent is an uninterpreted function of (a, b) (A3)"]
ASSUMPTIONS = ["Inv_P (operand contract): time_dependent, _cache, _use_cache exist; p(x,y,z,t) = V_p(x,y,z,t); V_p ignores t unless time_dependent",
               "leaf functions are deterministic in (x, y, z, t)"]
EXPLANATION = "class contract of Parameter/CompositeParameter established by every constructor path and preserved by nesting (induction over the tree)"
M = "tdgl.parameter"
OPS = [("add", operator.add), ("sub", operator.sub), ("mul", operator.mul), ("truediv", operator.truediv), ("pow", operator.pow)]


def V(name, *args):
    """uninterpreted value of leaf `name` at the given (concrete) coordinates/time"""
    key = name + "_" + "_".join(str(a).replace(".", "p").replace("-", "m") for a in args)
    return SR(z3.Real(key))


def f2(x, y, name="p2"):
    return V(name, float(x[0]), float(y[0]))


def f3(x, y, z, name="p3"):
    return V(name, float(x[0]), float(y[0]), float(z[0]))


def ftd(x, y, z, *, t, name="ptd"):
    return V(name, float(x[0]), float(y[0]), float(z[0]), t)


def load(mutate=None):
    import sys
    import types
    mut = [(o, n) for (m, o, n) in (mutate or []) if m == M]
    L = instrument.load(M, mutate=mut, vc=vcm.VC())
    # pickle looks classes up by module name: make the instrumented namespace THE module tdgl.parameter of this worker process
    mod = types.ModuleType(M)
    mod.__dict__.update(L.ns)
    sys.modules[M] = mod
    import tdgl
    tdgl.parameter = mod
    return L


_CLOSURE_N = [0]


def closure_leaf():
    """a leaf made by a factory: every call returns a function with the SAME code object and no keyword arguments whose value depends
    on a captured variable (gaussian_spot(x0), pulse(t0), ...).  Two such parameters compare equal under Parameter.__eq__ but evaluate
    differently."""
    _CLOSURE_N[0] += 1
    nm = f"cl{_CLOSURE_N[0]}"

    def g(x, y, z):
        return V(nm, float(x[0]), float(y[0]), float(z[0]))
    return g


def _helper_a(x, y, z):
    return V("ha", float(x[0]), float(y[0]), float(z[0]))


def _helper_b(x, y, z):
    return V("hb", float(x[0]), float(y[0]), float(z[0]))


def leaf_a(x, y, z):
    return _helper_a(x, y, z)


def leaf_b(x, y, z):
    return _helper_b(x, y, z)


def leaves(L):
    P = L["Parameter"]
    return {
        "closure_param": lambda: P(closure_leaf()),
        "param2d": lambda: P(f2, name="a2"),
        "param3d": lambda: P(f3, name="a3"),
        "td_param": lambda: P(ftd, time_dependent=True, name="atd"),
        "td_param_cache_off": lambda: P(ftd, time_dependent=True, use_cache=False, name="btd"),
        "int": lambda: 3,
        "float": lambda: 2.5,
    }


def operand_kinds(L):
    """operand kinds for the induction step: leaves + composites (static, time-dependent) + a td leaf already used elsewhere"""
    P = L["Parameter"]
    lv = leaves(L)
    kinds = dict(lv)

    def comp_static():
        return P(f3, name="c2") * P(f3, name="c3")

    def comp_td():
        return P(f3, name="d3") + P(ftd, time_dependent=True, name="dtd")

    def used_td():
        p = P(ftd, time_dependent=True, name="etd")
        _ = p * 2          # the leaf took part in an earlier composite (its cache switch is already set)
        return p
    kinds.update(composite=comp_static, td_composite=comp_td, td_param_used_before=used_td)
    return kinds


DIM = {"param2d": 2, "int": 0, "float": 0}      # every other kind is 3-dimensional


def dims(ln, rn):
    d = {DIM.get(ln, 3), DIM.get(rn, 3)} - {0}
    return d


def is_td(x, L):
    return isinstance(x, L["Parameter"]) and getattr(x, "time_dependent", False)


PTS = [(0.3, -1.2, 0.5, 0.7), (0.3, -1.2, 0.9, 0.7), (0.3, -1.2, 0.5, 1.1)]     # same (x,y): z changes, then t changes (stale caches)


def value(x, L, pt):
    xx, yy, zz, tt = pt
    if isinstance(x, L["Parameter"]):
        return x(xx, yy, zz, t=tt) if x.time_dependent else x(xx, yy, zz)
    return x


def run_induction(mutate=None):
    L = load(mutate)

    def body():
        P, C = L["Parameter"], L["CompositeParameter"]
        kinds = operand_kinds(L)
        # equality is structural: two leaves whose functions have the same shape (same bytecode and constants) but call different
        # functions are different parameters, and so is everything built from them
        pa, pb = P(leaf_a), P(leaf_b)
        try:
            check("C16.eq_structural.leaves_that_differ_only_in_the_functions_they_call", z3.BoolVal((pa == pb) is False and (pa == P(leaf_a)) is True))
            for (on, op) in OPS:
                check(f"C16.eq_structural.composites_of_such_leaves[{on}]", z3.BoolVal((op(pa, 2.0) == op(pb, 2.0)) is False and (op(2.0, pa) == op(2.0, pb)) is False
                                                                                      and (op(pa, 2.0) == op(P(leaf_a), 2.0)) is True))
        except Exception as e:
            check("C16.eq_structural.leaves_that_differ_only_in_the_functions_they_call", False, note=f"{type(e).__name__}: {e}")
        for (ln, lf), (rn, rf), (on, op) in itertools.product(kinds.items(), kinds.items(), OPS):
            if ln in ("int", "float") and rn in ("int", "float"):
                continue
            tag = f"{ln} {on} {rn}"
            try:
                left, right = lf(), rf()
            except Exception as e:   # building the operand itself failed: reported by the combination that builds it
                check(f"C16.ctor_establishes_inv.builds[{tag}]", False, note=f"operand construction raised {type(e).__name__}: {e}")
                continue
            try:
                c = op(left, right)
            except Exception as e:
                check(f"C16.ctor_establishes_inv.builds[{tag}]", False, note=f"{type(e).__name__}: {e}")
                continue
            check(f"C16.ctor_establishes_inv.builds[{tag}]", z3.BoolVal(isinstance(c, C)))
            # Inv_P of the result
            has = all(_has(c, a) for a in ("time_dependent", "_cache", "_use_cache"))
            check(f"C16.ctor_establishes_inv.attributes_defined[{tag}]", z3.BoolVal(has),
                  note="missing: " + ",".join(a for a in ("time_dependent", "_cache", "_use_cache") if not _has(c, a)))
            want_td = is_td(left, L) or is_td(right, L)
            check(f"C16.time_dependent_iff_some_operand[{tag}]", z3.BoolVal(_has(c, "time_dependent") and c.time_dependent == want_td))
            # pointwise value (three evaluations: a stale operand cache would show on the 2nd / 3rd)
            dd = dims(ln, rn)
            if len(dd) > 1:
                continue      # 2-d and 3-d parameters cannot be mixed in one expression (z is passed to every operand): outside the property
            two_d = dd == {2}
            for pi, pt in enumerate(PTS):
                if two_d:
                    pt = (pt[0], pt[1], None, pt[3])
                try:
                    got = c(pt[0], pt[1], pt[2], t=pt[3]) if want_td else c(pt[0], pt[1], pt[2])
                    lv, rv = _direct(left, L, pt), _direct(right, L, pt)
                    wantv = op(lv, rv)
                    check(f"C16.call_is_pointwise[{tag}]", sym.eq(got, wantv))
                except Exception as e:
                    check(f"C16.call_is_pointwise[{tag}]", False, note=f"{type(e).__name__}: {e}")
                    break
            # cache clearing: raises nothing and empties the caches of the whole tree
            try:
                c._clear_cache()
                leaves_ = _leaves(c, L)
                check(f"C16.clear_cache[{tag}]", z3.BoolVal(all(len(p._cache) == 0 for p in leaves_ if _has(p, "_cache"))))
            except Exception as e:
                check(f"C16.clear_cache[{tag}]", False, note=f"{type(e).__name__}: {e}")
            # structural equality
            try:
                same = op(lf(), rf())
                other_op = OPS[(OPS.index((on, op)) + 1) % len(OPS)][1](lf(), rf())
                check(f"C16.eq_structural[{tag}]", z3.BoolVal((c == same) is True and (c == other_op) is False and (c == left) is False))
            except Exception as e:
                check(f"C16.eq_structural[{tag}]", False, note=f"{type(e).__name__}: {e}")
            # pickling keeps Inv_P, structure and values
            try:
                d = pickle.loads(pickle.dumps(c))
                ok = all(_has(d, a) for a in ("time_dependent", "_cache", "_use_cache")) and d.time_dependent == c.time_dependent and d == c
                check(f"C16.pickle[{tag}]", z3.BoolVal(bool(ok)), note="lost: " + ",".join(a for a in ("time_dependent", "_cache", "_use_cache") if not _has(d, a)))
                if ok:
                    pt = PTS[0] if not two_d else (PTS[0][0], PTS[0][1], None, PTS[0][3])
                    gv = d(pt[0], pt[1], pt[2], t=pt[3]) if want_td else d(pt[0], pt[1], pt[2])
                    check(f"C16.pickle_value[{tag}]", sym.eq(gv, op(_direct(left, L, pt), _direct(right, L, pt))))
            except Exception as e:
                check(f"C16.pickle[{tag}]", False, note=f"{type(e).__name__}: {e}")
    obls, n = explore(body, safety=False)
    return dict(obls=obls, paths=n, sources=[L.info()], consistent=True)


def _has(o, a):
    try:
        getattr(o, a)
        return True
    except AttributeError:
        return False


def _leaves(c, L):
    out = []
    for o in (c.left, c.right):
        if isinstance(o, L["CompositeParameter"]):
            out += _leaves(o, L)
        elif isinstance(o, L["Parameter"]):
            out.append(o)
    return out


def _direct(x, L, pt):
    """the operand's own value from its leaf functions (not through any cache)"""
    xx, yy, zz, tt = pt
    import numpy as np
    if isinstance(x, L["CompositeParameter"]):
        return x.operator(_direct(x.left, L, pt), _direct(x.right, L, pt))
    if isinstance(x, L["Parameter"]):
        kw = dict(x.kwargs)
        if x.time_dependent:
            kw["t"] = tt
        import inspect
        if "z" in inspect.getfullargspec(x.func).args and zz is not None:
            kw["z"] = np.atleast_1d(zz)
        return x.func(np.atleast_1d(xx), np.atleast_1d(yy), **kw)
    return x


def run_solver_accepts(mutate=None):
    """the three places the solver touches a parameter (time_dependent, _clear_cache(), call with/without t) for a composite"""
    L = load(mutate)

    def body():
        P = L["Parameter"]
        for tag, mk in (("param*number", lambda: P(f3, name="s3") * 2.0), ("number*td", lambda: 2.0 * P(ftd, time_dependent=True, name="std")),
                        ("td*static composite", lambda: P(ftd, time_dependent=True, name="utd") * (P(f3, name="u3") + 1))):
            try:
                p = mk()
                td = p.time_dependent
                p._clear_cache()
                v = p(0.1, 0.2, 0.3, t=0.5) if td else p(0.1, 0.2, 0.3)
                p._clear_cache()
                check(f"C16.solver_accepts[{tag}]", z3.BoolVal(isinstance(v, (SR, float, int))))
            except Exception as e:
                check(f"C16.solver_accepts[{tag}]", False, note=f"{type(e).__name__}: {e}")
    obls, n = explore(body)
    return dict(obls=obls, paths=n, sources=[L.info()], consistent=True)



def array_cases(ns=None):
    """array arguments and repeated evaluation (the property quantifies over scalar AND array arguments): for every operand pair and operator the
    composite evaluated three times at the same array points (and time) equals, each time, the operands' own values combined; evaluating the composite
    writes neither the argument arrays, nor an array an operand's function handed out (a stored array, its own input), nor what an operand
    evaluated alone gives afterwards.  Runs on the classes given in `ns` (the instrumented real source) or on the imported package."""
    import numpy as np
    if ns is None:
        from tdgl.parameter import Parameter, CompositeParameter
    else:
        Parameter, CompositeParameter = ns["Parameter"], ns["CompositeParameter"]
    problems, n = [], 0
    npts = 7
    rng = np.random.default_rng(3)
    X, Y, Z = rng.uniform(0.5, 1.5, npts), rng.uniform(0.5, 1.5, npts), rng.uniform(0.5, 1.5, npts)
    STORED = rng.uniform(0.5, 1.5, npts)
    STORED0 = STORED.copy()

    def a3(x, y, z, k=2.0):
        return k * x - y + z

    def atd(x, y, z, *, t, k=3.0):
        return k * x + y * z + t

    def ctd(x, y, z, *, t):
        return (1.0 + 0.5j) * x + t * y

    def ident(x, y, z):
        return x

    def stored(x, y, z):
        return STORED

    def std(x, y, z, *, t):
        return t
    raw = dict(a3=lambda t: a3(X, Y, Z), atd=lambda t: atd(X, Y, Z, t=t), ctd=lambda t: ctd(X, Y, Z, t=t), ident=lambda t: X.copy(), stored=lambda t: STORED0.copy(), std=lambda t: t,
               int=lambda t: 3, float=lambda t: 2.5)
    mk = dict(a3=lambda: Parameter(a3), atd=lambda: Parameter(atd, time_dependent=True), ctd=lambda: Parameter(ctd, time_dependent=True), ident=lambda: Parameter(ident),
              stored=lambda: Parameter(stored), std=lambda: Parameter(std, time_dependent=True), int=lambda: 3, float=lambda: 2.5)
    TD = {"atd", "ctd", "std"}
    ops = dict(OPS)

    def close(a, b):
        return np.shape(a) == np.shape(b) and np.allclose(a, b, rtol=1e-12, atol=1e-12)
    for a, (on, op), b in itertools.product(mk, OPS, mk):
        if a in ("int", "float") and b in ("int", "float"):
            continue
        l, r = mk[a](), mk[b]()
        c = op(l, r)
        td = a in TD or b in TD
        x, y, z = X.copy(), Y.copy(), Z.copy()
        for rep in range(3):
            t = 0.75
            n += 1
            try:
                got = c(x, y, z, t=t) if td else c(x, y, z)
            except Exception as e:   # noqa
                problems.append(f"{a} {on} {b} at array points: {type(e).__name__}: {e}")
                break
            want = op(raw[a](t), raw[b](t))
            if not close(got, want):
                problems.append(f"{a} {on} {b}: evaluation #{rep + 1} at the same {npts} array points differs from the operands' values combined (max deviation "
                                f"{float(np.max(np.abs(np.asarray(got) - np.asarray(want)))):.3g})")
                break
            if not (np.array_equal(x, X) and np.array_equal(y, Y) and np.array_equal(z, Z)):
                problems.append(f"{a} {on} {b}: evaluating the composite wrote to the caller's coordinate arrays")
                break
            if not np.array_equal(STORED, STORED0):
                problems.append(f"{a} {on} {b}: evaluating the composite wrote to an array that an operand's function hands out")
                STORED[:] = STORED0
                break
            for nm_, q_ in ((a, l), (b, r)):
                if isinstance(q_, Parameter):
                    alone = q_(x, y, z, t=t) if nm_ in TD else q_(x, y, z)
                    if not close(alone, raw[nm_](t)):
                        problems.append(f"{a} {on} {b}: after the composite was evaluated its operand `{nm_}` no longer evaluates to its own function")
                        break
    # the same cached operand twice in one tree
    pt = Parameter(atd, time_dependent=True)
    tree = pt * 2 + pt
    for rep in range(2):
        n += 1
        got = tree(X.copy(), Y.copy(), Z.copy(), t=0.25)
        if not close(got, 3 * atd(X, Y, Z, t=0.25)):
            problems.append(f"p * 2 + p with a time-dependent array-valued p: evaluation #{rep + 1} is not 3 p")
            break
    return problems, n


def run_call_frame(mutate=None):
    """frame condition of CompositeParameter.__call__ at ARRAY arguments, executed on the instrumented real source with concrete arrays (whether a call
    writes to an array it did not create does not depend on the values in it): see array_cases"""
    L = load(mutate)

    def body():
        problems, n = array_cases(L.ns)
        kinds = ("wrote to the caller", "wrote to an array that an operand", "no longer evaluates to its own function", "differs from the operands", "is not 3 p")
        names = ("C16.call_frame.argument_arrays_not_written", "C16.call_frame.arrays_handed_out_by_operand_functions_not_written", "C16.call_frame.operands_evaluate_to_their_own_function_afterwards",
                 "C16.call_is_pointwise.at_array_points_on_repeated_evaluation", "C16.call_is_pointwise.same_cached_operand_twice_in_one_tree")
        for k_, nm_ in zip(kinds, names):
            hit = [p_ for p_ in problems if k_ in p_]
            sym.check_terms(nm_, not hit, note=(hit[0] if hit else ""))
        rest = [p_ for p_ in problems if not any(k_ in p_ for k_ in kinds)]
        sym.check_terms("C16.call_frame.array_evaluation_raises_nothing", not rest, note=(rest[0] if rest else ""))
    obls, n = explore(body, safety=False)
    return dict(obls=obls, paths=n, sources=[L.info()], consistent=True)


def _bounded_quick():
    r = replay('bounded', dict(name=''))
    return ([r.get('failing_input')] if r.get('confirmed') else []), 1


SC_ = "tdgl.sources.scaling"


def run_linear_ramp(mutate=None):
    """tdgl.sources.scaling: linear_ramp is `initial` before tmin, `final` from tmax on, the straight line between (tmin, initial) and (tmax, final) in between
    (continuous at both ends), independent of the position arguments; LinearRamp / Scale build TIME-DEPENDENT parameters around it (so a product with a field
    parameter is time-dependent, C16) and hand the ramp its keyword arguments unchanged"""
    import z3
    from pyvc import instrument, vc as vcm
    from pyvc.sym import SR, check, assume, explore
    mut = [(o, n) for (m, o, n) in (mutate or []) if m == SC_]
    L = instrument.load(SC_, mutate=mut, vc=vcm.VC())

    def body():
        R = z3.Real
        t, tmin, tmax, a, b = [SR(R(n)) for n in ("t", "tmin", "tmax", "initial", "final")]
        assume(tmin < tmax)
        x = object()
        v = SR.lift(L["linear_ramp"](x, x, x, t=t, tmin=tmin, tmax=tmax, initial=a, final=b))
        line = a + (b - a) * (t - tmin) / (tmax - tmin)
        want = sym.ite(t.e < tmin.e, a, sym.ite(t.e < tmax.e, line, b))
        check("C16.linear_ramp.initial_before_final_after_straight_line_between", sym.eq(v, want))
        check("C16.linear_ramp.between_initial_and_final", z3.Or(z3.And(v.e >= a.e, v.e <= b.e), z3.And(v.e <= a.e, v.e >= b.e)))
        seen = {}

        class P:
            def __init__(self, func, time_dependent=False, **kw):
                seen.update(func=func, time_dependent=time_dependent, kw=kw)
        L.ns["Parameter"] = P
        L["LinearRamp"](tmin=tmin, tmax=tmax, initial=a, final=b)
        check("C16.linear_ramp.parameter_is_time_dependent_and_carries_the_ramp_arguments",
              z3.BoolVal(seen.get("func") is L["linear_ramp"] and seen.get("time_dependent") is True and set(seen.get("kw", {})) == {"tmin", "tmax", "initial", "final"}
                         and seen["kw"]["tmin"] is tmin and seen["kw"]["tmax"] is tmax and seen["kw"]["initial"] is a and seen["kw"]["final"] is b))
        seen.clear()
        f = lambda x, y, z, *, t, k=1: k
        L["Scale"](f, k=a)
        check("C16.scale.parameter_is_time_dependent", z3.BoolVal(seen.get("func") is f and seen.get("time_dependent") is True and seen.get("kw") == {"k": a}))
    obls, n = explore(body)
    return dict(obls=obls, paths=n, sources=[L.info()], consistent=sym.consistent())


def units():
    return [Unit("CompositeParameter[operand contract -> composite contract]", M + ":Parameter / CompositeParameter", run_induction, props=["C16", "C14"], timeout=900),
            Unit("CompositeParameter.__call__[array arguments, frame]", M + ":CompositeParameter.__call__ / Parameter.__call__", run_call_frame, props=["C16"], timeout=300),
            Unit("solver touch points", M + ":CompositeParameter", run_solver_accepts, props=["C16"], timeout=300),
            Unit("sources.scaling", SC_ + ":linear_ramp, LinearRamp, Scale", run_linear_ramp, props=["C16"], timeout=300),
            _h.bounded_unit("real parameters on numeric leaves [bounded]", "tdgl.parameter (real classes)", "C16", _bounded_quick, "composites_of_numeric_leaves_are_pointwise_and_survive_pickling", timeout=900)]


def replay(unit, obl):
    """native: the same obligation on concrete numeric leaves with the real classes"""
    import numpy as np
    import tdgl
    from tdgl.parameter import Parameter, CompositeParameter
    name = obl.get("name", "")
    problems = []

    def g2(x, y, k=1.5):
        return k * x + y

    def g3(x, y, z, k=2.0):
        return k * x - y + z

    def gtd(x, y, z, *, t, k=3.0):
        return k * x + y * z + t
    ncl = [0]

    def closure():
        ncl[0] += 1
        k0 = 0.5 + 0.75 * ncl[0]

        def gc(x, y, z):
            return k0 * x + y - k0 * z
        return Parameter(gc)
    mk = {"closure_param": closure, "param2d": lambda: Parameter(g2), "param3d": lambda: Parameter(g3), "td_param": lambda: Parameter(gtd, time_dependent=True),
          "td_param_cache_off": lambda: Parameter(gtd, time_dependent=True, use_cache=False), "int": lambda: 3, "float": lambda: 2.5,
          "composite": lambda: Parameter(g3) * Parameter(g3), "td_composite": lambda: Parameter(g3) + Parameter(gtd, time_dependent=True)}

    def used():
        p = Parameter(gtd, time_dependent=True)
        _ = p * 2
        return p
    mk["td_param_used_before"] = used
    def na(x, y, z):
        return np.sin(x) + y * z

    def nb(x, y, z):
        return np.cos(x) + y * z
    if "differ_only" in name or "such_leaves" in name or not name:
        A_, B_ = Parameter(na), Parameter(nb)
        if A_ == B_ or (A_ * 2.0) == (B_ * 2.0) or (2.0 - A_) == (2.0 - B_):
            problems.append("Parameter(f) == Parameter(g) for f, g with the same bytecode shape that call np.sin / np.cos (values differ: "
                            f"{float(np.squeeze(A_(0.3, 0.1, 0.2)))} vs {float(np.squeeze(B_(0.3, 0.1, 0.2)))})")
    import re
    m = re.search(r"\[(\w+) (\w+) (\w+)\]", name)
    combos = [(m.group(1), m.group(2), m.group(3))] if m and m.group(1) in mk and m.group(3) in mk else [(a, o, b) for a in mk for o, _ in OPS for b in mk]
    ops = dict(OPS)
    for a, o, b in combos:
        if a in ("int", "float") and b in ("int", "float"):
            continue
        try:
            l, r = mk[a](), mk[b]()
            c = ops[o](l, r)
            td = getattr(c, "time_dependent")
            want_td = (isinstance(l, Parameter) and l.time_dependent) or (isinstance(r, Parameter) and r.time_dependent)
            if td != want_td:
                problems.append(f"{a} {o} {b}: time_dependent={td}, expected {want_td}")
            if len(dims(a, b)) > 1:
                continue
            for (x, y, z, t) in PTS:
                if dims(a, b) == {2}:
                    z = None
                got = c(x, y, z, t=t) if want_td else c(x, y, z)
                def val(p):
                    if isinstance(p, CompositeParameter):
                        return p.operator(val(p.left), val(p.right))
                    if isinstance(p, Parameter):
                        kw = dict(p.kwargs)
                        if p.time_dependent:
                            kw["t"] = t
                        return float(np.squeeze(p.func(np.atleast_1d(x), np.atleast_1d(y), **({"z": np.atleast_1d(z)} if (p.func is not g2 and z is not None) else {}), **kw)))
                    return p
                if abs(got - ops[o](val(l), val(r))) > 1e-12:
                    problems.append(f"{a} {o} {b}: value {got} != pointwise {ops[o](val(l), val(r))} at {(x, y, z, t)}")
            c._clear_cache()

            def leaves_of(p):
                if isinstance(p, CompositeParameter):
                    return leaves_of(p.left) + leaves_of(p.right)
                return [p] if isinstance(p, Parameter) else []
            left_over = [len(q._cache) for q in leaves_of(c) if getattr(q, "_cache", None)]
            if left_over:
                problems.append(f"{a} {o} {b}: _clear_cache() leaves {sum(left_over)} cached evaluations in the operands (nested composites are not cleared)")
            d = pickle.loads(pickle.dumps(c))
            _ = d.time_dependent, d._cache, d._use_cache
            _ = c._use_cache
            # saving must not change the object that was saved: it still equals its copy, still evaluates, and can be saved again
            if len(dims(a, b)) <= 1:
                x, y, z, t = PTS[0]
                if dims(a, b) == {2}:
                    z = None
                v_c = c(x, y, z, t=t) if want_td else c(x, y, z)
                v_d = d(x, y, z, t=t) if want_td else d(x, y, z)
                d2 = pickle.loads(pickle.dumps(c))
                v_d2 = d2(x, y, z, t=t) if want_td else d2(x, y, z)
                if not (c == d and abs(v_c - v_d) <= 1e-12 and abs(v_c - v_d2) <= 1e-12):
                    problems.append(f"{a} {o} {b}: after pickling once the original differs from its copy (values {v_c}, {v_d}, second copy {v_d2})")
        except Exception as e:
            problems.append(f"{a} {o} {b}: {type(e).__name__}: {e}")
    if not m:
        problems += array_cases()[0]
    if problems:
        return dict(confirmed=True, failing_input=problems[0], n_failing=len(problems), tdgl_file=tdgl.__file__)
    return dict(confirmed=False, tdgl_file=tdgl.__file__)


MUTANTS = [
    dict(name="sum of two operands accumulated into the left operand's array", units=["CompositeParameter.__call__[array arguments, frame]"],
         edits=[(M, "        return self.operator(*values)", "        if isinstance(values[0], np.ndarray) and self.operator is operator.add and np.shape(values[0]) == np.shape(values[0] + values[1]):\n            values[0] += values[1]\n            return values[0]\n        return self.operator(*values)")]),
    dict(name="ramp stays at the initial value until tmax", units=["sources.scaling"], edits=[(SC_, "    if t < tmin:\n        return initial", "    if t < tmax:\n        return initial")]),
    dict(name="ramp slope uses tmax as the origin", units=["sources.scaling"], edits=[(SC_, "(t - tmin) / (tmax - tmin)", "(t - tmax) / (tmax - tmin)")]),
    dict(name="LinearRamp is not time dependent", units=["sources.scaling"], edits=[(SC_, "        final=final,\n        time_dependent=True,", "        final=final,\n        time_dependent=False,")]),
    dict(name="LinearRamp swaps initial and final", units=["sources.scaling"], edits=[(SC_, "        initial=initial,\n        final=final,", "        initial=final,\n        final=initial,")]),
]


def thorough(seed=0):
    from pyvc import harness
    summary, broken = harness.run_mutants("checks.c16", [u for u in units() if u.name == "sources.scaling"], MUTANTS)
    return dict(coverage=dict(mutants=summary, mutants_killed=sum(1 for m in summary if m["verdict"] in ("killed", "not-proved") and m["expect"] == "killed"),
                              mutants_total=sum(1 for m in summary if m["expect"] == "killed")), broken=broken)
