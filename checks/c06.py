"""C06 -- the order parameter is pinned on current terminals and nowhere else."""
import z3

from pyvc import sym, arr
from pyvc.harness import Unit
from pyvc import harness as _h
from pyvc.meshmodel import compare_blocks
from pyvc.sym import SB, SC, SI, SR, check, explore, assume
from checks import ops_common as oc, c02, c10, init_common as ic

PROPERTY = "C06"
LEVEL = "proof"
TRUSTED = c10.TRUSTED
ASSUMPTIONS = ["valid_mesh (see C03); fixed_sites lists each terminal site once",
               "C06.init (TDGLSolver.__init__ sets psi_init on terminal sites and fix_psi = terminal_psi is not None) is decided in the "
               "constructor unit of C19/C08 when available; here the pinned-row, refresh and step obligations are decided",
               "a pinned site sees Laplacian action L psi = psi_i (identity row), which is what C06.pinned_row proves",
               "Device.terminal_info: Polygon.contains_points, np.intersect1d, array product / indexing / sum are uninterpreted (free term algebra); "
               "the postcondition is term equality with the contract evaluated on the device's state at the call, so it holds under every interpretation; "
               "a syntactically different but equivalent computation would be reported as undecided, not as a violation"]
EXPLANATION = ("pinned-row stencil on the real build_laplacian, refresh keeps the pin (C10 invariant with pinned rows), one step at a pinned site, "
               "and the real Device.terminal_info returns the boundary sites inside each CURRENT terminal of the CURRENT mesh after any history of calls")
F = "tdgl.finite_volume.operators:"


def run_pinned_rows(mutate=None):
    L = oc.load_ops(mutate)

    def body():
        M = oc.setup_mesh()
        A = M.A_field("A")
        W = M.edge_mesh.dual_edge_lengths / M.edge_mesh.edge_lengths
        Lp, free_rows = L["build_laplacian"](M.mesh, link_exponents=A, fixed_sites=M.fixed_sites, weights=W)
        spec = oc.laplacian_spec(M, A, pinned=True)
        compare_blocks("C06.build_laplacian.pinned_stencil", Lp.blocks, spec, [], oc.edge_ax(M))
        # lemma over the stencil: row p of a pinned site p is exactly {(p,p): 1}
        p = SI(sym.FreshInt("p"))
        k = SI(sym.FreshInt("k"))
        assume(p >= 0, p < M.N, SB(M.isfixed(p.e)))
        hy = oc.edge_ax(M)([k]) + M.member_axioms([p.e]) + M.fixed_axioms([k, SI(M.fixidx(p.e))])
        for bi in range(4):
            n, g, r, c, v = oc_eval(spec[bi], k)
            check(f"C06.pinned_row.no_edge_contribution[{bi}]", z3.Implies(z3.And(k.e >= 0, k.e < n.e, g), r.e != p.e), extra=hy)
        n, g, r, c, v = oc_eval(spec[4], k)
        check("C06.pinned_row.identity_entry_once",
              z3.And(z3.Implies(z3.And(k.e >= 0, k.e < n.e, r.e == p.e), z3.And(k.e == M.fixidx(p.e), c.e == p.e, sym.eq(v, 1))),
                     M.fixidx(p.e) >= 0, M.fixidx(p.e) < n.e, M.fx(M.fixidx(p.e)) == p.e), extra=hy)
        # sites outside terminals are never pinned: no identity entry lands in the row of a free site
        q = SI(sym.FreshInt("qsite"))
        check("C06.free_site_has_no_identity_row", z3.Implies(z3.And(z3.Not(M.isfixed(q.e)), k.e >= 0, k.e < n.e), r.e != q.e),
              extra=hy + M.fixed_axioms([k]))
        # with pinning disabled (fixed_sites=None) the Laplacian has no pinned rows at all
        Lf, _ = L["build_laplacian"](M.mesh, link_exponents=A, fixed_sites=None, weights=W)
        compare_blocks("C06.unset_terminal_value_means_no_pinned_rows", Lf.blocks, oc.laplacian_spec(M, A, pinned=False), [], oc.edge_ax(M))
    obls, n = explore(body)
    return dict(obls=obls, paths=n, sources=[L.info()], consistent=sym.consistent())


def oc_eval(block, k):
    n, g, r, c, v = block
    return (n, (g(k) if g else z3.BoolVal(True)), r(k), c(k), v(k))


class IdentityRow:
    """Laplacian action at a pinned site: (L psi)_i = psi_i"""
    def __matmul__(self, v):
        return v


def _run_step(mutate, zero):
    L = c02.load(mutate)
    fn = L["TDGLSolver"].solve_for_psi_squared

    def body():
        R = z3.Real
        if zero:
            v = SC(0, 0)
        else:
            v = SC(SR(R("v_re")), SR(R("v_im")))
            assume(v.abs2() <= 1, v.abs2() > 0)
        a = dict(psi=v, abs_sq_psi=v.abs2(), mu=SR(R("mu")), epsilon=SR(R("epsilon")), gamma=SR(R("gamma")), u=SR(R("u")), dt=SR(R("dt")),
                 psi_laplacian=IdentityRow())
        assume(a["gamma"] >= 0, a["u"] > 0, a["dt"] > 0, a["epsilon"] <= 1, a["epsilon"] >= -1)
        res = fn(**a)
        tag = "v=0" if zero else "v!=0"
        if res is None:
            return      # refusal is decided by the other sites (np.any); C12 turns it into a retry or an error
        psi1, x = res
        from pyvc import vc as vcm
        rev = vcm.reveal("z", "w")
        check(f"C06.step_keeps_value[{tag}]", sym.eq(psi1, v), extra=rev)
        check(f"C06.step_keeps_value[{tag}].modulus", x.e == v.abs2().e, extra=rev)
    obls, n = explore(body)
    return dict(obls=obls, paths=n, sources=[L.info()], consistent=sym.consistent())


def run_step_zero(mutate=None):
    return _run_step(mutate, True)


def run_step_nonzero(mutate=None):
    return _run_step(mutate, False)


# ---------------------------------------------------------------------------------------------------------------------------------
# Device.terminal_info(): WHICH sites are pinned.  The real method is executed over the free term algebra of the device's current
# state: mesh arrays, the coherence length and every terminal's membership test are uninterpreted; the postcondition is that the
# returned indices are -- as terms -- intersect(inside(t, xi*sites(mesh)), boundary(mesh)) of the mesh / terminals the device has
# AT THE CALL, also after earlier calls on a different mesh, different terminals or a different coherence length (no memory).
class Tm:
    def __init__(self, op, *args):
        self.op, self.args = op, args

    def key(self):
        ks = tuple(a.key() if isinstance(a, Tm) else ("const", repr(a)) for a in self.args)
        if self.op == "mul":
            ks = tuple(sorted(ks))
        return (self.op,) + ks

    def __mul__(self, o):
        if isinstance(o, _UnitOne):
            return _Quantity(self)
        return Tm("mul", self, o)
    __rmul__ = __mul__

    def __getitem__(self, i):
        return Tm("take", self, i)

    def sum(self):
        return Tm("sum", self)

    def __lt__(self, o):
        # the order of the returned tuple (by terminal length) is not part of C06: any fixed total order on terms will do
        return repr(self.key()) < repr(o.key())

    def __repr__(self):
        return self.op + "(" + ", ".join(repr(a) for a in self.args) + ")"


class _UnitOne:
    pass


class _Quantity:
    def __init__(self, m):
        self.magnitude = m


class _NPT:
    @staticmethod
    def intersect1d(a, b):
        return Tm("intersect", a, b)


def _mesh(tag):
    em = type("EM", (), {})()
    em.centers, em.boundary_edge_indices, em.edge_lengths = Tm("centers", tag), Tm("boundary_edges", tag), Tm("edge_lengths", tag)
    m = type("M", (), {})()
    m.sites, m.boundary_indices, m.edge_mesh = Tm("sites", tag), Tm("boundary_sites", tag), em
    return m


class _Terminal:
    def __init__(self, name, version=0):
        self.name, self.version = name, version

    def contains_points(self, points, index=False, radius=0):
        return Tm("inside" if index else "inside_mask", self.name, self.version, points)


def _spec_info(mesh, terminals, xi):
    em = mesh.edge_mesh
    out = {}
    for t in terminals:
        pos = Tm("mul", xi, em.centers)
        bpos = Tm("take", pos, em.boundary_edge_indices)
        be = Tm("inside", t.name, t.version, bpos)
        out[t.name] = dict(site_indices=Tm("intersect", Tm("inside", t.name, t.version, Tm("mul", mesh.sites, xi)), mesh.boundary_indices),
                           edge_indices=Tm("intersect", Tm("inside", t.name, t.version, pos), em.boundary_edge_indices),
                           boundary_edge_indices=be,
                           length=Tm("sum", Tm("take", Tm("take", Tm("mul", em.edge_lengths, xi), em.boundary_edge_indices), be)))
    return out


D_ = "tdgl.device.device"


def run_terminal_info(mutate=None):
    from pyvc import instrument, vc as vcm
    mut = [(o, n) for (m, o, n) in (mutate or []) if m == D_]
    L = instrument.load(D_, rebind={"np": _NPT, "ureg": lambda u: _UnitOne()}, mutate=mut, vc=vcm.VC())
    Device = L["Device"]

    def fresh(mesh, terminals, xi):
        # the REAL constructor (stub polygons: only name / is_valid are read), then the mesh is attached as make_mesh does
        layer = type("Layer", (), {})()
        layer.coherence_length = xi
        film = type("Film", (), {"name": "film", "is_valid": True})()
        d = Device("d", layer=layer, film=film, terminals=list(terminals), length_units="um")
        d.mesh = mesh
        return d

    def judge(tag, got, mesh, terminals, xi):
        spec = _spec_info(mesh, terminals, xi)
        ok_names = sorted(t.name for t in got) == sorted(spec)
        sym.check_terms(f"C06.terminal_sites.one_entry_per_current_terminal[{tag}]", ok_names, note=str([t.name for t in got]))
        for t in got:
            sp = spec.get(t.name)
            for fld in ("site_indices", "edge_indices", "boundary_edge_indices", "length"):
                g = getattr(t, fld)
                same = sp is not None and isinstance(g, Tm) and g.key() == sp[fld].key()
                nm = "are_the_boundary_sites_inside_the_terminal_on_the_current_mesh" if fld == "site_indices" else fld + "_from_the_current_state"
                sym.check_terms(f"C06.terminal_sites.{nm}[{tag}; {t.name}]", same, note=f"{t.name}: got {g!r}; contract {sp[fld] if sp else None!r}")

    def body():
        xi1, xi2 = Tm("xi", 1), Tm("xi", 2)
        m1, m2 = _mesh(1), _mesh(2)
        t1 = [_Terminal("source"), _Terminal("drain")]
        # fresh device
        d = fresh(m1, t1, xi1)
        judge("first call", d.terminal_info(), m1, t1, xi1)
        # the same device object after the mesh was rebuilt (make_mesh assigns self.mesh)
        d.mesh = m2
        judge("after the mesh was rebuilt", d.terminal_info(), m2, t1, xi1)
        # ... after a terminal polygon was edited in place
        t1[0].version = 1
        judge("after a terminal was edited in place", d.terminal_info(), m2, t1, xi1)
        # ... after the terminals were replaced
        t2 = [_Terminal("source", 2), _Terminal("top", 0), _Terminal("drain", 0)]
        d.terminals = tuple(t2)
        judge("after the terminals were replaced", d.terminal_info(), m2, t2, xi1)
        # ... after the coherence length changed (points are in length units = xi * sites)
        d.layer.coherence_length = xi2
        judge("after the coherence length changed", d.terminal_info(), m2, t2, xi2)
        # no terminals: nothing is pinned
        d.terminals = ()
        sym.check_terms("C06.terminal_sites.no_terminals_no_pinned_sites", len(d.terminal_info()) == 0)
    obls, n = explore(body)
    return dict(obls=obls, paths=n, sources=[L.info()], consistent=True)



def _bounded_quick():
    r1 = replay_terminal_info({})
    r2 = replay_two_solvers({})
    r3 = replay_retried_steps({})
    bad = list(r1.get('failing_history') or []) + list(r2.get('failing_history') or []) + list(r3.get('failing_history') or [])
    return bad, 3


def units():
    return [
        Unit("build_laplacian[pinned rows]", F + "build_laplacian", run_pinned_rows, props=["C06"], timeout=600),
        Unit("set_link_exponents[fix_psi=True]", F + "MeshOperators.set_link_exponents", c10.run_pinned, props=["C06", "C10"], timeout=900),
        Unit("set_link_exponents[fix_psi=False]", F + "MeshOperators.set_link_exponents", c10.run_free, props=["C06", "C10"], timeout=900),
        Unit("step_at_pinned_site[terminal_psi=0]", "tdgl.solver.solver:TDGLSolver.solve_for_psi_squared", run_step_zero, props=["C06"], timeout=300),
        Unit("Device.terminal_info", "tdgl.device.device:Device.terminal_info", run_terminal_info, props=["C06"], timeout=300),
        Unit("adaptive_euler_step[every return path]", "tdgl.solver.solver:TDGLSolver.adaptive_euler_step",
             lambda m=None: __import__("checks.update_common", fromlist=["x"]).run_retry(m, True, prefixes=("C06.",)), props=["C06"], timeout=600),
        Unit("TDGLSolver.__init__[two solvers on one mesh]", "tdgl.solver.solver:TDGLSolver.__init__", lambda m=None: ic.run_init(m, prefixes=("C06.",), again=True, narrow=dict(adaptive=True, include_screening=False)), props=["C06"], timeout=900),
        Unit("step_at_pinned_site[terminal_psi!=0]", "tdgl.solver.solver:TDGLSolver.solve_for_psi_squared", run_step_nonzero, props=["C06"], timeout=300),
            _h.bounded_unit("pinned sites of real devices [bounded]", "Device.terminal_info / TDGLSolver (real runs)", "C06", _bounded_quick, "terminal_sites_follow_the_device_and_each_solver_pins_its_own", timeout=900)]


def replay_terminal_info(obl):
    import os
    os.environ.setdefault("TQDM_DISABLE", "1")
    """native: one Device object through a history (solve-like call, then re-mesh / edit a terminal / change xi); after every change
    terminal_info() must equal that of a freshly constructed device with the same polygons, layer and mesh"""
    import numpy as np
    import tdgl
    from tdgl.geometry import box
    layer = tdgl.Layer(coherence_length=0.5, london_lambda=2, thickness=0.1)
    film = tdgl.Polygon("film", points=box(4, 2, points=21))
    src = tdgl.Polygon("source", points=box(0.2, 1.0)).translate(dx=-2)
    drn = tdgl.Polygon("drain", points=box(0.2, 1.0)).translate(dx=2)
    d = tdgl.Device("d", layer=layer, film=film, terminals=[src, drn], length_units="um")
    d.make_mesh(max_edge_length=0.6, smooth=2)
    bad = []

    def same(tag):
        f = tdgl.Device("f", layer=d.layer.copy(), film=d.film.copy(), holes=[h.copy() for h in d.holes], terminals=[t.copy() for t in d.terminals], length_units=d.length_units)
        f.mesh = d.mesh
        a = {t.name: t for t in d.terminal_info()}
        b = {t.name: t for t in f.terminal_info()}
        if sorted(a) != sorted(b):
            bad.append(dict(after=tag, terminals_reported=sorted(a), terminals_of_the_device=sorted(b)))
            return
        for trm in d.terminals:
            want = np.array([i for i in d.mesh.boundary_indices if trm.contains_points(d.points[i:i + 1])[0]], dtype=int)
            if not np.array_equal(np.sort(a[trm.name].site_indices), np.sort(want)):
                bad.append(dict(after=tag, terminal=trm.name, sites_reported=np.sort(a[trm.name].site_indices).tolist()[:12],
                                boundary_sites_inside_the_terminal=np.sort(want).tolist()[:12]))
                return
        # independent terminal length: sum of the site-to-site distances (in length units) of the boundary edges whose centre is inside
        em = d.mesh.edge_mesh
        P = d.points
        for trm in d.terminals:
            be = em.boundary_edge_indices
            cen = 0.5 * (P[em.edges[be, 0]] + P[em.edges[be, 1]])
            ins = trm.contains_points(cen)
            want_len = float(np.linalg.norm(P[em.edges[be, 1]] - P[em.edges[be, 0]], axis=1)[ins].sum())
            if not np.isclose(float(a[trm.name].length), want_len, rtol=1e-9, atol=1e-12):
                bad.append(dict(after=tag, terminal=trm.name, length_reported=float(a[trm.name].length), length_of_the_covered_boundary_edges_in_length_units=want_len,
                                coherence_length=float(d.layer.coherence_length)))
                return
        for nme in a:
            if not (np.array_equal(a[nme].site_indices, b[nme].site_indices) and np.array_equal(a[nme].edge_indices, b[nme].edge_indices)
                    and np.isclose(a[nme].length, b[nme].length)):
                bad.append(dict(after=tag, terminal=nme, sites_reported=a[nme].site_indices.tolist()[:12], sites_of_the_current_mesh=b[nme].site_indices.tolist()[:12],
                                length_reported=float(a[nme].length), length_now=float(b[nme].length)))
    same("first call")
    d.make_mesh(max_edge_length=0.25, smooth=2)
    same("re-meshing at a finer resolution")
    d.terminals[0].scale(yfact=0.4, inplace=True)
    same("editing a terminal polygon in place")
    d.layer.coherence_length = 0.25
    same("changing the coherence length")
    return dict(confirmed=bool(bad), failing_history=bad[:4], note="one Device object: terminal_info(), change, terminal_info() again, compared with a fresh Device on the same mesh")


def replay_scope(unit, obl):
    return (obl or {}).get("name", "") if unit.startswith("step_at_pinned_site") else "unit"


def replay_retried_steps(obl=None):
    """native: the REAL adaptive_euler_step of a real solver (terminal_psi = 0, driven film) with scripted refusals of the first 0..3 attempts: whatever
    attempt is answered, the order parameter handed back is the terminal value on every terminal site and nowhere else held"""
    import logging
    import numpy as np
    logging.disable(logging.CRITICAL)
    import tdgl
    from tdgl.solver.solver import TDGLSolver
    from checks import update_native
    dev = update_native.device()
    sites = np.concatenate([t.site_indices for t in dev.terminal_info()])
    bad, n = [], 0
    rng = np.random.default_rng(0)
    for refusals in (0, 1, 2, 3):
        opts = tdgl.SolverOptions(solve_time=1, adaptive=True, max_solve_retries=5, dt_init=1e-3, dt_max=1e-1, terminal_psi=0.0)
        s = TDGLSolver(dev, opts, applied_vector_potential=0.3, terminal_currents=dict(source=2.0, drain=-2.0))
        real = TDGLSolver.solve_for_psi_squared
        calls = []

        def scripted(**kw):
            calls.append(kw["dt"])
            if len(calls) <= refusals:
                return None
            return real(**kw)
        s.solve_for_psi_squared = scripted
        psi = np.array(s.psi_init, dtype=complex)
        free = np.setdiff1d(np.arange(len(psi)), sites)
        psi[free] = 0.8 * np.exp(1j * rng.uniform(0, 2 * np.pi, len(free)))
        mu = rng.normal(0, 0.3, len(psi))
        n += 1
        out = s.adaptive_euler_step(3, psi, np.abs(psi) ** 2, mu, s.epsilon, 0.05)
        worst = float(np.abs(np.asarray(out[0])[sites]).max())
        moved = float(np.abs(np.asarray(out[0])[free] - psi[free]).max())
        if worst != 0.0:
            bad.append(dict(what="order parameter on terminal sites is not the terminal value 0 after a step that was answered on a retried attempt" if refusals else
                            "order parameter on terminal sites is not the terminal value 0 after a step", refused_attempts_before_the_answer=refusals, dt_tried=[float(x) for x in calls],
                            max_abs_psi_on_terminal_sites=worst, device="3 x 2 film with source / drain strips, terminal_psi=0.0, A=0.3, I=2"))
        if moved == 0.0:
            bad.append(dict(what="free sites did not move in a driven step (everything pinned)", refused_attempts_before_the_answer=refusals))
    logging.disable(logging.NOTSET)
    return dict(confirmed=bool(bad), failing_history=bad[:2], evaluations=n)


def replay_two_solvers(obl):
    """native: two solves on one device object, terminal_psi None then 0 and the other way round: psi on terminal sites"""
    import os
    import tempfile
    import numpy as np
    import logging
    logging.disable(logging.CRITICAL)
    import tdgl
    from checks import update_native
    dev = update_native.device()
    bad = []
    sites = np.concatenate([t.site_indices for t in dev.terminal_info()])
    with tempfile.TemporaryDirectory() as td:
        for order in ((None, 0.0), (0.0, None)):
            for j, tp in enumerate(order):
                o = tdgl.SolverOptions(solve_time=2.0, terminal_psi=tp, output_file=os.path.join(td, f"o{j}.h5"), save_every=50)
                sol = tdgl.solve(dev, o, applied_vector_potential=0.2, terminal_currents=dict(source=1.0, drain=-1.0))
                a = np.abs(sol.tdgl_data.psi[sites])
                if tp is not None and a.max() > 1e-12:
                    bad.append(dict(what="psi on terminal sites is not the terminal value in a solve that follows a solve with terminal_psi=None on the same device",
                                    order=[str(x) for x in order], max_abs_psi_on_terminals=float(a.max())))
                if tp is None and j == 1 and (a.max() > 1.5 or np.allclose(a, a[0]) and a[0] == 0):
                    bad.append(dict(what="terminal sites do not evolve freely in a solve with terminal_psi=None that follows a pinned solve on the same device",
                                    order=[str(x) for x in order], max_abs_psi_on_terminals=float(a.max())))
        # contact pads that cover only PART of a film edge: the pinned sites are the boundary sites inside the terminal polygons and no others
        # (a boundary edge whose centre is inside a pad may end at a site outside it)
        import h5py
        from tdgl.geometry import box
        layer = tdgl.Layer(coherence_length=0.5, london_lambda=2, thickness=0.1)
        film = tdgl.Polygon("film", points=box(4, 2, points=41))
        pads = [tdgl.Polygon("source", points=box(0.2, 0.93)).translate(dx=-2, dy=0.31), tdgl.Polygon("drain", points=box(0.2, 0.77)).translate(dx=2, dy=-0.22)]
        d2 = tdgl.Device("pads", layer=layer, film=film, terminals=pads, length_units="um")
        d2.make_mesh(max_edge_length=0.3, smooth=2)
        inside = np.zeros(len(d2.points), dtype=bool)
        for trm in d2.terminals:
            inside |= trm.contains_points(d2.points)
        o = tdgl.SolverOptions(solve_time=1.0, terminal_psi=0.0, output_file=os.path.join(td, "pads.h5"), save_every=20)
        sol = tdgl.solve(d2, o, applied_vector_potential=0.1, terminal_currents=dict(source=1.0, drain=-1.0))
        with h5py.File(sol.path, "r") as f:
            P = np.array([np.array(f["data"][k]["psi"]) for k in sorted(f["data"], key=int)])
        always_zero = np.all(P == 0, axis=0)
        wrong = np.flatnonzero(always_zero & ~inside)
        if len(wrong):
            bad.append(dict(what="sites outside every terminal polygon are pinned (psi == 0 exactly at every recorded step)", sites=wrong.tolist()[:8],
                            positions=d2.points[wrong][:4].tolist(), frames=len(P), device="4 x 2 film, pads 0.2 x 0.93 at (-2, 0.31) and 0.2 x 0.77 at (2, -0.22), max_edge_length 0.3"))
        missing = np.flatnonzero(inside & np.isin(np.arange(len(d2.points)), d2.mesh.boundary_indices) & ~np.all(P[1:] == 0, axis=0))
        if len(missing):
            bad.append(dict(what="boundary sites inside a terminal polygon are not held at the terminal value 0", sites=missing.tolist()[:8]))
    logging.disable(logging.NOTSET)
    return dict(confirmed=bool(bad), failing_history=bad[:2])


def replay(unit, obl):
    if "bounded" in unit:
        bad, n = _bounded_quick()
        return dict(confirmed=bool(bad), failing_input=(bad or [None])[0], evaluations=n)
    if unit.startswith("TDGLSolver.__init__"):
        r = replay_two_solvers(obl)
        return r if r.get("confirmed") else replay_retried_steps(obl)
    if unit.startswith("adaptive_euler_step"):
        return replay_retried_steps(obl)
    if unit == "Device.terminal_info":
        return replay_terminal_info(obl)
    if unit.startswith("step_at_pinned_site"):
        import numpy as np
        import scipy.sparse as sp
        from tdgl.solver.solver import TDGLSolver
        m = obl.get("model") or {}
        g = lambda k, d: float(m[k]) if isinstance(m.get(k), (int, float)) else d
        v = complex(g("v_re", 0.5), g("v_im", 0.0)) if "!=0" in unit else 0j
        psi = np.array([v, v])
        args = dict(psi=psi, abs_sq_psi=np.abs(psi) ** 2, mu=np.array([g("mu", 0.0)] * 2), epsilon=np.array([g("epsilon", 1.0)] * 2),
                    gamma=abs(g("gamma", 1.0)), u=g("u", 5.79) or 1.0, dt=g("dt", 0.1) or 0.1, psi_laplacian=sp.identity(2, format="csr", dtype=complex))
        out = TDGLSolver.solve_for_psi_squared(**args)
        if out is None:
            return dict(confirmed=True, inputs={k: str(a) for k, a in args.items()}, result="refused at a pinned site")
        drift = float(np.abs(out[0] - psi).max())
        return dict(confirmed=bool(drift > 1e-12), inputs={k: str(a) for k, a in args.items() if k != "psi_laplacian"},
                    terminal_value=str(v), value_after_one_step=str(out[0][0]), drift=drift,
                    note="identity row feeds +psi_i into the Euler step: a non-zero terminal value is not held")
    from checks import ops_native
    return ops_native.replay_any(unit, obl)


M_ = "tdgl.finite_volume.operators"
MUTANTS = [
    dict(name="retried attempt uses a Laplacian without pinned rows", units=["adaptive_euler_step[every return path]"],
         edits=[("tdgl.solver.solver", "            kwargs[\"dt\"] = dt = dt * options.adaptive_time_step_multiplier\n            result = self.solve_for_psi_squared(**kwargs)", "            kwargs[\"dt\"] = dt = dt * options.adaptive_time_step_multiplier\n            kwargs[\"psi_laplacian\"] = self.operators.mu_laplacian\n            result = self.solve_for_psi_squared(**kwargs)")]),
    dict(name="answer of a retried attempt is halved", units=["adaptive_euler_step[every return path]"],
         edits=[("tdgl.solver.solver", "        psi, new_sq_psi = result\n        return psi, new_sq_psi, dt", "        psi, new_sq_psi = result\n        if retries:\n            psi = psi * 0.5\n        return psi, new_sq_psi, dt")]),
    dict(name="isin invert dropped", edits=[(M_, "free_rows = np.isin(rows, fixed_sites, invert=True)", "free_rows = np.isin(rows, fixed_sites)")], units=["build_laplacian[pinned rows]"]),
    dict(name="pin eigenvalue 0", edits=[(M_, "[values, fixed_sites_eigenvalues * np.ones(len(fixed_sites))]", "[values, 0 * np.ones(len(fixed_sites))]")], units=["build_laplacian[pinned rows]"]),
    dict(name="refresh ignores free_rows", edits=[(M_, "            if self.fix_psi:\n                free_rows = self.laplacian_free_rows[: len(self.laplacian_link_rows)]", "            if False:\n                free_rows = self.laplacian_free_rows[: len(self.laplacian_link_rows)]")], units=["set_link_exponents[fix_psi=True]"]),
    dict(name="terminal_info memoised", edits=[(D_, '''        return tuple(sorted(info, key=attrgetter("length")))''', '''        self._terminal_info = tuple(sorted(info, key=attrgetter("length")))
        return self._terminal_info'''), (D_, '''        xi = self.layer.coherence_length
        mesh = self.mesh
        sites = self.points''', '''        if getattr(self, "_terminal_info", None) is not None:
            return self._terminal_info
        xi = self.layer.coherence_length
        mesh = self.mesh
        sites = self.points''')], units=["Device.terminal_info"]),
    dict(name="terminal sites not restricted to the boundary", edits=[(D_, '''            sites_index = np.intersect1d(
                terminal.contains_points(sites, index=True), mesh.boundary_indices
            )''', '''            sites_index = terminal.contains_points(sites, index=True)''')], units=["Device.terminal_info"]),
    dict(name="mask by column site", edits=[(M_, "free_rows = np.isin(rows, fixed_sites, invert=True)", "free_rows = np.isin(cols, fixed_sites, invert=True)")], units=["build_laplacian[pinned rows]"]),
]


def thorough(seed=0):
    from pyvc import harness
    from checks import ops_native
    summary, broken = harness.run_mutants("checks.c06", units(), MUTANTS)
    bnd = ops_native.bounded(seed)
    broken = broken + bnd.get("broken", [])
    return dict(coverage=dict(mutants=summary, bounded=bnd, mutants_killed=sum(1 for m in summary if m["verdict"] in ("killed", "not-proved") and m["expect"] == "killed"),
                              mutants_total=sum(1 for m in summary if m["expect"] == "killed")), broken=broken)
