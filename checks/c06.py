"""C06 -- the order parameter is pinned on current terminals and nowhere else."""
import z3

from pyvc import sym, arr
from pyvc.harness import Unit
from pyvc.meshmodel import compare_blocks
from pyvc.sym import SB, SC, SI, SR, check, explore, assume
from checks import ops_common as oc, c02, c10

PROPERTY = "C06"
LEVEL = "proof"
TRUSTED = c10.TRUSTED
ASSUMPTIONS = ["valid_mesh (see C03); fixed_sites lists each terminal site once",
               "C06.init (TDGLSolver.__init__ sets psi_init on terminal sites and fix_psi = terminal_psi is not None) is decided in the "
               "constructor unit of C19/C08 when available; here the pinned-row, refresh and step obligations are decided",
               "a pinned site sees Laplacian action L psi = psi_i (identity row), which is what C06.pinned_row proves"]
EXPLANATION = "pinned-row stencil on the real build_laplacian, refresh keeps the pin (C10 invariant with pinned rows), one step at a pinned site"
F = "tdgl.finite_volume.operators:"


def run_pinned_rows(mutate=None):
    L = oc.load_ops(mutate)

    def body():
        M = oc.setup_mesh()
        A = M.A_field("A")
        W = M.edge_mesh.dual_edge_lengths / M.edge_mesh.edge_lengths
        Lp, free_rows = L["build_laplacian"](M.mesh, link_exponents=A, fixed_sites=M.fixed_sites, weights=W)
        spec = oc.laplacian_spec(M, A, pinned=True)
        compare_blocks("C06.build_laplacian.pinned_stencil", Lp.blocks, spec, [], oc.edge_ax(M))
        # lemma over the stencil: row p of a pinned site p is exactly {(p,p): 1}
        p = SI(sym.FreshInt("p"))
        k = SI(sym.FreshInt("k"))
        assume(p >= 0, p < M.N, SB(M.isfixed(p.e)))
        hy = oc.edge_ax(M)([k]) + M.member_axioms([p.e]) + M.fixed_axioms([k, SI(M.fixidx(p.e))])
        for bi in range(4):
            n, g, r, c, v = oc_eval(spec[bi], k)
            check(f"C06.pinned_row.no_edge_contribution[{bi}]", z3.Implies(z3.And(k.e >= 0, k.e < n.e, g), r.e != p.e), extra=hy)
        n, g, r, c, v = oc_eval(spec[4], k)
        check("C06.pinned_row.identity_entry_once",
              z3.And(z3.Implies(z3.And(k.e >= 0, k.e < n.e, r.e == p.e), z3.And(k.e == M.fixidx(p.e), c.e == p.e, sym.eq(v, 1))),
                     M.fixidx(p.e) >= 0, M.fixidx(p.e) < n.e, M.fx(M.fixidx(p.e)) == p.e), extra=hy)
        # sites outside terminals are never pinned: no identity entry lands in the row of a free site
        q = SI(sym.FreshInt("qsite"))
        check("C06.free_site_has_no_identity_row", z3.Implies(z3.And(z3.Not(M.isfixed(q.e)), k.e >= 0, k.e < n.e), r.e != q.e),
              extra=hy + M.fixed_axioms([k]))
        # with pinning disabled (fixed_sites=None) the Laplacian has no pinned rows at all
        Lf, _ = L["build_laplacian"](M.mesh, link_exponents=A, fixed_sites=None, weights=W)
        compare_blocks("C06.unset_terminal_value_means_no_pinned_rows", Lf.blocks, oc.laplacian_spec(M, A, pinned=False), [], oc.edge_ax(M))
    obls, n = explore(body)
    return dict(obls=obls, paths=n, sources=[L.info()], consistent=sym.consistent())


def oc_eval(block, k):
    n, g, r, c, v = block
    return (n, (g(k) if g else z3.BoolVal(True)), r(k), c(k), v(k))


class IdentityRow:
    """Laplacian action at a pinned site: (L psi)_i = psi_i"""
    def __matmul__(self, v):
        return v


def _run_step(mutate, zero):
    L = c02.load(mutate)
    fn = L["TDGLSolver"].solve_for_psi_squared

    def body():
        R = z3.Real
        if zero:
            v = SC(0, 0)
        else:
            v = SC(SR(R("v_re")), SR(R("v_im")))
            assume(v.abs2() <= 1, v.abs2() > 0)
        a = dict(psi=v, abs_sq_psi=v.abs2(), mu=SR(R("mu")), epsilon=SR(R("epsilon")), gamma=SR(R("gamma")), u=SR(R("u")), dt=SR(R("dt")),
                 psi_laplacian=IdentityRow())
        assume(a["gamma"] >= 0, a["u"] > 0, a["dt"] > 0, a["epsilon"] <= 1, a["epsilon"] >= -1)
        res = fn(**a)
        tag = "v=0" if zero else "v!=0"
        if res is None:
            return      # refusal is decided by the other sites (np.any); C12 turns it into a retry or an error
        psi1, x = res
        from pyvc import vc as vcm
        rev = vcm.reveal("z", "w")
        check(f"C06.step_keeps_value[{tag}]", sym.eq(psi1, v), extra=rev)
        check(f"C06.step_keeps_value[{tag}].modulus", x.e == v.abs2().e, extra=rev)
    obls, n = explore(body)
    return dict(obls=obls, paths=n, sources=[L.info()], consistent=sym.consistent())


def run_step_zero(mutate=None):
    return _run_step(mutate, True)


def run_step_nonzero(mutate=None):
    return _run_step(mutate, False)


def units():
    return [
        Unit("build_laplacian[pinned rows]", F + "build_laplacian", run_pinned_rows, props=["C06"], timeout=600),
        Unit("set_link_exponents[fix_psi=True]", F + "MeshOperators.set_link_exponents", c10.run_pinned, props=["C06", "C10"], timeout=900),
        Unit("set_link_exponents[fix_psi=False]", F + "MeshOperators.set_link_exponents", c10.run_free, props=["C06", "C10"], timeout=900),
        Unit("step_at_pinned_site[terminal_psi=0]", "tdgl.solver.solver:TDGLSolver.solve_for_psi_squared", run_step_zero, props=["C06"], timeout=300),
        Unit("step_at_pinned_site[terminal_psi!=0]", "tdgl.solver.solver:TDGLSolver.solve_for_psi_squared", run_step_nonzero, props=["C06"], timeout=300),
    ]


def replay(unit, obl):
    if unit.startswith("step_at_pinned_site"):
        import numpy as np
        import scipy.sparse as sp
        from tdgl.solver.solver import TDGLSolver
        m = obl.get("model") or {}
        g = lambda k, d: float(m[k]) if isinstance(m.get(k), (int, float)) else d
        v = complex(g("v_re", 0.5), g("v_im", 0.0)) if "!=0" in unit else 0j
        psi = np.array([v, v])
        args = dict(psi=psi, abs_sq_psi=np.abs(psi) ** 2, mu=np.array([g("mu", 0.0)] * 2), epsilon=np.array([g("epsilon", 1.0)] * 2),
                    gamma=abs(g("gamma", 1.0)), u=g("u", 5.79) or 1.0, dt=g("dt", 0.1) or 0.1, psi_laplacian=sp.identity(2, format="csr", dtype=complex))
        out = TDGLSolver.solve_for_psi_squared(**args)
        if out is None:
            return dict(confirmed=True, inputs={k: str(a) for k, a in args.items()}, result="refused at a pinned site")
        drift = float(np.abs(out[0] - psi).max())
        return dict(confirmed=bool(drift > 1e-12), inputs={k: str(a) for k, a in args.items() if k != "psi_laplacian"},
                    terminal_value=str(v), value_after_one_step=str(out[0][0]), drift=drift,
                    note="identity row feeds +psi_i into the Euler step: a non-zero terminal value is not held")
    from checks import ops_native
    return ops_native.replay_any(unit, obl)


M_ = "tdgl.finite_volume.operators"
MUTANTS = [
    dict(name="isin invert dropped", edits=[(M_, "free_rows = np.isin(rows, fixed_sites, invert=True)", "free_rows = np.isin(rows, fixed_sites)")], units=["build_laplacian[pinned rows]"]),
    dict(name="pin eigenvalue 0", edits=[(M_, "[values, fixed_sites_eigenvalues * np.ones(len(fixed_sites))]", "[values, 0 * np.ones(len(fixed_sites))]")], units=["build_laplacian[pinned rows]"]),
    dict(name="refresh ignores free_rows", edits=[(M_, "            if self.fix_psi:\n                free_rows = self.laplacian_free_rows[: len(self.laplacian_link_rows)]", "            if False:\n                free_rows = self.laplacian_free_rows[: len(self.laplacian_link_rows)]")], units=["set_link_exponents[fix_psi=True]"]),
    dict(name="mask by column site", edits=[(M_, "free_rows = np.isin(rows, fixed_sites, invert=True)", "free_rows = np.isin(cols, fixed_sites, invert=True)")], units=["build_laplacian[pinned rows]"]),
]


def thorough(seed=0):
    from pyvc import harness
    from checks import ops_native
    summary, broken = harness.run_mutants("checks.c06", units(), MUTANTS)
    bnd = ops_native.bounded(seed)
    broken = broken + bnd.get("broken", [])
    return dict(coverage=dict(mutants=summary, bounded=bnd, mutants_killed=sum(1 for m in summary if m["verdict"] in ("killed", "not-proved") and m["expect"] == "killed"),
                              mutants_total=sum(1 for m in summary if m["expect"] == "killed")), broken=broken)
