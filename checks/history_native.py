"""BOUNDED native stand-in (never counted as proved): a simulation does not depend on what the objects it is given were used for before.

One reference scenario (device with a hole, two terminals, probe points; ramped applied field; bias current; adaptive steps; screening) is run
on freshly built objects, and again on objects with a history - every history ends with all PUBLIC values equal to the fresh ones:

  options reused        the SolverOptions object served a fixed-step, unscreened run before
  device reused         the Device was solved with other layer parameters, a terminal moved away and back, derived scales / terminal_info read
  device copy           a copy of such a device (copies share the Mesh object)
  other solver alive    another TDGLSolver (other field, other layer via a copy) was built on the same mesh before / after, and run in between
  solver solved before  the same TDGLSolver instance was already solved once
  path reused           an earlier, different run was written to the same output path and deleted
  parameters reused     the (time-dependent, composite) applied-potential object and the current callable served another run before

Every recorded dataset of every frame, the per-step records and the frame attributes (except timestamps) must be bit-identical to the fresh run
(C09: identical inputs give identical outputs in any process; C11: the trajectory depends only on the physics).  Post-processing is checked
the same way: outputs requested twice, or after other outputs, are those of the first request (in the default and in non-default units)."""
import logging
import os
import tempfile

import numpy as np

FIELDS = ("psi", "mu", "supercurrent", "normal_current", "induced_vector_potential", "applied_vector_potential")


def _mk_device(tdgl, lam=1.0, xi=0.5):
    from tdgl.geometry import box, circle
    layer = tdgl.Layer(coherence_length=xi, london_lambda=lam, thickness=0.1, gamma=1)
    film = tdgl.Polygon("film", points=box(3, 2))
    src = tdgl.Polygon("source", points=box(0.1, 1.4)).translate(dx=-1.5, dy=0.1)
    drn = tdgl.Polygon("drain", points=box(0.1, 2)).translate(dx=1.5)
    dev = tdgl.Device("d", layer=layer, film=film, holes=[tdgl.Polygon("h", points=circle(0.3, points=21))], terminals=[src, drn], probe_points=[(-1, 0), (1, 0)], length_units="um")
    return dev


SOLVE_TIME = [0.25]


def _mk_options(tdgl, path, screening=True):
    return tdgl.SolverOptions(solve_time=SOLVE_TIME[0], dt_init=1e-4, dt_max=2e-2, adaptive=True, adaptive_window=3, save_every=6, include_screening=screening, screening_tolerance=1e-3,
                              field_units="mT", current_units="uA", output_file=path, progress_interval=0)


def _mk_drive(tdgl):
    from tdgl.sources import ConstantField, LinearRamp
    field = LinearRamp(tmin=0.0, tmax=0.2) * ConstantField(0.5, field_units="mT", length_units="um") + ConstantField(0.1, field_units="mT", length_units="um")

    def currents(t):
        return dict(source=2.0, drain=-2.0)
    return field, currents


def _read(path):
    import h5py
    out = {}
    with h5py.File(path, "r") as f:
        for k in sorted(f["data"], key=int):
            g = f["data"][k]
            for nm in FIELDS:
                if nm in g:
                    out[f"{k}/{nm}"] = np.array(g[nm])
            for a in ("step", "time", "dt"):
                out[f"{k}/attr/{a}"] = np.array(g.attrs[a])
            if "running_state" in g:
                for nm in g["running_state"]:
                    out[f"{k}/rs/{nm}"] = np.array(g["running_state"][nm])
    return out


def _diff(ref, got):
    if sorted(ref) != sorted(got):
        return dict(difference="different frames / datasets", only_fresh=sorted(set(ref) - set(got))[:4], only_with_history=sorted(set(got) - set(ref))[:4])
    for k in ref:
        a, b = ref[k], got[k]
        if a.shape != b.shape or not np.array_equal(a, b, equal_nan=True):
            return dict(first_differing_dataset=k, max_abs_diff=(float(np.abs(a - b).max()) if a.shape == b.shape else "shape"))
    return None


def search(seed=0, reduced=False):
    import tdgl
    from tdgl.solver.solver import TDGLSolver
    logging.disable(logging.CRITICAL)
    os.environ.setdefault("TQDM_DISABLE", "1")
    bad, n = [], 0
    base = _mk_device(tdgl)
    SOLVE_TIME[0] = 0.1 if reduced else 0.25
    base.make_mesh(max_edge_length=(0.75 if reduced else 0.5), smooth=5)

    from tdgl.finite_volume.mesh import Mesh

    def fresh_device(lam=1.0, xi=0.5):
        d = _mk_device(tdgl, lam, xi)
        # the mesher is not under test here: every device gets its OWN Mesh object with the same (recomputed) contents
        d.mesh = Mesh.from_triangulation(base.mesh.sites.copy(), base.mesh.elements.copy(), create_submesh=True)
        return d

    with tempfile.TemporaryDirectory() as td:
        def run(dev, opts, field, cur, solver=None):
            if solver is not None:
                return solver.solve()
            return tdgl.solve(dev, opts, applied_vector_potential=field, terminal_currents=cur)
        f0, c0 = _mk_drive(tdgl)
        ref_sol = run(fresh_device(), _mk_options(tdgl, os.path.join(td, "fresh.h5")), f0, c0)
        ref = _read(ref_sol.path)
        n += 1

        def compare(tag, sol):
            nonlocal n
            n += 1
            if sol is None:
                bad.append(dict(history=tag, what="no solution returned"))
                return
            d = _diff(ref, _read(sol.path))
            if d:
                bad.append(dict(history=tag, what="the recorded simulation differs from the one run on freshly built objects", **d))

        def guarded(tag, fn):
            try:
                fn()
            except Exception as e:  # noqa
                nonlocal n
                n += 1
                bad.append(dict(history=tag, what=f"raised {type(e).__name__}: {str(e)[:160]}"))

        # ---- options reused
        def h_options():
            o = _mk_options(tdgl, os.path.join(td, "o_pre.h5"))
            fresh = _mk_options(tdgl, os.path.join(td, "o_main.h5"))
            o.adaptive, o.include_screening, o.solve_time, o.save_every, o.dt_init = False, False, 0.02, 3, 2e-3
            f, c = _mk_drive(tdgl)
            run(fresh_device(), o, f, c)
            # the user sets back exactly the options they had changed for the first run
            for k in ("adaptive", "include_screening", "solve_time", "save_every", "dt_init", "output_file"):
                setattr(o, k, getattr(fresh, k))
            f, c = _mk_drive(tdgl)
            compare("options object reused after a fixed-step, unscreened run", run(fresh_device(), o, f, c))
        guarded("options reused", h_options)

        # ---- device reused / copied
        def h_device(copy):
            d = fresh_device()
            _ = d.K0, d.A0, d.Bc2, d.terminal_info()
            d.layer.london_lambda, d.layer.thickness = 0.4, 0.05
            d.terminals[0].translate(dx=0.0, dy=-0.4, inplace=True)
            f, c = _mk_drive(tdgl)
            pre = run(d, _mk_options(tdgl, os.path.join(td, f"d_pre{copy}.h5"), screening=True), f, c)
            _ = pre.current_density
            d.layer.london_lambda, d.layer.thickness = 1.0, 0.1
            d.terminals[0].translate(dx=0.0, dy=0.4, inplace=True)
            dd = d.copy() if copy else d
            f, c = _mk_drive(tdgl)
            compare("device %s after it was solved with other layer parameters and a terminal was moved away and back" % ("copied" if copy else "reused"),
                    run(dd, _mk_options(tdgl, os.path.join(td, f"d_main{copy}.h5")), f, c))
        guarded("device reused", lambda: h_device(False))
        if not reduced:
            guarded("device copy", lambda: h_device(True))

        # ---- other solvers alive on the same mesh
        def h_other():
            d = fresh_device()
            f, c = _mk_drive(tdgl)
            other_dev = d.copy()
            other_dev.layer.london_lambda = 0.3
            o_other = _mk_options(tdgl, os.path.join(td, "other.h5"))
            o_other.solve_time = 0.05
            before = TDGLSolver(other_dev, o_other, applied_vector_potential=1.5, terminal_currents=dict(source=0.5, drain=-0.5))
            main = TDGLSolver(d, _mk_options(tdgl, os.path.join(td, "other_main.h5")), applied_vector_potential=f, terminal_currents=c)
            o_after = _mk_options(tdgl, os.path.join(td, "after.h5"), screening=False)
            o_after.solve_time = 0.05
            after = TDGLSolver(d, o_after, applied_vector_potential=0.9)
            before.solve()
            after.solve()
            compare("two other solvers on the same mesh were built (one before, one after) and run before this solver was solved", main.solve())
            keep = (before, after)
            return keep
        guarded("other solver alive", h_other)

        # ---- the same with a solver that never refreshes its operators (static field, no screening) and whose kernel / operators could be taken
        # from another solver: run on fresh objects first, then with other solvers (other layer, other field) built around it
        def h_other_static():
            nonlocal n

            def opt(nm):
                o = _mk_options(tdgl, os.path.join(td, nm), screening=False)
                o.solve_time = 0.3
                return o
            ref_b = _read(run(fresh_device(), opt("b_fresh.h5"), 0.4, dict(source=2.0, drain=-2.0)).path)
            n += 1
            d = fresh_device()
            main = TDGLSolver(d, opt("b_main.h5"), applied_vector_potential=0.4, terminal_currents=dict(source=2.0, drain=-2.0))
            f, c = _mk_drive(tdgl)
            o2 = opt("b_other.h5")
            o2.solve_time = 0.05
            other = TDGLSolver(d, o2, applied_vector_potential=f, terminal_currents=dict(source=0.5, drain=-0.5))
            o3 = opt("b_other2.h5")
            o3.solve_time = 0.05
            other2 = TDGLSolver(d, o3, applied_vector_potential=1.3)
            other.solve()
            got = _read(main.solve().path)
            n += 1
            dd = _diff(ref_b, got)
            if dd:
                bad.append(dict(history="static-field solver, solved after two other solvers were built on the same device (one of them run)",
                                what="the recorded simulation differs from the one run on freshly built objects", **dd))
            return other2
        guarded("other solver alive (static field)", h_other_static)

        # ---- the same solver solved before
        def h_twice():
            d = fresh_device()
            f, c = _mk_drive(tdgl)
            s = TDGLSolver(d, _mk_options(tdgl, os.path.join(td, "twice.h5")), applied_vector_potential=f, terminal_currents=c)
            s.solve()
            compare("second solve() of one TDGLSolver instance", s.solve())
        guarded("solver solved before", h_twice)

        if True:
            # ---- output path reused (also in the reduced quick-tier run: a reader-side memo keyed by the path shows only here)
            def h_path():
                p = os.path.join(td, "reused.h5")
                o = _mk_options(tdgl, p, screening=False)
                o.solve_time, o.save_every = 0.1, 2
                f, c = _mk_drive(tdgl)
                first = run(fresh_device(), o, 0.7, None)
                _ = first.times, first.dynamics
                first.delete_hdf5()
                # ... and one more earlier run at that path that recorded exactly as many frames as the run under test (fixed steps, same save interval):
                # whatever a reader or writer remembers about "the file at this path with these frames" belongs to a file that no longer exists
                n_fr = len([k for k in ref if k.endswith("/attr/time")])
                o2 = _mk_options(tdgl, p, screening=False)
                o2.adaptive, o2.dt_init, o2.dt_max = False, 1e-3, 1e-3
                o2.solve_time = ((n_fr - 1) * o2.save_every - 0.5) * 1e-3
                second = run(fresh_device(), o2, 0.3, None)
                _ = second.times, second.dynamics, second.tdgl_data
                with __import__("h5py").File(second.path, "r") as f_:
                    same_count = len(f_["data"]) == n_fr
                second.delete_hdf5()
                if not same_count:
                    bad.append(dict(history="output path used before", what="harness: the earlier run did not record as many frames as the run under test"))
                f, c = _mk_drive(tdgl)
                sol = run(fresh_device(), _mk_options(tdgl, p), f, c)
                compare("output path used before by another (deleted) run", sol)
                n_frames = len([k for k in ref if k.endswith("/attr/time")])
                t_ref = np.array([float(ref[f"{i}/attr/time"]) for i in range(n_frames)])
                if sol is not None and not np.array_equal(np.asarray(sol.times), np.asarray(ref_sol.times)):
                    bad.append(dict(history="output path used before by another (deleted) run", what="Solution.times differ from those of the fresh run",
                                    times=np.asarray(sol.times)[:4].tolist(), fresh=np.asarray(ref_sol.times)[:4].tolist()))
            guarded("path reused", h_path)

            # ---- parameter objects reused
            def h_params():
                f, c = _mk_drive(tdgl)
                o = _mk_options(tdgl, os.path.join(td, "p_pre.h5"), screening=False)
                o.solve_time = 0.05
                run(fresh_device(lam=0.6), o, f, c)
                compare("applied-potential and current objects reused after a run on another device", run(fresh_device(), _mk_options(tdgl, os.path.join(td, "p_main.h5")), f, c))
            if not reduced:
                guarded("parameters reused", h_params)

        # ---- post-processing: the same request twice / after other requests gives the same answer; non-default units
        def h_post():
            nonlocal n
            P = np.array([[0.2, 0.1], [-0.7, 0.4], [1.9, -0.8]])
            on_sites = ref_sol.device.points[[3, 11]]
            for cu in ("uA", "mA"):
                sol = tdgl.Solution.from_hdf5(ref_sol.path)
                sol._current_units = cu
                sol.load_tdgl_data()
                first = dict(K=sol.current_density.to("uA/um").magnitude.copy(), B=np.asarray(sol.field_at_position(P, zs=1.0, units="mT", with_units=False)).copy(),
                             A=np.asarray(sol.vector_potential_at_position(np.concatenate([P, on_sites]), zs=0.8, units="mT * um", with_units=False)).copy())
                again = dict(B=np.asarray(sol.field_at_position(P, zs=1.0, units="mT", with_units=False)), K=sol.current_density.to("uA/um").magnitude,
                             A=np.asarray(sol.vector_potential_at_position(np.concatenate([P, on_sites]), zs=0.8, units="mT * um", with_units=False)))
                n += 1
                for k in first:
                    if not np.allclose(first[k], again[k], rtol=1e-12, atol=0):
                        bad.append(dict(history="post-processing requested twice on one Solution", current_units=cu, what=f"{k} changes between the first and the second request",
                                        max_rel_change=float(np.abs(again[k] - first[k]).max() / (np.abs(first[k]).max() + 1e-300))))
                        break
                if cu == "uA":
                    base_out = first
                else:
                    for k in first:
                        if not np.allclose(first[k], base_out[k], rtol=1e-9, atol=0):
                            bad.append(dict(history="same Solution read with current units mA instead of uA", what=f"physical {k} depends on the units the solution reports currents in",
                                            max_rel_diff=float(np.abs(first[k] - base_out[k]).max() / (np.abs(base_out[k]).max() + 1e-300))))
                            break
        guarded("post-processing", h_post)
    logging.disable(logging.NOTSET)
    return bad, n
